"""Triage table for findings the checks raise on the reference tree.  Each
entry was either replayed against the real code in this sandbox (replayed =
the command/inputs and the observed result) or, where the code path cannot
be executed under the pinned Keras 3, argued from the call site.  Used only
by tools/make_known.py to produce known_findings.json."""

Q = "qkeras/quantizers.py::"

TRIAGE = {
    # ------------------------------------------------------------------ C01
    ("C01", "R1", Q + "quantized_relu.__call__", "codes:below-min-code"): {
        "what_fails": "leaky quantized_relu with negative_slope*2**(bits-1) "
                      "< 1 (e.g. quantized_relu(1,3,negative_slope=0.25)): "
                      "the negative branch clips round(p*slope)/(slope*m) to "
                      "[-1,0] although that operand only takes multiples of "
                      "1/(slope*m) > 1, so -slope*2**integer is emitted, "
                      "which is not a code of the format",
        "replayed": "quantized_relu(1,3,negative_slope=0.25)([-30.]) -> -2.0 "
                    "(step 8, codes {0})"},
    ("C01", "R1", Q + "quantized_relu.__call__",
     "codes:off-grid+below-min-code"): {
        "what_fails": "same construct at bits>=2, e.g. "
                      "quantized_relu(2,0,negative_slope=0.25)(-3.0) = -0.25 "
                      "with format step 0.5",
        "replayed": "quantized_relu(2,0,negative_slope=0.25)([-3,-1.5]) -> "
                    "[-0.25,-0.25]"},
    ("C01", "R2", Q + "quantized_relu.min/max", "does-not-enclose"): {
        "what_fails": "quantized_relu(1,3,negative_slope=0.25).min() "
                      "returns -1.0 (the bits==1 special case) while the "
                      "quantizer outputs -slope*2**integer = -2.0",
        "replayed": "q=quantized_relu(1,3,negative_slope=0.25); q([-30.]) "
                    "-> -2.0; q.min() -> -1.0"},
    # ------------------------------------------------------------------ C02
    ("C02", "R2", Q + "quantized_bits.__call__",
     "quantizes-alpha*x-instead-of-x"): {
        "what_fails": "legacy quantized_bits with a constant alpha != 1 "
                      "multiplies the quantized value by alpha instead of "
                      "scaling the grid: the output is the code nearest to "
                      "alpha*x, not to x",
        "replayed": "quantized_bits(4,1,alpha=2.0)([1.0,0.3]) -> [2.0,0.5]"},
    ("C02", "R4", Q + "quantized_relu.__call__",
     "clip-after-round:bound-off-grid"): {
        "what_fails": "leaky quantized_relu with negative_slope*2**(bits-1) "
                      "< 1: clip(..., -1, 0) is applied to an operand on the "
                      "grid 1/(slope*m) > 1, so saturation lands between "
                      "codes (same defect as the C01 finding)",
        "replayed": "quantized_relu(2,0,negative_slope=0.25)([-3.]) -> "
                    "-0.25"},
    # ------------------------------------------------------------------ C03
    ("C03", "R5", Q + "quantized_relu_po2.min/max",
     "min()-does-not-enclose"): {
        "what_fails": "leaky quantized_relu_po2.min() returns "
                      "-negative_slope*2**(bits-1) while negative inputs are "
                      "mapped down to -2**max_exp",
        "replayed": "q=quantized_relu_po2(4,negative_slope=0.25); "
                    "q([-1000.]) -> -128.0; q.min() -> -2.0"},
    # ------------------------------------------------------------------ C06
    ("C06", "R2", Q + "binary.__call__", "gradient!=surrogate"): {
        "what_fails": "binary(use_stochastic_rounding=True) in the training "
                      "phase rescales x by f = 2*min(max|x|,1) computed "
                      "without stop_gradient, so d(output)/dx carries an "
                      "extra term through the max reduction instead of the "
                      "pure straight-through surrogate",
        "replayed": "not executable here (K.learning_phase is absent under "
                    "the pinned Keras 3); argued from quantizers.py binary."
                    "__call__: x = f*_round_through(x/f, ...) with f a "
                    "function of K.max(|x|)"},
    ("C06", "R4", Q + "binary.__call__", "scale-not-detached"): {
        "what_fails": "same call site: the data-dependent factor f is not "
                      "under stop_gradient",
        "replayed": "argued from the code path (see above)"},
    # ------------------------------------------------------------------ C08
    ("C08", "R3", Q + "quantized_relu.__call__", "training-codes:off-grid"): {
        "what_fails": "quantized_relu(use_stochastic_rounding=True) calls "
                      "_round_through on the code index with the default "
                      "precision 0.5, so in training half-codes k/2 * step "
                      "are emitted (quantized_bits/quantized_linear pass "
                      "precision=1.0)",
        "replayed": "not executable here (K.learning_phase missing); argued "
                    "from stochastic_round: scale=1/precision=2, result "
                    "floor|ceil(2p)/2"},
    ("C08", "R3", Q + "quantized_tanh.__call__", "training-codes:off-grid"): {
        "what_fails": "quantized_tanh(use_stochastic_rounding=True): same "
                      "default precision 0.5 on the code index",
        "replayed": "argued from the code path"},
    ("C08", "R3", Q + "quantized_sigmoid.__call__",
     "training-codes:off-grid"): {
        "what_fails": "quantized_sigmoid(use_stochastic_rounding=True): same "
                      "default precision 0.5 on the code index",
        "replayed": "argued from the code path"},
}

_C07_INLINE = ("the layer turns its `activation` argument into a quantizer "
               "object that is not listed in self.quantizers; "
               "QNoiseScheduler.get_quantizers only reads layer.quantizers / "
               "layer.quantizer, so a qnoise_factor on that activation is "
               "never scheduled")
_C07_REPLAY = ("d=QDense(3,kernel_quantizer='quantized_bits(4)',activation="
               "'quantized_relu(4)'); QNoiseScheduler(0,10).get_quantizers("
               "model with layers [d]) -> [quantized_bits] only; same "
               "constructor idiom in this class")
for unit in ("qkeras/qconv2d_batchnorm.py::QConv2DBatchnorm",
             "qkeras/qconvolutional.py::QConv1D",
             "qkeras/qconvolutional.py::QConv2D",
             "qkeras/qconvolutional.py::QConv2DTranspose",
             "qkeras/qconvolutional.py::QDepthwiseConv2D",
             "qkeras/qconvolutional.py::QSeparableConv1D",
             "qkeras/qconvolutional.py::QSeparableConv2D",
             "qkeras/qdepthwiseconv2d_batchnorm.py::"
             "QDepthwiseConv2DBatchnorm",
             "qkeras/qlayers.py::QDense"):
  TRIAGE[("C07", "R5", unit, "inline-activation-not-exposed")] = {
      "what_fails": _C07_INLINE, "replayed": _C07_REPLAY}
for unit, rp in (
    ("qkeras/qdepthwise_conv2d_transpose.py::QDepthwiseConv2DTranspose",
     "QNoiseScheduler(0,10).get_quantizers(model with this layer) -> [] "
     "while layer.get_quantizers() holds a quantized_bits"),
    ("qkeras/qseparable_conv2d_transpose.py::QSeparableConv2DTranspose",
     "QNoiseScheduler(0,10).get_quantizers(model with this layer) -> []"),
    ("qkeras/qrecurrent.py::QSimpleRNN",
     "l=QSimpleRNN(4,kernel_quantizer='quantized_bits(4)'); scheduler "
     "get_quantizers -> []"),
    ("qkeras/qrecurrent.py::QLSTM", "same wrapper idiom as QSimpleRNN "
     "(get_quantizers() method only, no quantizers attribute)"),
    ("qkeras/qrecurrent.py::QGRU", "same wrapper idiom as QSimpleRNN"),
    ("qkeras/qrecurrent.py::QBidirectional", "get_quantizers() method only, "
     "no quantizers attribute")):
  TRIAGE[("C07", "R5", unit, "quantizers-not-exposed")] = {
      "what_fails": "the layer exposes its quantizers only through "
                    "get_quantizers(); QNoiseScheduler reads the attributes "
                    "`quantizers`/`quantizer`, finds neither, and never "
                    "updates this layer's qnoise_factor", "replayed": rp}

# ---------------------------------------------------------------------- C09
_C09_REPLAY = {
    "quantized_linear": "q=quantized_linear(alpha='auto',scale_axis=0); "
                        "quantized_linear.from_config(q.get_config())."
                        "scale_axis -> None",
    "quantized_bits": "q=quantized_bits(8,0,1,alpha='auto',scale_axis=0); "
                      "quantized_bits.from_config(q.get_config()).scale_axis "
                      "-> None (get_config has no such key; same for the "
                      "other keys missing from the dictionary literal)",
    "bernoulli": "bernoulli.from_config(bernoulli(temperature=4.0)."
                 "get_config()).temperature -> 6.0",
    "binary": "binary.from_config(binary(alpha='auto_po2',min_po2_exponent="
              "-2).get_config()).min_po2_exponent -> None",
    "quantized_relu": "quantized_relu.from_config(quantized_relu("
                      "is_quantized_clip=False).get_config())."
                      "is_quantized_clip -> True",
}
for cls, opts in (
    ("quantized_linear", ["scale_axis"]),
    ("quantized_bits", ["elements_per_scale", "max_po2_exponent",
                        "min_po2_exponent", "scale_axis"]),
    ("bernoulli", ["temperature", "use_real_sigmoid"]),
    ("binary", ["elements_per_scale", "max_po2_exponent", "min_po2_exponent",
                "scale_axis"]),
    ("quantized_relu", ["is_quantized_clip"])):
  for o in opts:
    TRIAGE[("C09", "R2", Q + cls + ".get_config", "option-lost:" + o)] = {
        "what_fails": "%s.get_config() has no %r key although the option "
                      "changes the forward function: the quantizer rebuilt "
                      "with from_config(get_config()) silently falls back to "
                      "the default" % (cls, o),
        "replayed": _C09_REPLAY[cls]}
TRIAGE[("C09", "R1", Q + "quantized_hswish.from_config",
        "rejects-own-config:keep_negative,post_training_scale")] = {
    "what_fails": "quantized_hswish inherits quantized_bits.get_config, "
                  "whose keys keep_negative and post_training_scale are not "
                  "parameters of quantized_hswish.__init__",
    "replayed": "quantized_hswish.from_config(quantized_hswish()."
                "get_config()) -> TypeError: unexpected keyword argument "
                "'keep_negative'"}

# ---------------------------------------------------------------------- C10
_C10 = {
    ("quantized_linear", "printer-raises:UnboundLocalError"):
        ("str(quantized_linear(alpha=2.0)) reads the local `alpha` before "
         "assigning it", "str(quantized_linear(alpha=2.0)) -> "
         "UnboundLocalError"),
    ("quantized_po2", "printer-raises:TypeError"):
        ("str(quantized_po2(8,use_stochastic_rounding=True)) evaluates "
         "int(self.max_value) with max_value None",
         "str(quantized_po2(8,use_stochastic_rounding=True)) -> TypeError"),
    ("quantized_relu_po2", "printer-raises:TypeError"):
        ("same int(None) in quantized_relu_po2.__str__",
         "same construct as quantized_po2 (replayed there)"),
    ("quantized_hswish", "printer-raises:AssertionError"):
        ("quantized_hswish.__str__ asserts isinstance(integer_bits, int) on "
         "a value that is always a str", "str(quantized_hswish()) -> "
         "AssertionError"),
    ("binary", "call-raises-after-reparse:scale_axis=list"):
        ("binary prints list options as [a,b]; GetParams splits on commas "
         "and ListofNums on spaces, so scale_axis=[0] comes back as the "
         "string '0'", "get_quantizer(\"binary(alpha='auto',scale_axis=[0])"
         "\") builds a binary whose scale_axis is not the list [0]"),
    ("quantized_relu", "reparsed-differs:negative_slope"):
        ("negative_slope is printed into the use_sigmoid positional slot",
         "get_quantizer(str(quantized_relu(8,0,negative_slope=0.25))) = "
         "get_quantizer('quantized_relu(8,0,0.25)') -> use_sigmoid=0.25, "
         "negative_slope=0.0"),
    ("quantized_relu", "reparsed-differs:use_stochastic_rounding"):
        ("the stochastic flag is printed into the negative_slope slot",
         "str(quantized_relu(8,0,use_stochastic_rounding=True)) = "
         "'quantized_relu(8,0,0,1)' -> negative_slope=1, "
         "use_stochastic_rounding=False"),
    ("quantized_tanh", "reparsed-differs:symmetric"):
        ("symmetric is printed into the use_stochastic_rounding slot",
         "str(quantized_tanh(8,symmetric=True)) = 'quantized_tanh(8,1)' -> "
         "use_stochastic_rounding=1, symmetric=False"),
    ("quantized_tanh", "reparsed-differs:use_real_tanh"):
        ("use_real_tanh is printed into an earlier positional slot",
         "same printer idiom as symmetric (replayed there)"),
    ("quantized_sigmoid", "reparsed-differs:use_real_sigmoid"):
        ("use_real_sigmoid is printed into the symmetric slot",
         "str(quantized_sigmoid(8,use_real_sigmoid=True)) = "
         "'quantized_sigmoid(8,1)' -> symmetric=1, use_real_sigmoid=False"),
    ("quantized_sigmoid", "reparsed-differs:use_stochastic_rounding"):
        ("use_stochastic_rounding is printed into an earlier positional slot",
         "same printer idiom (replayed for use_real_sigmoid)"),
    ("quantized_relu_po2", "reparsed-differs:negative_slope"):
        ("negative_slope is printed into the max_value slot",
         "str(quantized_relu_po2(8,negative_slope=0.25)) = "
         "'quantized_relu_po2(8,0.25)' -> max_value=0.25, negative_slope=0"),
}
for (cls, construct), (wf, rp) in _C10.items():
  TRIAGE[("C10", "R4", Q + cls + ".__str__", construct)] = {
      "what_fails": wf, "replayed": rp}
# repaired by 41c3b09 (po2 printers)
for _k in (("quantized_po2", "printer-raises:TypeError"),
           ("quantized_relu_po2", "printer-raises:TypeError"),
           ("quantized_relu_po2", "reparsed-differs:negative_slope")):
  TRIAGE[("C10", "R4", Q + _k[0] + ".__str__", _k[1])].update(
      status="fixed", commit="41c3b09")
for _k, _commit in (
    (("quantized_linear", "printer-raises:UnboundLocalError"), "0303fec"),
    (("quantized_hswish", "printer-raises:AssertionError"), "11ca6da"),
    (("quantized_relu", "reparsed-differs:negative_slope"), "52302af"),
    (("quantized_relu", "reparsed-differs:use_stochastic_rounding"),
     "52302af"),
    (("quantized_tanh", "reparsed-differs:symmetric"), "639caf6"),
    (("quantized_tanh", "reparsed-differs:use_real_tanh"), "639caf6"),
    (("quantized_sigmoid", "reparsed-differs:use_real_sigmoid"), "1626f05"),
    (("quantized_sigmoid", "reparsed-differs:use_stochastic_rounding"),
     "1626f05")):
  TRIAGE[("C10", "R4", Q + _k[0] + ".__str__", _k[1])].update(
      status="fixed", commit=_commit)
for _c in ("quantized_po2", "quantized_relu_po2"):
  TRIAGE[("C10", "R4", Q + _c + ".__str__", "reparsed-differs:max_value")] = {
      "status": "fixed", "commit": "41c3b09",
      "what_fails": "%s.__str__ printed int(max_value): max_value=0.5 was "
                    "printed as 0 and parsed back as max_value=0" % _c,
      "replayed": "get_quantizer(str(%s(8, max_value=0.5))).max_value == 0 "
                  "on the real code before the fix" % _c}
_NOT_PRINTED = {
    "quantized_linear": ["qnoise_factor", "scale_axis"],
    "quantized_bits": ["elements_per_scale", "max_po2_exponent",
                       "min_po2_exponent", "qnoise_factor", "scale_axis",
                       "scale_axis=list"],
    "quantized_relu": ["is_quantized_clip", "qnoise_factor",
                       "relu_upper_bound"],
    "quantized_po2": ["log2_rounding", "qnoise_factor"],
    "quantized_relu_po2": ["log2_rounding", "qnoise_factor"],
    # visible since the printer no longer raises (11ca6da)
    "quantized_hswish": ["qnoise_factor", "scale_axis"],
}
for cls, opts in _NOT_PRINTED.items():
  for o in opts:
    TRIAGE[("C10", "R4", Q + cls + ".__str__", "reparsed-differs:" + o)] = {
        "what_fails": "%s.__str__ never prints the option %s, so the text "
                      "re-parses to a quantizer with the default value, "
                      "which computes a different function" % (cls, o),
        "replayed": "str(quantized_bits(8,0,1,alpha='auto',scale_axis=0)) = "
                    "\"quantized_bits(8,0,1,alpha='auto')\"; the re-parsed "
                    "object has scale_axis None (same omission for the "
                    "other listed options, by reading the printer)"}

# ------------------------------------------------------------------ C16/C17
_MI = "qkeras/qtools/quantized_operators/multiplier_impl.py::"
TRIAGE[("C16", "R2", _MI + "Mux", "widths-not-commutative")] = {
    "what_fails": "Mux takes the output width from the input operand "
                  "whenever the weight is binary/ternary, even when the "
                  "input is the narrower binary: ternary(weight) x "
                  "binary(input) reports a ternary output with bits=1, the "
                  "swapped call bits=2",
    "replayed": "MultiplierFactory().make_multiplier(Ternary(), Binary())."
                "output -> ('ternary', bits 1, int_bits 1); "
                "make_multiplier(Binary(), Ternary()) -> bits 2"}
_AF = "qkeras/qtools/quantized_operators/adder_factory.py::"
_AI = "qkeras/qtools/quantized_operators/adder_impl.py::"
_FIX = {"status": "fixed", "commit": "d0b7627",
        "what_fails": "adder_impl_table[1][4] (po2 + binary 0/1) selected "
                      "FixedPointAdder, which reads the po2 operand's "
                      "bits/int_bits as a fixed-point format",
        "replayed": "before the fix IAdder().make_quantizer(PowerOfTwo(8 "
                    "bits), Binary(use_01=True)).output -> (bits 10, int 9); "
                    "swapped -> (129, 64); after the fix both (129, 64)"}
TRIAGE[("C17", "R1", _AF + "IAdder.adder_impl_table",
        "table-asymmetric[1][4]")] = dict(_FIX)
TRIAGE[("C17", "R5", _AI + "FixedPointAdder",
        "adder-insufficient-int-bits")] = dict(_FIX)
TRIAGE[("C17", "R5", _AI + "FixedPointAdder",
        "adder-insufficient-frac-bits")] = dict(_FIX)
TRIAGE[("C17", "R1", _AI + "FixedPointAdder",
        "adder-type-not-commutative")] = dict(_FIX)
TRIAGE[("C17", "R1", _AI + "Po2FixedPointAdder",
        "adder-type-not-commutative")] = dict(_FIX)
_MG = "qkeras/qtools/quantized_operators/merge_factory.py::"
for c in ("Add", "Maximum"):
  TRIAGE[("C17", "R5", _MG + c, "merge-insufficient-frac-bits")] = {
      "what_fails": "%s keeps max(bits) and max(int_bits) of its inputs "
                    "independently, so the output's fractional bits are "
                    "max_bits - max_int_bits - sign: coarser than the finest "
                    "operand when the widest-integer input is not the "
                    "finest one" % c,
      "replayed": "Add([(QuantizedBits bits=8,int=0), (QuantizedBits "
                  "bits=8,int=7)]).output -> bits 9, int_bits 8, i.e. 0 "
                  "fractional bits although the first operand has 7"}

TRIAGE[("C17", "R5", _MG + "MergeFactory.make_quantizer",
        "merge-insufficient-frac-bits")] = {
    "what_fails": "Add starts its running maximum of the operands' integer "
                  "bits at -1, so an operand with int_bits <= -2 is merged "
                  "as if it had -1: the output keeps max_bits + 1 bits but "
                  "gets int_bits 0, one or more fractional bits fewer than "
                  "the operand has (seen for a one-entry operand list - a "
                  "node feeding the Add twice over the single graph edge - "
                  "and equally for a pair)",
    "replayed": "MergeFactory().make_quantizer([(QuantizedBits bits=8, "
                "int_bits=-2, signed, {})], 'Add').output -> bits 9, "
                "int_bits 0: 8 fractional bits, the operand has 9; the same "
                "for the pair [(q, {}), (q, {})]"}

# ---------------------------------------------------------------------- C19
_QU = "qkeras/qtools/qtools_util.py::get_operation_count"
_ES = "qkeras/estimate.py::extract_model_operations"
_QE = "qkeras/qtools/qenergy/qenergy.py::energy_estimate"
TRIAGE[("C19", "R1", _QU, "count:AveragePooling2D:reported Co*ph*pw")] = {
    "what_fails": "the pooling arm multiplies the pool area by the output "
                  "channels only; the output spatial positions are missing",
    "replayed": "get_operation_count(AveragePooling2D((2,2)), (None,8,8,3)) "
                "-> 12, the layer performs 4*4*3*4 = 192 window additions"}
TRIAGE[("C19", "R1", _QU, "count:QAveragePooling2D:reported 0")] = {
    "what_fails": "QAveragePooling2D is not in the pooling class list of "
                  "get_operation_count, so its count defaults to 0",
    "replayed": "get_operation_count(QAveragePooling2D((2,2)), (None,8,8,3))"
                " -> 0 (prints 'operation count ... is defaulted to 0')"}
TRIAGE[("C19", "R1", _QU, "count:QDepthwiseConv2DBatchnorm:reported 0")] = {
    "what_fails": "QDepthwiseConv2DBatchnorm is in none of the class lists of "
                  "get_operation_count (the depthwise list has only "
                  "QDepthwiseConv2D/DepthwiseConv2D), so the folded layer's "
                  "count defaults to 0",
    "replayed": "argued from the class lists in get_operation_count (the "
                "folded layer cannot be built under the pinned Keras 3)"}
for c, _got in (("QSeparableConv1D", "Co*To + Ci*To*k"),
                ("QSeparableConv2D", "Co*Ho*Wo + Ci*Ho*Wo*kh*kw")):
  TRIAGE[("C19", "R1", _ES, "count:%s:reported %s" % (c, _got))] = {
      "what_fails": "the pointwise term of the separable convolution is "
                    "out_spatial*C_out; a 1x1 convolution performs "
                    "out_spatial*C_out*C_in multiply-accumulates",
      "replayed": "argued from the expression in the %s arm of "
                  "extract_model_operations" % c}
for c in ("AveragePooling2D", "AvgPool2D", "GlobalAveragePooling2D",
          "GlobalAvgPool2D"):
  TRIAGE[("C19", "R2", _QE, "key-not-written:%s:accumulator" % c)] = {
      "status": "fixed", "commit": "342c2b7",
      "what_fails": "energy_estimate read layer_item['accumulator'] for "
                    "average-pooling layers while the data type map stores "
                    "'pool_sum_accumulator': get_val returned None and "
                    "accumulator.output raised AttributeError",
      "replayed": "by reading both dictionaries; the upstream tests "
                  "(qtools_model_test / qpooling_test) pin the writer key "
                  "'pool_sum_accumulator'"}
_BNK = ("beta_quantizer,gamma_quantizer,internal_divide_quantizer,"
        "internal_multiplier,mean_quantizer,variance_quantizer")
for c in ("BatchNormalization", "QBatchNormalization"):
  TRIAGE[("C19", "R2", _QE, "key-not-written:%s:%s" % (c, _BNK))] = {
      "what_fails": "for a batch-norm layer marked enable_bn_fusing the data "
                    "type map stores only input_quantizer_list / "
                    "output_quantizer / output_shapes / operation_count, "
                    "while energy_estimate and parameter_read_energy "
                    "subscript layer_item['gamma_quantizer'], "
                    "['internal_divide_quantizer'], ... unconditionally "
                    "(KeyError)",
      "replayed": "argued from the two dictionary literals in the batch-norm "
                  "arm of generate_layer_data_type_map and the subscripts in "
                  "qenergy.py"}
for c in ("QAveragePooling2D", "QGlobalAveragePooling2D", "QConv2DBatchnorm",
          "QDepthwiseConv2DBatchnorm"):
  TRIAGE[("C19", "R3", _QE, "no-op-energy-arm:" + c)] = {
      "what_fails": "%s layers get a data-type entry (with multiplier / "
                    "accumulator types) but no arm of energy_estimate "
                    "matches the class, so their op_cost is always 0" % c,
      "replayed": "argued from the class lists of the op-energy dispatch in "
                  "energy_estimate"}

# ---------------------------------------------------------------------- C20
_GQ = "qkeras/autoqkeras/autoqkeras_internal.py::AutoQKHyperModel._get_quantizer"
_QM = "qkeras/autoqkeras/autoqkeras_internal.py::AutoQKHyperModel.quantize_model"
_C20_REPLAY = ("the method body of _get_quantizer, extracted from the real "
               "source and run on a tagged configuration (limit LSTM:"
               "[4,8,2,16]): head 'L_recurrent_kernel' and "
               "'L_pointwise_kernel' are offered ['kernel_2','kernel_4']; "
               "'kernel_L_bias' is offered the kernel table; "
               "'bias_L_activation' the bias table")
# keys carry the class and what the tuner is offered instead, so that a
# different wrong table / limit entry for the same role is a new finding
TRIAGE[("C20", "R2", _GQ, "role-limit:LSTM:recurrent_kernel:gets kernel "
        "table filtered by limit[0]")] = {
    "what_fails": "the test '\"kernel\" in head' precedes and subsumes "
                  "'\"recurrent_kernel\" in head': the recurrent kernel is "
                  "drawn from the kernel table with the kernel limit (index "
                  "0) instead of its own table and the recurrent entry "
                  "(index 2) of the 4-entry recurrent limit list",
    "replayed": _C20_REPLAY}
TRIAGE[("C20", "R2", _GQ, "role-limit:SeparableConv2D:pointwise_kernel:gets "
        "kernel table filtered by limit[0]")] = {
    "what_fails": "the same shadowed test: the pointwise kernel is drawn "
                  "from the kernel table instead of the pointwise_kernel "
                  "table (the limit entry, index 0 = weights of the 3-entry "
                  "list, is the documented one)",
    "replayed": _C20_REPLAY}
for _cls, _roles in (("LSTM", ("activation", "bias", "recurrent_activation",
                               "recurrent_kernel")),
                     ("SeparableConv2D", ("activation", "bias",
                                          "pointwise_kernel"))):
  for _r in _roles:
    for _n, _got in (("kernel", "kernel table filtered by limit[0]"),
                     ("bias", "bias table filtered by limit[1]")):
      if _r == _n:
        continue
      if _n == "bias" and "kernel" in _r:
        _got = "kernel table filtered by limit[0]"
      TRIAGE[("C20", "R2", _GQ, "role-limit:%s:%s@layer-name-contains-%s:"
              "gets %s" % (_cls, _r, _n, _got))] = {
          "what_fails": "the tensor role is recognised by substring tests "
                        "on layer.name + '_' + role, so a layer whose own "
                        "name contains 'kernel' or 'bias' gets every role "
                        "resolved to that table and limit index",
          "replayed": _C20_REPLAY}
for cls, key in (("Dense", "activation"), ("Conv2D", "activation"),
                 ("SeparableConv2D", "activation"),
                 ("SeparableConv2D", "depthwise_quantizer"),
                 ("SeparableConv2D", "pointwise_quantizer"),
                 ("DepthwiseConv2D", "activation"), ("LSTM", "activation"),
                 ("LSTM", "recurrent_activation")):
  TRIAGE[("C20", "R5", _QM,
          "key-ignored-by-model_quantize:%s:%s" % (cls, key))] = {
      "what_fails": "AutoQKeras stores the sampled quantizer under %r for "
                    "%s layers, but model_quantize never reads that key for "
                    "this class (it reads activation_quantizer / "
                    "recurrent_activation_quantizer / kernel_quantizer), so "
                    "the trial model does not use the sampled quantizer" %
                    (key, cls),
      "replayed": "model_quantize(model, {'dense': {'kernel_quantizer': "
                  "'quantized_bits(4)', 'activation': 'quantized_relu(2)'}}, "
                  "4) yields activation quantized_relu(4) (the "
                  "activation_bits fallback), replayed in the design phase; "
                  "the other keys by reading the get_config(...) calls of "
                  "model_quantize"}

# ---------------------------------------------------------------------- C12
_MQ = "qkeras/utils.py::model_quantize"
TRIAGE[("C12", "R6", _MQ, "raises:LeakyReLU:KeyError")] = {
    "status": "fixed", "commit": "fb73ae4",
    "what_fails": "the ReLU/LeakyReLU arm overwrote layer['class_name'] with "
                  "'QActivation' before comparing it with 'LeakyReLU'/'relu', "
                  "so a selected LeakyReLU layer ran the ReLU deletions",
    "replayed": "model_quantize(Input->Dense->LeakyReLU, {'QActivation': "
                "{'leakyrelu': 'quantized_relu(4,negative_slope=0.25)'}}, 4) "
                "-> KeyError: 'max_value' before the fix"}
TRIAGE[("C12", "R6", _MQ, "raises:MyLayer:UnboundLocalError")] = {
    "status": "fixed", "commit": "1ecbab3",
    "what_fails": "q_name was read for every layer with a registered_name "
                  "but assigned only in some branches",
    "replayed": "model_quantize(Input->MyLayer(registered)->Dense, {...}) -> "
                "UnboundLocalError: q_name, before the fix"}
TRIAGE[("C12", "R4", _MQ, "unselected-layer-changed:MyLayer")] = {
    "status": "fixed", "commit": "1ecbab3",
    "what_fails": "a stale q_name from the previously converted layer "
                  "overwrote the registered_name of a custom layer that no "
                  "branch converts",
    "replayed": "rewritten JSON of Input->Dense->MyLayer had "
                "('MyLayer', registered_name 'QDense') before the fix"}
_SEP = {
    "what_fails": "the SeparableConv1D/2D branch of model_quantize reads and "
                  "writes 'kernel_quantizer', but QSeparableConv1D/2D take "
                  "depthwise_quantizer / pointwise_quantizer: with the "
                  "documented keys the layer is silently left unconverted, "
                  "with kernel_quantizer the rebuilt layer rejects the key",
    "replayed": "model_quantize on a SeparableConv2D model with "
                "{'QSeparableConv2D': {'depthwise_quantizer': ..., "
                "'pointwise_quantizer': ...}} leaves a plain SeparableConv2D "
                "(replayed in the design phase); with 'kernel_quantizer' "
                "deserialisation raises"}
for c in ("class:sep->SeparableConv2D", "config:sep.depthwise_quantizer",
          "config:sep.pointwise_quantizer", "config:sep.bias_quantizer"):
  TRIAGE[("C12", "R7", _MQ, c)] = dict(_SEP)
TRIAGE[("C12", "R1", _MQ,
        "key-not-accepted:QSeparableConv1D:kernel_quantizer")] = dict(_SEP)
for c in ("Conv2D", "DepthwiseConv2D"):
  TRIAGE[("C12", "R4", _MQ, "unselected-folded-layer-changed:" + c)] = {
      "what_fails": "with enable_bn_folding the folding arm stores "
                    "use_bias=True, folding_mode and ema_freeze_delay into "
                    "the layer config before it finds that no quantizer is "
                    "configured and leaves the layer unconverted: the plain "
                    "%s layer is rebuilt with a bias and unknown keys" % c,
      "replayed": "argued from the statement order in the folding arm "
                  "(layer_config['use_bias'] = True precedes the 'if "
                  "kernel_quantizer is None: continue' bail-out)"}

# ---------------------------------------------------------------------- C13
_CO = "qkeras/utils.py::_add_supported_quantized_objects"
for n in ("QDepthwiseConv2DTranspose", "QSeparableConv2DTranspose",
          "quantized_hswish", "quantized_linear"):
  TRIAGE[("C13", "R1", _CO, "missing-entry:" + n)] = {
      "status": "fixed", "commit": "58c31c1",
      "what_fails": "%s was not in the custom-object table, so a model using "
                    "it could not be reloaded / cloned without user-supplied "
                    "custom_objects" % n,
      "replayed": "'%s' in the dictionary filled by "
                  "_add_supported_quantized_objects({}) -> False before the "
                  "fix, True after" % n}
TRIAGE[("C13", "R2", "qkeras/qlayers.py::Clip",
        "option-not-serialised:constraint")] = {
    "what_fails": "Clip.get_config() returns only min_value / max_value: a "
                  "wrapped constraint is lost when the layer config is "
                  "saved (from_config then rebuilds Clip without it)",
    "replayed": "Clip(0,1,constraint='non_neg',quantizer='quantized_bits(4)')"
                ".get_config() -> {'min_value': 0, 'max_value': 1}"}
TRIAGE[("C13", "R2", "qkeras/qlayers.py::Clip",
        "option-not-serialised:quantizer")] = {
    "what_fails": "Clip.get_config() omits the quantizer applied after the "
                  "wrapped constraint",
    "replayed": "same call as for `constraint`"}
TRIAGE[("C13", "R2", "qkeras/qlayers.py::QAdaptiveActivation",
        "option-not-serialised:relu_upper_bound")] = {
    "status": "fixed", "commit": "775293a",
    "what_fails": "QAdaptiveActivation.get_config() has no relu_upper_bound "
                  "key although the constructor stores and uses it",
    "replayed": "QAdaptiveActivation('quantized_relu', 6, relu_upper_bound="
                "1.5) -> from_config(get_config()): relu_upper_bound None, "
                "the quantizer's bound None (found again by the interpreted "
                "round trip C13 R5 once the layer was added to it)"}
TRIAGE[("C13", "R2", "qkeras/qnormalization.py::QBatchNormalization",
        "option-not-serialised:activation")] = {
    "what_fails": "QBatchNormalization.__init__ accepts `activation` but "
                  "neither forwards nor serialises it (the option is dead)",
    "replayed": "by reading QBatchNormalization.__init__ / get_config"}
TRIAGE[("C13", "R2", "qkeras/qconv2d_batchnorm.py::QConv2DBatchnorm",
        "option-not-serialised:data_format")] = {
    "status": "fixed", "commit": "7ebfc98",
    "what_fails": "QConv2DBatchnorm.__init__ accepts data_format but does "
                  "not forward it to QConv2D.__init__, so the layer always "
                  "uses the default and get_config reports the default",
    "replayed": "by reading the super().__init__(...) call of "
                "QConv2DBatchnorm (data_format is not among the keywords)"}
for unit, opt in (
    ("qkeras/qdepthwise_conv2d_transpose.py::QDepthwiseConv2DTranspose",
     "depthwise_activation"),
    ("qkeras/qseparable_conv2d_transpose.py::QSeparableConv2DTranspose",
     "depthwise_activation"),
    ("qkeras/qseparable_conv2d_transpose.py::QSeparableConv2DTranspose",
     "pointwise_activation")):
  TRIAGE[("C13", "R2", unit, "option-not-serialised:" + opt)] = {
      "what_fails": "get_config() of the layer has no %r key although the "
                    "constructor turns the option into an activation "
                    "quantizer that call() applies: a reloaded layer runs "
                    "without it" % opt,
      "replayed": "by reading the config.update({...}) literal of the "
                  "class's get_config"}

# ---------------------------------------------------------------------- C14
_EX = "qkeras/utils.py::model_save_quantized_weights"
TRIAGE[("C14", "R1", _EX, "signs-list-misaligned")] = {
    "status": "fixed", "commit": "ba9c5ad",
    "what_fails": "the auto_po2 branch of the per-weight loop appended to "
                  "`scales` but not to `signs`, so for a layer mixing a "
                  "power-of-two weight with an auto_po2 weight signs[i] no "
                  "longer described weight i",
    "replayed": "by reading the three branches (the export cannot be run "
                "under the pinned Keras 3: find_bn_fusing_layer_pair needs a "
                "model clone); the interpreter shows 3 sign entries for 4 "
                "weights before the fix"}
TRIAGE[("C14", "R5", _EX, "auto_po2:scale*integer!=weight")] = {
    "what_fails": "for quantized_bits(alpha='auto_po2') the export returns "
                  "hw_weight = weight*m/m_i and scale = quantizer.scale*m_i/m,"
                  " whose product is quantizer.scale * weight, not the "
                  "stored weight (and hw_weight is scale * integer code, not "
                  "the integer code)",
    "replayed": "normal forms computed by the interpreter: scale*hw_weight = "
                "qscale*Q(w); the un-runnable upstream test utils_test.py::"
                "test_clone_model_and_freeze_auto_po2_scale pins this "
                "convention (weights [0.5, 6, ...], scales [0.25, ...] for a "
                "stored weight 0.25), so it is recorded, not repaired"}
TRIAGE[("C14", "R3", "qkeras/qnormalization.py::QBatchNormalization",
        "quantizers-misaligned-with-weights")] = {
    "what_fails": "QBatchNormalization.get_quantizers() is [gamma, beta, "
                  "mean, variance, inverse] while get_weights() omits gamma "
                  "(scale=False) or beta (center=False) at the front: the "
                  "export zips them by position and applies the gamma "
                  "quantizer to beta / moving_mean",
    "replayed": "by reading QBatchNormalization.__init__ (quantizers list) "
                "and the zip(qs, ws) of the export"}
TRIAGE[("C14", "R3", "qkeras/qrecurrent.py::QBidirectional",
        "quantizers-misaligned-with-weights")] = {
    "what_fails": "QBidirectional.get_quantizers() returns forward[kernel, "
                  "recurrent, bias, state] + backward[...] (8 entries) and "
                  "the export does not strip the state quantizers for this "
                  "class, while get_weights() has 6 entries: the forward "
                  "state quantizer is applied to the backward kernel, etc.",
    "replayed": "by reading QBidirectional.get_quantizers and the class "
                "list [QSimpleRNN, QLSTM, QGRU] of the [:-1] slicing"}

# ---------------------------------------------------------------------- C11
TRIAGE[("C11", "R1", "qkeras/qrecurrent.py::QGRUCell.call",
        "weight-unused:recurrent_kernel")] = {
    "status": "fixed", "commit": "aa3ef0f",
    "what_fails": "with recurrent_quantizer=None QGRUCell.call bound the "
                  "un-quantized recurrent matrix to self.kernel, so "
                  "recurrent_kernel never reached the output",
    "replayed": "by reading the else-branch (quantized_recurrent = "
                "self.kernel); the cell cannot be constructed under the "
                "pinned Keras 3"}
TRIAGE[("C11", "R4", "qkeras/qconvolutional.py::QConv2DTranspose.__init__",
        "dead-option:output_padding")] = {
    "status": "fixed", "commit": "7989c70",
    "what_fails": "QConv2DTranspose.__init__ passed output_padding=None to "
                  "the parent constructor instead of its own parameter",
    "replayed": "by reading the super().__init__ call"}

# ---------------------------------------------------------------------- C15
TRIAGE[("C15", "R2", "qkeras/qconv2d_batchnorm.py::QConv2DBatchnorm.__init__",
        "dead-option:data_format")] = {
    "status": "fixed", "commit": "7ebfc98",
    "what_fails": "QConv2DBatchnorm.__init__ accepted data_format but never "
                  "read it (not forwarded to QConv2D.__init__)",
    "replayed": "by reading the super().__init__ keyword list"}

# ---------------------------------------------------------------------- C18
TRIAGE[("C18", "R2", "qkeras/estimate.py::analyze_accumulator",
        "channel-loop-over-wrong-axis")] = {
    "status": "fixed", "commit": "b92cb7d",
    "what_fails": "the per-channel loop of analyze_accumulator ranged over "
                  "k.shape[1] while indexing k[..., i]: for a (3,3,4,8) "
                  "convolution kernel only 3 of the 8 output channels were "
                  "analysed",
    "replayed": "by reading the loop (unfold_model cannot run under the "
                "pinned Keras 3)"}
TRIAGE[("C18", "R3",
        "qkeras/qtools/quantized_operators/quantizer_impl.py::get_exp",
        "min-exponent-too-large")] = {
    "status": "fixed", "commit": "fa29744",
    "what_fails": "for a po2 quantizer with 0 < max_value <= 1 qkeras drops "
                  "the exponent's sign bit and emits exponents down to "
                  "-2**non_sign_bits, qtools get_exp reported "
                  "-2**(non_sign_bits-1): quantized_po2(4, max_value=1) "
                  "emits 2**-8, qtools reported min exponent -4 and the "
                  "shifter output for a quantized_bits(4,0,1) input had 7 "
                  "fractional bits where 2**-8 * 2**-3 needs 11",
    "replayed": "quantized_po2(4, max_value=1)(2**-8) == 2**-8 while "
                "PowerOfTwo.get_min_max_exp() == (4, 0) on the real code "
                "before the fix; (8, 0) after"}
TRIAGE[("C13", "R5", "qkeras/qnormalization.py::QBatchNormalization",
        "quantizer-changed-by-config-round-trip:activation")] = {
    "what_fails": "QBatchNormalization stores the `activation` option "
                  "(self.activation) but get_config() has no entry for it: "
                  "the layer rebuilt from its own config has activation "
                  "None (same defect as R2 option-not-serialised:activation; "
                  "call() never applies the option)",
    "replayed": "by reading QBatchNormalization.__init__ / get_config"}
TRIAGE[("C16", "R7",
        "qkeras/qtools/quantized_operators/multiplier_impl.py::AndGate",
        "sibling-operand-class-treated-differently")] = {
    "status": "fixed", "commit": "d5502ff",
    "what_fails": "AndGate recognised a 0/1 weight only by name == 'binary': "
                  "a Bernoulli weight (documented 'same as binary(0, 1)') "
                  "times a fixed-point input got the weight's int_bits (1) "
                  "instead of the input's",
    "replayed": "MultiplierFactory().make_multiplier(Bernoulli(), "
                "QuantizedBits bits=8 int_bits=4).output.int_bits == 1 on "
                "the real code before the fix, 4 with Binary(use_01=True)"}
TRIAGE[("C01", "R4", "qkeras/quantizers.py::quantized_bits.range",
        "range!=reachable-set")] = {
    "what_fails": "for the signed 1-bit format quantized_bits(1, i, 0) the "
                  "quantizer is the documented two-valued special case and "
                  "emits {-1, +1} (min()/max() say so too), but range() "
                  "still enumerates the two's-complement grid {0, -2**i}",
    "replayed": "quantized_bits(1,0,0).range() == [0., -1.] while the "
                "outputs on linspace(-3,3) are {-1.0, 1.0} (real code)"}
_QFU = "qkeras/qtools/quantized_operators/quantizer_factory.py::QuantizerFactory"
for _c in ("Bernoulli", "QuantizedTanh", "QuantizedUlaw", "StochasticBinary"):
  TRIAGE[("C16", "R9", _QFU, "factory-not-closed:" + _c)] = {
      "status": "fixed", "commit": "02919f6",
      "what_fails": "QuantizerFactory.quantizer_lookup mapped the qtools "
                    "class %s to StochasticTernary: an operand type handed "
                    "on through the factory (update_output_quantizer_in_"
                    "graph does this for propagated edge types) became a "
                    "2-bit ternary type" % _c,
      "replayed": "f.make_quantizer(f.make_quantizer(quantized_tanh(6))) is "
                  "a StochasticTernary (mode 2, bits 2) on the real code "
                  "before the fix; same for quantized_ulaw, bernoulli, "
                  "stochastic_binary"}
TRIAGE[("C16", "R9", "qkeras/qtools/quantized_operators/quantizer_impl.py"
        "::convert_qkeras_quantizer",
        "value-not-representable-in-converted-type:quantized_tanh")] = {
    "status": "fixed", "commit": "9708184",
    "what_fails": "QuantizedTanh.convert_qkeras_quantizer never set "
                  "int_bits (IQuantizer default -1): quantized_tanh(6), "
                  "values in [-1, 1), was reported as bits=6 int_bits=-1, a "
                  "type covering only [-1/2, 1/2)",
    "replayed": "QuantizerFactory().make_quantizer(quantized_tanh(6)) has "
                "(mode, bits, int_bits, is_signed) == (0, 6, -1, 1) on the "
                "real code before the fix"}
TRIAGE[("C18", "R7", "qkeras/estimate.py::analyze_accumulator",
        "estimator-below-reachable-output")] = {
    "status": "fixed", "commit": "e2b9a96",
    "what_fails": "analyze_accumulator folded the bias into the sums of "
                  "positive / negative weights, so the bias was multiplied "
                  "by the input extremes: for ranges with |x| < 1 or a "
                  "one-sided range the returned size was below log2 of a "
                  "reachable output",
    "replayed": "QDense kernel [[-2,0],[-2,0]], bias [0.5,-3], range (-2, 0) "
                "on the real code before the fix: analyze_accumulator "
                "returns 3, the layer outputs 8.5 for input (-2,-2) "
                "(log2 = 3.09)"}
TRIAGE[("C08", "R5", Q + "quantized_bits.__call__",
        "stochastic-option-without-random-draw")] = {
    "what_fails": "quantized_bits with bits=1, keep_negative=True takes the "
                  "sign-function branch, which never looks at "
                  "use_stochastic_rounding: in training every input between "
                  "the two codes is rounded to the nearer one (expectation "
                  "sign(x), not x); quantized_linear honours the option in "
                  "the same format",
    "replayed": "K.learning_phase stubbed to True, quantized_bits(1,0,1,"
                "alpha=1.0,use_stochastic_rounding=True)(2000 x 0.3) -> all "
                "1.0 (mean 1.0); the 2-bit format gives {0, 0.5}, mean 0.30"}
for _u in ("quantized_po2", "quantized_relu_po2"):
  TRIAGE[("C08", "R5", Q + _u + ".__call__",
          "stochastic-option-without-random-draw")] = {
      "what_fails": "%s(use_stochastic_rounding=True, log2_rounding="
                    "'floor'): power_of_two_clip tests the floor mode first, "
                    "so the stochastic option is ignored and every input is "
                    "rounded down to a power of two in training (expectation "
                    "below the input); recorded, not repaired: which of the "
                    "two explicitly set options should win is not "
                    "documented" % _u,
      "replayed": "K.learning_phase stubbed to True, quantized_po2(4,"
                  "use_stochastic_rounding=True,log2_rounding='floor')"
                  "(2000 x 0.3) -> all 0.25; with log2_rounding='rnd' "
                  "{0.25, 0.5}, mean 0.30 (same code path in "
                  "quantized_relu_po2)"}
for _c in ("DepthwiseConv2D", "QDepthwiseConv2D"):
  TRIAGE[("C19", "R1", "qkeras/qtools/qtools_util.py::get_operation_count",
          "count-on-geometry:" + _c)] = {
      "status": "fixed", "commit": "61de6e5",
      "what_fails": "the depthwise operation count (qtools "
                    "get_operation_count and estimate.extract_model_"
                    "operations) multiplied by the input channels instead "
                    "of the output channels: with depth_multiplier > 1 the "
                    "count was too small by that factor",
      "replayed": "real code before the fix: DepthwiseConv2D((3,2), "
                  "depth_multiplier=2, padding='same') on 9x8x2 (output "
                  "9x8x4): get_operation_count -> 864, the layer performs "
                  "1728 multiply-accumulates"}
for _c in ("Dense", "QDense"):
  TRIAGE[("C19", "R1", "qkeras/qtools/qtools_util.py::get_operation_count",
          "count-depends-on-batch:" + _c)] = {
      "status": "fixed", "commit": "692cee4",
      "what_fails": "the dense arm of get_operation_count took the largest "
                    "of ALL known dimensions, including the batch size of a "
                    "model built with a fixed batch: the count was no "
                    "longer per input sample (or the single-large-dimension "
                    "assertion fired)",
      "replayed": "real code before the fix, layer stand-in with "
                  "compute_output_shape: Dense(1) on (4, 1) -> 16 (one "
                  "multiply per sample); Dense(3) on (4, 8) -> "
                  "AssertionError 'multiple >1 size dims'; after the fix 1 "
                  "and 24 (found by the batch-independence clause added "
                  "to R1 in round 13)"}
for _u, _c in (("quantized_po2", "max()-does-not-enclose"),
               ("quantized_po2", "min()-does-not-enclose"),
               ("quantized_relu_po2", "max()-does-not-enclose")):
  TRIAGE[("C03", "R5", Q + _u + ".min/max", _c)] = {
      "what_fails": "with a max_value that is not a power of two the "
                    "exponent cap is round(log2(max_value)), so the "
                    "quantizer emits 2**ceil(log2(max_value)) (4 for "
                    "max_value=3) while min()/max() report +-max_value; "
                    "recorded, not repaired: flooring the cap changes the "
                    "values every such quantizer produces in training",
      "replayed": "real code: quantized_po2(4,max_value=3)([3.5,-3.5,2.9]) "
                  "-> [4,-4,4], max() -> 3, min() -> -3; "
                  "quantized_relu_po2(4,max_value=3)([3.5]) -> 4, max() -> 3"}
TRIAGE[("C14", "R11", Q + "binary.__call__",
        "quantizer-changes-its-own-codes")] = {
    "what_fails": "binary(use_01=True) maps x >= 0 to the code 1 and x < 0 "
                  "to the code 0, so its own code 0 is re-quantized to 1: "
                  "the quantizer is not idempotent.  After an export the "
                  "layer holds 0/1 weights and quantizes them again in "
                  "call() (every stored 0 becomes 1), so predictions change "
                  "and a second export stores all ones; recorded, not "
                  "repaired: moving the threshold changes training",
    "replayed": "real code: q = binary(use_01=True, alpha=1); "
                "q([-0.7, 0.3, 0, 1.5]) -> [0, 1, 1, 1]; q of that -> "
                "[1, 1, 1, 1]"}
TRIAGE[("C14", "R11", Q + "ternary.__call__",
        "quantizer-changes-its-own-codes")] = {
    "what_fails": "ternary with a constant alpha below its threshold (the "
                  "threshold is an absolute input level, default 0.33, the "
                  "alpha scales the emitted codes): the codes +-alpha lie "
                  "inside the dead band and are re-quantized to 0.  A layer "
                  "that stores exported ternary weights quantizes them again "
                  "in call(), so the export changes the predictions and a "
                  "second export stores zeros; recorded, not repaired: "
                  "tying the threshold to alpha changes training",
    "replayed": "real code: q = ternary(alpha=0.25); q([-1, -0.3, 0.1, 0.4, "
                "2]) -> [-0.25, 0, 0, 0.25, 0.25]; q of that -> [0, 0, 0, 0, "
                "0] (pointed out by the author of C14-seed14 as pre-existing)"}
TRIAGE[("C09", "R6", Q + "quantized_linear.get_config",
        "config-describes-construction-time")] = {
    "status": "fixed", "commit": "8934ec1",
    "what_fails": "quantized_linear documents alpha as a modifiable "
                  "attribute, but a constant (or None) alpha assigned after "
                  "construction was ignored by __call__ (the scale was "
                  "computed once in __init__) while get_config() / str() "
                  "reported the new value: the quantizer rebuilt from the "
                  "config computed another function than the live object",
    "replayed": "real code before the fix: q = quantized_linear(4,1,"
                "symmetric=0); q.alpha = 2.0; q([0.3,1.1,-0.7,2.6]) -> "
                "[0.25,1,-0.75,1.75], quantized_linear(4,1,symmetric=0,"
                "alpha=2.0) -> [0.5,1,-0.5,2.5]"}
TRIAGE[("C01", "R2", Q + "quantized_bits.min/max", "does-not-enclose")] = {
    "what_fails": "legacy quantized_bits with a constant alpha > 1 "
                  "multiplies its output by alpha, but min() / max() ignore "
                  "alpha (they return +-max(1, 2**integer)): the outputs "
                  "leave the reported range (same root as the C02 finding "
                  "on constant alpha; recorded, not repaired)",
    "replayed": "real code: quantized_bits(1,0,alpha=2.0)([-0.3,0.7]) -> "
                "[-2,2] with min()=-1, max()=1; quantized_bits(4,0,alpha=2.0)"
                "([-3,3]) -> [-2,1.75] with min()=-1, max()=1"}
_ADD = "qkeras/qtools/quantized_operators/multiplier_impl.py::Adder"
for _k in (("max", "both-capped", "mixed-sign"), ("max", "no-cap", "mixed-sign"),
           ("max", "one-sided-cap", "mixed-sign"),
           ("min", "both-capped", "mixed-sign"), ("min", "both-capped", "signed"),
           ("min", "both-capped", "unsigned"), ("min", "no-cap", "mixed-sign"),
           ("min", "one-sided-cap", "mixed-sign"),
           ("min", "one-sided-cap", "signed"),
           ("min", "one-sided-cap", "unsigned")):
  TRIAGE[("C16", "R10", _ADD, "product-%s-exponent-too-%s:%s:%s" % (
      _k[0], "small" if _k[0] == "max" else "large", _k[1], _k[2]))] = {
      "what_fails": "the po2 x po2 product type is max(bits)+1 with the "
                    "sign of either operand; its exponent range "
                    "(get_min_max_exp) does not contain every sum of two "
                    "operand exponents when one operand is unsigned "
                    "(one more exponent bit) or has max_value <= 1 (no "
                    "exponent sign bit): e.g. relu_po2(3) exponents reach 3, "
                    "po2(3) reach 1, the product type reports max exponent "
                    "3; relu_po2(2,max_value=1) reaches 2**-4, "
                    "relu_po2(2,max_value=2) 2**-2, the product type stops "
                    "at 2**-4",
      "replayed": "enumerated with the real classes (PowerOfTwo / "
                  "ReluPowerOfTwo, bits 2..4, max_val_po2 in {-1,1,2,8}, "
                  "MultiplierFactory().make_multiplier(w, x).output."
                  "get_min_max_exp()): the same pairs violate the bound "
                  "(318 of 576 ordered pairs)"}
