"""IEEE-style evaluation of an IR term on a *constant* tensor.

The partial evaluator's terms are interpreted once more, this time with the
input tensor fixed to a constant value in every element (e.g. the all-zero
tensor, which is what every channel of a tensor with an all-zero channel
looks like to per-channel reductions) and with floating-point special values
(NaN, +-inf) propagated the way TensorFlow propagates them:

  0/0 = NaN, c/0 = +-inf, 0*inf = NaN, inf-inf = NaN, log(0) = -inf,
  comparisons with NaN are False (!= is True), where(c, a, b) selects,
  minimum/maximum/clip/relu/sign/round/floor/ceil propagate NaN,
  reductions of a constant tensor: max = min = mean = the value,
  sum = count * value, std = var = 0 (NaN for NaN).

This decides definedness clauses ("finite inputs, including all-zero
channels, give finite outputs") that the real-arithmetic normal forms cannot
see; nothing of the repository is executed.  Anything outside the table
raises Inconclusive (never a finding).
"""
import math
from fractions import Fraction

NAN = float("nan")
INF = float("inf")


class Inconclusive(Exception):
  pass


def _isnan(v):
  return isinstance(v, float) and v != v


def _f(v):
  if isinstance(v, bool):
    return 1.0 if v else 0.0
  if isinstance(v, (int, Fraction)):
    try:
      return float(v)
    except OverflowError:
      return INF if v > 0 else -INF
  if isinstance(v, float):
    return v
  if hasattr(v, "value"):
    return _f(v.value)
  raise Inconclusive("constant %r" % (v,))


def _div(a, b):
  if _isnan(a) or _isnan(b):
    return NAN
  if b == 0:
    if a == 0:
      return NAN
    return INF if a > 0 else -INF
  if abs(a) == INF and abs(b) == INF:
    return NAN
  try:
    return a / b
  except OverflowError:
    return INF if (a > 0) == (b > 0) else -INF


def _mul(a, b):
  if _isnan(a) or _isnan(b):
    return NAN
  if (a == 0 and abs(b) == INF) or (b == 0 and abs(a) == INF):
    return NAN
  try:
    return a * b
  except OverflowError:
    return INF if (a > 0) == (b > 0) else -INF


def _add(a, b):
  if _isnan(a) or _isnan(b):
    return NAN
  if abs(a) == INF and abs(b) == INF and a != b:
    return NAN
  return a + b


def _unary(name, a):
  if name in ("abs",):
    return abs(a)
  if _isnan(a):
    return NAN
  if name in ("round", "floor", "ceil"):
    if abs(a) == INF:
      return a
    if name == "round":
      return float(round(a))
    return float(math.floor(a) if name == "floor" else math.ceil(a))
  if name == "sign":
    return 0.0 if a == 0 else (1.0 if a > 0 else -1.0)
  if name == "sqrt":
    return NAN if a < 0 else (INF if a == INF else math.sqrt(a))
  if name == "rsqrt":
    return NAN if a < 0 else (INF if a == 0 else (0.0 if a == INF else
                                                  1.0 / math.sqrt(a)))
  if name == "square":
    return _mul(a, a)
  if name == "tanh":
    return math.tanh(a)
  if name == "sigmoid":
    if a == -INF:
      return 0.0
    if a == INF:
      return 1.0
    try:
      return 1.0 / (1.0 + math.exp(-a))
    except OverflowError:
      return 0.0
  if name == "exp":
    if a == -INF:
      return 0.0
    try:
      return math.exp(a)
    except OverflowError:
      return INF
  if name in ("log", "log2", "log10"):
    if a < 0:
      return NAN
    if a == 0:
      return -INF
    if a == INF:
      return INF
    return {"log": math.log, "log2": math.log2, "log10": math.log10}[name](a)
  if name == "pow2":
    if a == -INF:
      return 0.0
    if a == INF:
      return INF
    try:
      return 2.0 ** a
    except OverflowError:
      return INF
  if name == "neg":
    return -a
  if name == "not":
    return 0.0 if a else 1.0
  raise Inconclusive("primitive %s" % name)


def _minmax(which, a, b):
  if _isnan(a) or _isnan(b):
    return NAN
  return max(a, b) if which == "maximum" else min(a, b)


def _cmp(op, a, b):
  if _isnan(a) or _isnan(b):
    return op == "ne"
  return {"lt": a < b, "le": a <= b, "gt": a > b, "ge": a >= b,
          "eq": a == b, "ne": a != b}[op]


class ConstEval(object):
  """Evaluate a term with x == xval in every element."""

  def __init__(self, xval, phase="infer", syms=None, count=3.0):
    self.xval = float(xval)
    self.phase = phase
    self.syms = syms or {}
    self.count = count
    self.memo = {}

  def __call__(self, t):
    r = self.memo.get(id(t))
    if r is None:
      r = (t, self._ev(t))
      self.memo[id(t)] = r
    return r[1]

  def _ev(self, t):
    k = t[0]
    if k == "c":
      if t[1] is None:
        return None
      return _f(t[1])
    if k == "x":
      return self.xval
    if k == "sym":
      if t[1] in self.syms:
        return float(self.syms[t[1]])
      if t[1] == "ln2":
        return math.log(2.0)
      if t[1].startswith("ln(") and t[1].endswith(")"):
        try:
          return math.log(float(t[1][3:-1]))
        except ValueError:
          pass
      raise Inconclusive("free symbol %s" % t[1])
    if k == "add":
      return _add(self(t[1]), self(t[2]))
    if k == "mul":
      return _mul(self(t[1]), self(t[2]))
    if k == "div":
      return _div(self(t[1]), self(t[2]))
    if k == "neg":
      return -self(t[1])
    if k == "sg":
      return self(t[1])
    if k == "where":
      c = self(t[1])
      if _isnan(c):
        raise Inconclusive("NaN condition")
      return self(t[2]) if c else self(t[3])
    if k == "cmp":
      return 1.0 if _cmp(t[1], self(t[2]), self(t[3])) else 0.0
    if k == "bool":
      vals = [self(a) for a in t[2:]]
      if t[1] == "and":
        return 1.0 if all(vals) else 0.0
      if t[1] == "or":
        return 1.0 if any(vals) else 0.0
      if t[1] == "not":
        return 0.0 if vals[0] else 1.0
      raise Inconclusive("boolean %s" % t[1])
    if k == "phase":
      return self(t[1] if self.phase == "train" else t[2])
    if k == "rand":
      raise Inconclusive("random draw")
    if k == "join":
      vals = [self(a) for a in t[1:]]
      for v in vals:
        if _isnan(v) or abs(v) == INF:
          return v
      if all(v == vals[0] for v in vals):
        return vals[0]
      raise Inconclusive("join of different values")
    if k == "app":
      return self._app(t[1], t[2], t[3])
    raise Inconclusive("IR node %r" % (k,))

  def _app(self, name, attrs, args):
    if name in ("reduce_max", "reduce_min", "reduce_mean"):
      return self(args[0])
    if name == "reduce_sum":
      return _mul(self.count, self(args[0]))
    if name in ("reduce_std", "reduce_var"):
      v = self(args[0])
      return NAN if _isnan(v) or abs(v) == INF else 0.0
    if name in ("reduce_any", "reduce_all"):
      return 1.0 if self(args[0]) else 0.0
    if name in ("maximum", "minimum"):
      return _minmax(name, self(args[0]), self(args[1]))
    if name == "clip":
      v = self(args[0])
      lo = self(args[1]) if len(args) > 1 else None
      hi = self(args[2]) if len(args) > 2 else None
      if lo is not None:
        v = _minmax("maximum", v, lo)
      if hi is not None:
        v = _minmax("minimum", v, hi)
      return v
    if name == "relu":
      v = self(args[0])
      if _isnan(v):
        return NAN
      alpha = _f(attrs[0]) if attrs else 0.0
      return v if v >= 0 else _mul(alpha, v)
    if name == "pow":
      a, b = self(args[0]), self(args[1])
      if _isnan(a) or _isnan(b):
        return NAN
      try:
        return float(a) ** float(b)
      except OverflowError:
        return INF
      except ZeroDivisionError:
        return INF
      except ValueError:
        return NAN
    if name == "mod":
      a, b = self(args[0]), self(args[1])
      if _isnan(a) or _isnan(b) or b == 0 or abs(a) == INF:
        return NAN
      return math.fmod(a, b) if abs(b) != INF else a
    if name in ("reshape", "variable", "identity", "cast", "repeat",
                "stop_gradient", "tile", "expand_dims"):
      return self(args[0])
    if len(args) == 1:
      return _unary(name, self(args[0]))
    raise Inconclusive("primitive %s/%d" % (name, len(args)))


def finite(v):
  return v is not None and not _isnan(v) and abs(v) != INF
