"""Driver: build one quantizer configuration with the partial evaluator and
return its IR."""
from fractions import Fraction

from .loader import AnalysisError
from . import pe as P
from .pe import PE, Tensor, Obj, ConfigRejected, PyRaise, show_term
from .qir import Fwd

QMOD = "qkeras.quantizers"


class Built(object):
  """Result of specialising  cls(**kwargs)(x)."""

  def __init__(self, pe, obj, out, cls_name, kwargs):
    self.pe = pe
    self.obj = obj
    self.out = out           # Tensor
    self.cls_name = cls_name
    self.kwargs = kwargs

  @property
  def term(self):
    return self.out.term

  def attr_term(self, name):
    v = self.obj.attrs.get(name)
    if isinstance(v, Tensor):
      return v.term
    return v

  def fwd(self, phase="infer", syms=None):
    return Fwd(phase, syms)(self.term)


def sigmoid_mode(mode):
  """setup hook: select the library's internal sigmoid (module state set by
  set_internal_sigmoid) before the quantizer is built."""
  def setup(pe, m):
    if "set_internal_sigmoid" not in m.functions:
      raise AnalysisError("anchor-missing function %s.set_internal_sigmoid"
                          % m.name)
    pe.call(pe.lookup_global("set_internal_sigmoid", m), [mode], {})
  return setup


def construct(repo, cls_name, kwargs, x_shape=(4, 6),
              image_data_format="channels_last", module=QMOD, setup=None):
  pe = PE(repo, image_data_format=image_data_format, x_shape=x_shape)
  m = repo.module(module)
  if cls_name not in m.classes:
    raise AnalysisError("anchor-missing class %s.%s" % (module, cls_name))
  if setup is not None:
    setup(pe, m)
  cls = pe.lookup_global(cls_name, m)
  try:
    obj = pe.call(cls, [], dict(kwargs))
  except PyRaise as e:
    raise ConfigRejected("constructor: %s" % e)
  return pe, obj


def build(repo, cls_name, kwargs, x_shape=(4, 6),
          image_data_format="channels_last", module=QMOD, x=None,
          setup=None, after_construction=None):
  pe, obj = construct(repo, cls_name, kwargs, x_shape, image_data_format,
                      module, setup)
  if after_construction is not None:
    # e.g. module state changed between construction and the call
    after_construction(pe, repo.module(module))
  try:
    out = pe.call(obj, [x if x is not None else pe.x_input()], {})
  except PyRaise as e:
    raise ConfigRejected("call: %s" % e)
  if not isinstance(out, Tensor):
    raise AnalysisError("unsupported-construct %s.__call__ returned %r" %
                        (cls_name, out))
  return Built(pe, obj, out, cls_name, kwargs)


def call_method(built_or_pe_obj, name, args=()):
  pe, obj = built_or_pe_obj
  f = pe.getattr(obj, name)
  try:
    return pe.call(f, list(args), {})
  except PyRaise as e:
    raise ConfigRejected("%s(): %s" % (name, e))
