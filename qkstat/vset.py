"""Value-set abstract domain (DESIGN 2.4): finite sets, grid x interval
(congruences over dyadic rationals reduced with intervals) and signed
power-of-two sets, all in exact rational arithmetic.  Every operation
over-approximates (sound for containment claims)."""
from fractions import Fraction
import math

from .nf import log2_exact, log2_bounds

FIN_LIMIT = 96
INF = None   # infinite bound marker


def fgcd(a, b):
  a, b = abs(Fraction(a)), abs(Fraction(b))
  if a == 0:
    return b
  if b == 0:
    return a
  num = math.gcd(a.numerator * b.denominator, b.numerator * a.denominator)
  return Fraction(num, a.denominator * b.denominator)


def _min(a, b):
  if a is None or b is None:
    return None
  return min(a, b)


def _max(a, b):
  if a is None or b is None:
    return None
  return max(a, b)


class VS(object):
  """kind 'fin': vals (frozenset of Fractions)
     kind 'grid': {o + g*k} intersected with [lo, hi]; g == 0 means any real
     kind 'po2': {s * 2**e : s in signs, e in exps}  (exps: VS of integers)
  """
  __slots__ = ("kind", "vals", "g", "o", "lo", "hi", "signs", "exps")

  def __init__(self, kind, vals=None, g=None, o=None, lo=None, hi=None,
               signs=None, exps=None):
    self.kind = kind
    self.vals = vals
    self.g = g
    self.o = o
    self.lo = lo
    self.hi = hi
    self.signs = signs
    self.exps = exps

  # -- constructors ------------------------------------------------------
  @staticmethod
  def const(c):
    return VS("fin", vals=frozenset([Fraction(c)]))

  @staticmethod
  def fin(vals):
    vals = frozenset(Fraction(v) for v in vals)
    if len(vals) > FIN_LIMIT:
      return VS.fin_to_grid(vals)
    return VS("fin", vals=vals)

  @staticmethod
  def fin_to_grid(vals):
    vs = sorted(vals)
    g = Fraction(0)
    for v in vs[1:]:
      g = fgcd(g, v - vs[0])
    return VS.grid(g, vs[0], vs[0], vs[-1])

  @staticmethod
  def grid(g, o, lo, hi):
    g = Fraction(g)
    if g < 0:
      g = -g
    o = Fraction(o)
    if g > 0:
      o = o - g * math.floor(o / g)
      if lo is not None:
        lo = o + g * math.ceil((Fraction(lo) - o) / g)
      if hi is not None:
        hi = o + g * math.floor((Fraction(hi) - o) / g)
      if lo is not None and hi is not None:
        if lo > hi:
          return VS("fin", vals=frozenset())
        n = (hi - lo) / g
        if n <= 24:
          return VS("fin", vals=frozenset(lo + g * i
                                          for i in range(int(n) + 1)))
    else:
      o = Fraction(0)
      if lo is not None and hi is not None:
        lo, hi = Fraction(lo), Fraction(hi)
        if lo > hi:
          return VS("fin", vals=frozenset())
        if lo == hi:
          return VS.const(lo)
    return VS("grid", g=g, o=o, lo=None if lo is None else Fraction(lo),
              hi=None if hi is None else Fraction(hi))

  @staticmethod
  def real(lo=None, hi=None):
    return VS.grid(0, 0, lo, hi)

  @staticmethod
  def po2(signs, exps):
    return VS("po2", signs=frozenset(signs), exps=exps)

  # -- queries -----------------------------------------------------------
  def is_empty(self):
    return self.kind == "fin" and not self.vals

  def is_const(self):
    return self.kind == "fin" and len(self.vals) == 1

  def const_value(self):
    if self.is_const():
      return next(iter(self.vals))
    return None

  def bounds(self):
    if self.kind == "fin":
      if not self.vals:
        return Fraction(0), Fraction(-1)
      return min(self.vals), max(self.vals)
    if self.kind == "grid":
      return self.lo, self.hi
    elo, ehi = self.exps.bounds()
    top = None if ehi is None else _pow2(ehi, up=True)
    bot = Fraction(0) if elo is None else _pow2(elo, up=False)
    lo = -top if -1 in self.signs and top is not None else (
        None if -1 in self.signs else bot)
    hi = top if 1 in self.signs else -bot
    return lo, hi

  def as_grid(self):
    """Over-approximating grid view (g, o, lo, hi)."""
    if self.kind == "grid":
      return self
    if self.kind == "fin":
      if not self.vals:
        return self
      vs = sorted(self.vals)
      g = Fraction(0)
      for v in vs[1:]:
        g = fgcd(g, v - vs[0])
      if g == 0:
        # singleton: behaves as "grid with infinite step"
        return VS("grid", g=None, o=vs[0], lo=vs[0], hi=vs[0])
      o = vs[0] - g * math.floor(vs[0] / g)
      return VS("grid", g=g, o=o, lo=vs[0], hi=vs[-1])
    lo, hi = self.bounds()
    elo, _ = self.exps.bounds()
    if elo is not None:
      g = _pow2(elo, up=False)
      return VS("grid", g=g, o=Fraction(0), lo=lo, hi=hi)
    return VS("grid", g=Fraction(0), o=Fraction(0), lo=lo, hi=hi)

  def contains_value(self, c):
    c = Fraction(c)
    if self.kind == "fin":
      return c in self.vals
    if self.kind == "grid":
      if self.lo is not None and c < self.lo:
        return False
      if self.hi is not None and c > self.hi:
        return False
      if self.g == 0:
        return True
      return ((c - self.o) / self.g).denominator == 1
    s = 1 if c > 0 else -1
    if c == 0 or s not in self.signs:
      return False
    e = log2_exact(abs(c))
    return e is not None and self.exps.contains_value(e)

  def subset_of(self, other):
    """Sound containment test: True only when every element of self is in
    other."""
    if self.is_empty():
      return True
    if self.kind == "fin":
      return all(other.contains_value(v) for v in self.vals)
    if other.kind == "fin":
      if self.kind == "grid" and self.g and self.lo is not None and \
          self.hi is not None and (self.hi - self.lo) / self.g <= 4096:
        n = int((self.hi - self.lo) / self.g)
        return all(self.lo + self.g * i in other.vals for i in range(n + 1))
      return False
    if self.kind == "po2":
      if other.kind == "po2":
        return self.signs <= other.signs and self.exps.subset_of(other.exps)
      a = self.as_grid()
      return a.subset_of(other)
    if other.kind == "po2":
      return False
    # grid in grid
    if other.lo is not None and (self.lo is None or self.lo < other.lo):
      return False
    if other.hi is not None and (self.hi is None or self.hi > other.hi):
      return False
    if other.g == 0:
      return True
    if self.g == 0:
      return False
    if (self.g / other.g).denominator != 1:
      return False
    return ((self.o - other.o) / other.g).denominator == 1

  def __repr__(self):
    def f(c):
      if c is None:
        return "inf"
      return str(c.numerator) if c.denominator == 1 else "%d/%d" % (
          c.numerator, c.denominator)
    if self.kind == "fin":
      return "{" + ", ".join(f(v) for v in sorted(self.vals)) + "}"
    if self.kind == "grid":
      if self.g == 0:
        return "R[%s, %s]" % ("-inf" if self.lo is None else f(self.lo),
                              f(self.hi))
      return "{%s + %s*k}[%s, %s]" % (f(self.o), f(self.g),
                                      "-inf" if self.lo is None
                                      else f(self.lo), f(self.hi))
    return "{s*2^e : s in %s, e in %r}" % (sorted(self.signs), self.exps)


def _pow2(e, up):
  e = Fraction(e)
  if e.denominator == 1:
    return Fraction(2) ** int(e)
  v = 2.0 ** float(e)
  return Fraction(v) * (Fraction(1000001, 1000000) if up
                        else Fraction(999999, 1000000))


EMPTY = VS("fin", vals=frozenset())


# ---------------------------------------------------------------------------
# operations

def join(a, b):
  if a.is_empty():
    return b
  if b.is_empty():
    return a
  if a.kind == "fin" and b.kind == "fin":
    return VS.fin(a.vals | b.vals)
  if a.kind == "po2" and b.kind == "po2":
    return VS.po2(a.signs | b.signs, join(a.exps, b.exps))
  if a.kind == "po2" and b.kind == "fin":
    pb = fin_as_po2(b)
    if pb is not None:
      return join(a, pb)
  if b.kind == "po2" and a.kind == "fin":
    pa = fin_as_po2(a)
    if pa is not None:
      return join(pa, b)
  ga, gb = a.as_grid(), b.as_grid()
  if ga.g is None and gb.g is None:
    return VS.fin([ga.o, gb.o])
  if ga.g is None:
    g = fgcd(gb.g, ga.o - gb.o) if gb.g else Fraction(0)
    o = gb.o
  elif gb.g is None:
    g = fgcd(ga.g, gb.o - ga.o) if ga.g else Fraction(0)
    o = ga.o
  elif ga.g == 0 or gb.g == 0:
    g, o = Fraction(0), Fraction(0)
  else:
    g = fgcd(fgcd(ga.g, gb.g), ga.o - gb.o)
    o = ga.o
  return VS.grid(g, o, _min(ga.lo, gb.lo), _max(ga.hi, gb.hi))


def fin_as_po2(a):
  """A finite set all of whose elements are +-2**e, as a po2 set (signs x
  exponents, which over-approximates only when signs and exponents mix)."""
  signs = set()
  exps = set()
  for v in a.vals:
    if v == 0:
      return None
    e = log2_exact(abs(v))
    if e is None:
      return None
    signs.add(1 if v > 0 else -1)
    exps.add(e)
  if len(signs) > 1:
    # only exact when every exponent occurs with both signs
    for v in list(a.vals):
      if -v not in a.vals:
        return None
  return VS.po2(signs, VS.fin(exps))


def join_all(vs):
  r = EMPTY
  for v in vs:
    r = join(r, v)
  return r


def scale(a, c):
  c = Fraction(c)
  if c == 0:
    return VS.const(0)
  if a.kind == "fin":
    return VS.fin(v * c for v in a.vals)
  if a.kind == "po2":
    e = log2_exact(abs(c))
    if e is not None:
      signs = a.signs if c > 0 else frozenset(-s for s in a.signs)
      return VS.po2(signs, shift(a.exps, e))
    a = a.as_grid()
  lo, hi = a.lo, a.hi
  if c > 0:
    nlo = None if lo is None else lo * c
    nhi = None if hi is None else hi * c
  else:
    nlo = None if hi is None else hi * c
    nhi = None if lo is None else lo * c
  return VS.grid(a.g * abs(c), a.o * c, nlo, nhi)


def shift(a, c):
  c = Fraction(c)
  if a.kind == "fin":
    return VS.fin(v + c for v in a.vals)
  if a.kind == "po2":
    a = a.as_grid()
  return VS.grid(a.g, a.o + c, None if a.lo is None else a.lo + c,
                 None if a.hi is None else a.hi + c)


def add(a, b):
  if a.is_empty() or b.is_empty():
    return EMPTY
  if b.is_const():
    return shift(a, b.const_value())
  if a.is_const():
    return shift(b, a.const_value())
  if a.kind == "fin" and b.kind == "fin" and len(a.vals) * len(b.vals) <= 1024:
    return VS.fin(x + y for x in a.vals for y in b.vals)
  ga, gb = a.as_grid(), b.as_grid()
  if not ga.g or not gb.g:
    g = Fraction(0)
  else:
    g = fgcd(ga.g, gb.g)
  lo = None if ga.lo is None or gb.lo is None else ga.lo + gb.lo
  hi = None if ga.hi is None or gb.hi is None else ga.hi + gb.hi
  return VS.grid(g, ga.o + gb.o, lo, hi)


def _imul(alo, ahi, blo, bhi):
  """Interval product with None = infinite."""
  def sgn_inf(v, neg):
    return v
  cands = []
  unbounded_lo = unbounded_hi = False
  for x, xinf in ((alo, -1), (ahi, 1)):
    for y, yinf in ((blo, -1), (bhi, 1)):
      if x is None and y is None:
        s = xinf * yinf
      elif x is None:
        s = xinf * (1 if y > 0 else -1 if y < 0 else 0)
      elif y is None:
        s = yinf * (1 if x > 0 else -1 if x < 0 else 0)
      else:
        cands.append(x * y)
        continue
      if s > 0:
        unbounded_hi = True
      elif s < 0:
        unbounded_lo = True
      else:
        cands.append(Fraction(0))
  # zero times infinity inside the ranges: if an interval spans unbounded
  # values and the other contains both signs the product is unbounded both
  # ways; the corner analysis above already covers it.
  lo = None if unbounded_lo or not cands else min(cands)
  hi = None if unbounded_hi or not cands else max(cands)
  return lo, hi


def mul(a, b):
  if a.is_empty() or b.is_empty():
    return EMPTY
  if b.is_const():
    return scale(a, b.const_value())
  if a.is_const():
    return scale(b, a.const_value())
  if a.kind == "fin" and b.kind == "fin" and len(a.vals) * len(b.vals) <= 1024:
    return VS.fin(x * y for x in a.vals for y in b.vals)
  if a.kind == "fin" and len(a.vals) <= 4:
    return join_all(scale(b, v) for v in a.vals)
  if b.kind == "fin" and len(b.vals) <= 4:
    return join_all(scale(a, v) for v in b.vals)
  if a.kind == "po2" and b.kind == "po2":
    return VS.po2(frozenset(s * t for s in a.signs for t in b.signs),
                  add(a.exps, b.exps))
  ga, gb = a.as_grid(), b.as_grid()
  lo, hi = _imul(ga.lo, ga.hi, gb.lo, gb.hi)
  if ga.g and gb.g and ga.o == 0 and gb.o == 0:
    return VS.grid(ga.g * gb.g, 0, lo, hi)
  return VS.grid(0, 0, lo, hi)


def recip(a):
  if a.kind == "fin":
    if any(v == 0 for v in a.vals):
      return VS.real()
    return VS.fin(1 / v for v in a.vals)
  if a.kind == "po2":
    return VS.po2(a.signs, scale(a.exps, -1))
  lo, hi = a.lo, a.hi
  if lo is not None and lo > 0:
    return VS.real(Fraction(0) if hi is None else 1 / hi, 1 / lo)
  if hi is not None and hi < 0:
    return VS.real(1 / hi, Fraction(0) if lo is None else 1 / lo)
  # 0 in the closure: 1/0 is an unbounded value of the operand's sign
  if lo is not None and lo >= 0:
    return VS.real(Fraction(0) if (hi is None or hi == 0) else 1 / hi, None)
  if hi is not None and hi <= 0:
    return VS.real(None, Fraction(0) if (lo is None or lo == 0) else 1 / lo)
  return VS.real()


def power(a, e):
  if e == 0:
    return VS.const(1)
  if e < 0:
    return power(recip(a), -e)
  r = a
  for _ in range(e - 1):
    r = mul(r, a)
  if e % 2 == 0:
    lo, hi = r.bounds()
    if lo is None or lo < 0:
      r = restrict(r, Fraction(0), None)
  return r


def restrict(a, lo, hi):
  """a intersected with [lo, hi] (None = unbounded)."""
  if a.kind == "fin":
    return VS.fin(v for v in a.vals if (lo is None or v >= lo) and
                  (hi is None or v <= hi))
  if a.kind == "po2":
    # restrict exponents through the magnitude bound when single-signed
    exps = a.exps
    if a.signs == frozenset([1]):
      elo = None
      ehi = None
      if hi is not None:
        if hi <= 0:
          return EMPTY
        ehi = Fraction(math.floor(log2_bounds(hi)[1]))
        if log2_exact(hi) is None and 2 ** int(ehi) > hi:
          ehi -= 1
      if lo is not None and lo > 0:
        elo = Fraction(math.ceil(log2_bounds(lo)[0]))
      exps = restrict(exps, elo, ehi)
      if exps.is_empty():
        return EMPTY
      return VS.po2(a.signs, exps)
    if a.signs == frozenset([-1]):
      r = restrict(VS.po2(frozenset([1]), a.exps),
                   None if hi is None else -hi, None if lo is None else -lo)
      if r.is_empty():
        return EMPTY
      return VS.po2(a.signs, r.exps)
    pos = restrict(VS.po2(frozenset([1]), a.exps), lo, hi)
    neg = restrict(VS.po2(frozenset([-1]), a.exps), lo, hi)
    return join(pos, neg)
  nlo = a.lo if lo is None else (lo if a.lo is None else max(a.lo, lo))
  nhi = a.hi if hi is None else (hi if a.hi is None else min(a.hi, hi))
  if nlo is not None and nhi is not None and nlo > nhi:
    return EMPTY
  return VS.grid(a.g, a.o, nlo, nhi)


def clip(a, lo, hi):
  """clip(a, lo, hi) with constant bounds (None = unbounded)."""
  inside = restrict(a, lo, hi)
  alo, ahi = a.bounds()
  out = inside
  if lo is not None and (alo is None or alo < lo):
    out = join(out, VS.const(lo))
  if hi is not None and (ahi is None or ahi > hi):
    out = join(out, VS.const(hi))
  return out


def neg(a):
  return scale(a, -1)


def vabs(a):
  if a.kind == "fin":
    return VS.fin(abs(v) for v in a.vals)
  if a.kind == "po2":
    return VS.po2(frozenset([1]), a.exps)
  return join(restrict(a, Fraction(0), None), neg(restrict(a, None,
                                                           Fraction(0))))


def sign(a):
  lo, hi = a.bounds()
  vals = set()
  if a.kind == "fin":
    return VS.fin((v > 0) - (v < 0) for v in a.vals)
  if a.kind == "po2":
    return VS.fin(a.signs)
  if lo is None or lo < 0:
    vals.add(-1)
  if hi is None or hi > 0:
    vals.add(1)
  if a.contains_value(0):
    vals.add(0)
  return VS.fin(vals)


def relu(a, slope):
  slope = Fraction(slope)
  pos = restrict(a, Fraction(0), None)
  negp = restrict(a, None, Fraction(0))
  return join(pos, scale(negp, slope) if not negp.is_empty() else EMPTY)


def _round_half_even(v):
  fl = math.floor(v)
  d = v - fl
  if d > Fraction(1, 2) or (d == Fraction(1, 2) and fl % 2 == 1):
    return Fraction(fl + 1)
  return Fraction(fl)


def rounding(a, mode):
  f = {"round": _round_half_even, "floor": lambda v: Fraction(math.floor(v)),
       "ceil": lambda v: Fraction(math.ceil(v))}[mode]
  if a.kind == "fin":
    return VS.fin(f(v) for v in a.vals)
  if a.kind == "po2":
    a = a.as_grid()
  if a.g and a.g.denominator == 1 and a.o.denominator == 1:
    return a   # already integers
  lo, hi = a.lo, a.hi
  if mode == "round":
    nlo = None if lo is None else Fraction(math.ceil(lo - Fraction(1, 2)))
    nhi = None if hi is None else Fraction(math.floor(hi + Fraction(1, 2)))
  elif mode == "floor":
    nlo = None if lo is None else Fraction(math.floor(lo))
    nhi = None if hi is None else Fraction(math.floor(hi))
  else:
    nlo = None if lo is None else Fraction(math.ceil(lo))
    nhi = None if hi is None else Fraction(math.ceil(hi))
  return VS.grid(1, 0, nlo, nhi)


def is_integer_set(a):
  if a.kind == "fin":
    return all(v.denominator == 1 for v in a.vals)
  if a.kind == "grid":
    return bool(a.g) and a.g.denominator == 1 and a.o.denominator == 1
  return False


def pow2(a):
  if is_integer_set(a) or (a.kind == "grid" and a.g and
                           a.g.denominator == 1 and a.o.denominator == 1):
    return VS.po2([1], a)
  lo, hi = a.bounds()
  return VS.real(Fraction(0) if lo is None else _pow2(lo, up=False),
                 None if hi is None else _pow2(hi, up=True))


def log2(a):
  if a.kind == "po2" and a.signs == frozenset([1]):
    return a.exps
  if a.kind == "fin" and all(v > 0 for v in a.vals) and \
      all(log2_exact(v) is not None for v in a.vals):
    return VS.fin(log2_exact(v) for v in a.vals)
  lo, hi = a.bounds()
  nlo = None if (lo is None or lo <= 0) else log2_bounds(lo)[0]
  nhi = None if hi is None else (log2_bounds(hi)[1] if hi > 0 else None)
  return VS.real(nlo, nhi)


def sqrt(a):
  if a.kind == "po2" and a.signs == frozenset([1]):
    e = a.exps
    half = scale(e, Fraction(1, 2))
    if is_integer_set(half):
      return VS.po2([1], half)
  lo, hi = a.bounds()
  def rt(v, up):
    if v is None:
      return None
    if v <= 0:
      return Fraction(0)
    r = math.isqrt(v.numerator * v.denominator)
    if r * r == v.numerator * v.denominator:
      return Fraction(r, v.denominator)
    f = Fraction(math.sqrt(float(v)))
    return f * (Fraction(1000001, 1000000) if up else
                Fraction(999999, 1000000))
  return VS.real(rt(lo, False) if lo is not None else Fraction(0),
                 rt(hi, True))


def monotone_float(a, fn, lo_limit, hi_limit):
  """Image of a under an increasing real function with range
  (lo_limit, hi_limit), bounds widened for float error."""
  lo, hi = a.bounds()
  d = Fraction(1, 10**9)
  def ev(v):
    try:
      return Fraction(fn(float(v)))
    except OverflowError:
      return None
  nlo = lo_limit if lo is None else ev(lo)
  nhi = hi_limit if hi is None else ev(hi)
  if nlo is not None and lo is not None:
    nlo = nlo - d
    if lo_limit is not None:
      nlo = max(nlo, lo_limit)
  if nhi is not None and hi is not None:
    nhi = nhi + d
    if hi_limit is not None:
      nhi = min(nhi, hi_limit)
  return VS.real(nlo, nhi)
