"""Piecewise-affine evaluation of normal forms in x, and polarity
(monotonicity type) analysis."""
from fractions import Fraction

from .nf import NF
from .qir import mk_app, simplify_app, NOTCONST


class NotAffine(Exception):
  pass


class Split(Exception):
  def __init__(self, point):
    Exception.__init__(self, str(point))
    self.point = point


class Affine(object):
  """Affine form a*x + b of an NF on the open region (lo, hi)."""

  def __init__(self, lo, hi):
    self.lo = lo
    self.hi = hi

  def sign(self, ab):
    """Sign of a*x+b on the open region: +1, -1, 0; raises Split."""
    a, b = ab
    if a == 0:
      return (b > 0) - (b < 0)
    root = -b / a
    if (self.lo is None or root > self.lo) and \
        (self.hi is None or root < self.hi):
      raise Split(root)
    if self.lo is not None and self.hi is not None:
      p = (self.lo + self.hi) / 2
    elif self.lo is not None:
      p = self.lo + 1
    elif self.hi is not None:
      p = self.hi - 1
    else:
      raise Split(root)
    v = a * p + b
    return (v > 0) - (v < 0)

  def nf(self, nf):
    a = Fraction(0)
    b = Fraction(0)
    for m, c in nf.terms.items():
      ta, tb = Fraction(0), c
      for atom, e in m:
        if e < 0:
          aa, ab_ = self.atom(atom)
          if aa != 0:
            raise NotAffine("division by x-dependent %r" % (atom,))
          if ab_ == 0:
            raise NotAffine("division by zero")
          fa, fb = Fraction(0), Fraction(1) / (ab_ ** (-e))
        else:
          fa, fb = Fraction(0), Fraction(1)
          for _ in range(e):
            xa, xb = self.atom(atom)
            if fa != 0 and xa != 0:
              raise NotAffine("product of x-dependent factors")
            fa, fb = fa * xb + fb * xa, fb * xb
        if ta != 0 and fa != 0:
          raise NotAffine("product of x-dependent factors")
        ta, tb = ta * fb + tb * fa, tb * fb
      a += ta
      b += tb
    return a, b

  def atom(self, atom):
    if atom == ("x",):
      return Fraction(1), Fraction(0)
    if atom[0] != "app":
      raise NotAffine("symbol %r" % (atom,))
    f, attrs, args = atom[1], atom[2], atom[3]
    if f == "clip":
      u = self.nf(args[0])
      lo = None if args[1] is None else self.nf(args[1])
      hi = None if args[2] is None else self.nf(args[2])
      if lo is not None and self.sign((u[0] - lo[0], u[1] - lo[1])) < 0:
        return lo
      if hi is not None and self.sign((u[0] - hi[0], u[1] - hi[1])) > 0:
        return hi
      return u
    if f == "relu":
      u = self.nf(args[0])
      s = self.sign(u)
      if s >= 0:
        return u
      return u[0] * attrs[0], u[1] * attrs[0]
    if f == "abs":
      u = self.nf(args[0])
      s = self.sign(u)
      return u if s >= 0 else (-u[0], -u[1])
    if f == "sign":
      u = self.nf(args[0])
      return Fraction(0), Fraction(self.sign(u))
    if f in ("maximum", "minimum"):
      u, v = self.nf(args[0]), self.nf(args[1])
      s = self.sign((u[0] - v[0], u[1] - v[1]))
      if f == "maximum":
        return u if s >= 0 else v
      return u if s <= 0 else v
    if f == "cmp":
      u, v = self.nf(args[0]), self.nf(args[1])
      s = self.sign((u[0] - v[0], u[1] - v[1]))
      op = attrs[0]
      r = {"lt": s < 0, "le": s <= 0, "gt": s > 0, "ge": s >= 0,
           "eq": s == 0, "ne": s != 0}[op]
      return Fraction(0), Fraction(int(r))
    if f == "where":
      c = self.nf(args[0])
      if c[0] != 0:
        raise NotAffine("non-constant condition")
      return self.nf(args[1]) if c[1] != 0 else self.nf(args[2])
    if f in ("reshape", "repeat"):
      return self.nf(args[0])
    raise NotAffine("atom %s" % f)


def pwa(nf, lo=None, hi=None, max_regions=64):
  """List of (lo, hi, a, b): nf == a*x+b on each open region."""
  todo = [(lo, hi)]
  out = []
  while todo:
    l, h = todo.pop(0)
    if len(out) + len(todo) > max_regions:
      raise NotAffine("too many regions")
    try:
      a, b = Affine(l, h).nf(nf)
    except Split as s:
      todo.insert(0, (s.point, h))
      todo.insert(0, (l, s.point))
      continue
    out.append((l, h, a, b))
  return out


def pwa_equal(p, q):
  """Compare two piecewise-affine functions given as segment lists over the
  same overall interval.  Returns None when equal, else a description."""
  pts = set()
  for seg in p + q:
    for v in seg[:2]:
      if v is not None:
        pts.add(v)
  pts = sorted(pts)
  bounds = [None] + pts + [None]
  def find(segs, l, h):
    for (sl, sh, a, b) in segs:
      if (sl is None or (l is not None and l >= sl)) and \
          (sh is None or (h is not None and h <= sh)):
        return a, b
    return None
  overall_lo = min((s[0] for s in p), key=lambda v: (v is not None, v))
  for i in range(len(bounds) - 1):
    l, h = bounds[i], bounds[i + 1]
    fp, fq = find(p, l, h), find(q, l, h)
    if fp is None or fq is None:
      continue
    if fp != fq:
      return "on (%s, %s): %s*x+%s vs %s*x+%s" % (l, h, fp[0], fp[1], fq[0],
                                                   fq[1])
  return None


# ---------------------------------------------------------------------------
# polarity (monotonicity type)

UP_ATOMS = ("round", "floor", "ceil", "tanh", "sigmoid", "sign", "pow2",
            "log2", "log", "sqrt", "exp", "reshape", "repeat")


def _combine(p, q):
  if p == "0":
    return q
  if q == "0":
    return p
  if p == q:
    return p
  return "?"


def _flip(p):
  return {"+": "-", "-": "+", "0": "0", "?": "?"}[p]


def polarity(nf, ev):
  """'+' non-decreasing in x, '-' non-increasing, '0' constant, '?' unknown.
  `ev` (qir.Eval) supplies signs of sub-expressions on the region."""
  memo = ev.__dict__.setdefault("_pol_memo", {})
  r = memo.get(nf)
  if r is None:
    r = _polarity(nf, ev)
    memo[nf] = r
  return r


def atom_polarity(a, ev):
  memo = ev.__dict__.setdefault("_apol_memo", {})
  r = memo.get(a)
  if r is None:
    r = _atom_polarity(a, ev)
    memo[a] = r
  return r


def _polarity(nf, ev):
  total = "0"
  for m, c in nf.terms.items():
    dep = [(a, e) for a, e in m if atom_polarity(a, ev) != "0"]
    if not dep:
      continue
    if len(dep) == 1 and dep[0][1] == -1:
      # 1/u is monotone (reversed) where u keeps a strict sign
      su = ev.strict_sign(NF.atom(dep[0][0]))
      if su is None or su == 0:
        return "?"
      p = _flip(atom_polarity(dep[0][0], ev))
      rest = NF({tuple((a, e) for a, e in m if a != dep[0][0]): c})
      s = ev.strict_sign(rest) if not rest.is_const() else (
          (rest.const_value() > 0) - (rest.const_value() < 0))
      if s is None:
        return "?"
      if s == 0:
        continue
      total = _combine(total, p if s > 0 else _flip(p))
    elif len(dep) == 1 and dep[0][1] == 1:
      p = atom_polarity(dep[0][0], ev)
      # remaining factors are x-independent: need their sign
      rest = NF({tuple((a, e) for a, e in m if a != dep[0][0]): c})
      s = ev.strict_sign(rest) if not rest.is_const() else (
          (rest.const_value() > 0) - (rest.const_value() < 0))
      if s is None:
        return "?"
      if s == 0:
        continue
      total = _combine(total, p if s > 0 else _flip(p))
    else:
      # product of several x-dependent non-negative increasing factors
      ok = True
      for a, e in dep:
        if e < 0:
          ok = False
          break
        pa = atom_polarity(a, ev)
        lo, _ = ev.atom(a).bounds()
        if pa != "+" or lo is None or lo < 0:
          ok = False
          break
      if not ok:
        return "?"
      total = _combine(total, "+" if c > 0 else "-")
    if total == "?":
      return "?"
  return total


def _atom_polarity(a, ev):
  if a == ("x",):
    return "+"
  if a[0] != "app":
    return "0"
  f, attrs, args = a[1], a[2], a[3]
  if f in UP_ATOMS:
    return polarity(args[0], ev)
  if f == "clip":
    p = polarity(args[0], ev)
    for bnd in args[1:]:
      if bnd is not None:
        p = _combine(p, polarity(bnd, ev))
    return p
  if f == "relu":
    if attrs[0] < 0:
      return "?"
    return polarity(args[0], ev)
  if f in ("maximum", "minimum"):
    return _combine(polarity(args[0], ev), polarity(args[1], ev))
  if f == "abs":
    p = polarity(args[0], ev)
    if p == "0":
      return "0"
    s = ev.strict_sign(args[0])
    lo, hi = ev.nf(args[0]).bounds()
    if (s is not None and s > 0) or (lo is not None and lo >= 0):
      return p
    if (s is not None and s < 0) or (hi is not None and hi <= 0):
      return _flip(p)
    return "?"
  if f == "where":
    pc = polarity(args[0], ev)
    pa, pb = polarity(args[1], ev), polarity(args[2], ev)
    if pc == "0":
      d = ev.decide(args[0])
      return _combine(pa, pb) if d is None else (pa if d else pb)
    if pc == "?":
      return "?"
    # the condition switches once as x grows: 0 -> 1 when pc == '+'.
    # low-x branch / high-x branch:
    low, high = (args[2], args[1]) if pc == "+" else (args[1], args[2])
    low_truth, high_truth = (False, True) if pc == "+" else (True, False)
    vl = ev._refine(low, args[0], low_truth)
    vh = ev._refine(high, args[0], high_truth)
    pl, ph = polarity(low, ev), polarity(high, ev)
    both = _combine(pl, ph)
    if both == "?":
      return "?"
    (llo, lhi), (hlo, hhi) = vl.bounds(), vh.bounds()
    if both in ("+", "0") and lhi is not None and hlo is not None and \
        lhi <= hlo:
      return "+" if not (both == "0" and lhi == hlo and vl.is_const() and
                         vh.is_const()) else "0"
    if both in ("-", "0") and llo is not None and hhi is not None and \
        llo >= hhi:
      return "-"
    return "?"
  if f == "cmp":
    p = polarity(args[0] - args[1], ev)
    if p == "0":
      return "0"
    op = attrs[0]
    if op in ("gt", "ge"):
      return p
    if op in ("lt", "le"):
      return _flip(p)
    return "?"
  if f in ("reduce_max", "reduce_min", "reduce_mean", "reduce_sum"):
    return polarity(args[0], ev)
  if f == "recip":
    p = polarity(args[0], ev)
    if p == "0":
      return "0"
    s = ev.strict_sign(args[0])
    if s is None or s == 0:
      return "?"
    return _flip(p)
  if f == "rand":
    return "0" if all(polarity(x, ev) == "0" for x in args) else "?"
  # unknown application: constant only if all arguments are
  ps = [polarity(x, ev) for x in args if isinstance(x, NF)]
  return "0" if all(p == "0" for p in ps) else "?"


def fold_region(nf, ev):
  """Substitute finite-valued atoms (sign / comparison / saturated clips)
  that are constant on the region held by ev."""
  mp = {}
  for a in nf.atoms():
    if a[0] == "app" and a[1] in ("sign", "cmp", "clip", "relu", "where",
                                  "or", "and", "not"):
      c = ev.atom(a).const_value()
      if c is not None:
        mp[a] = NF.const(c)
  return nf.subst(mp, simplify_app) if mp else nf
