"""Program model of /repo/qkeras built from `ast` only.

Repo       : all parsed modules (fails closed when one does not parse)
Module     : import table, top-level functions/classes/constants
ClassInfo  : bases, linearised MRO over repository classes, methods,
             properties, __init__ signature
"""
import ast
import os
import sys


class AnalysisError(Exception):
  """The analysis itself cannot proceed (missing anchor, unsupported
  construct, ...).  Always turned into exit status 2, never into a pass and
  never into a VIOLATION."""


def repo_root():
  return os.environ.get("QKERAS_REPO", "/repo")


SKIP_DIRS = {"tests", "__pycache__"}


class Module(object):

  def __init__(self, repo, name, path, relpath, tree, source):
    self.repo = repo
    self.name = name            # dotted: qkeras.quantizers
    self.path = path
    self.relpath = relpath      # qkeras/quantizers.py
    self.tree = tree
    self.source = source
    self.lines = source.splitlines()
    self.imports = {}           # local alias -> dotted target
    self.star_imports = []      # dotted module names
    self.functions = {}         # name -> ast.FunctionDef (top level)
    self.classes = {}           # name -> ClassInfo
    self.assigns = {}           # name -> ast expr (last top-level assignment)
    self._scan()

  @property
  def package(self):
    if self.relpath.endswith("__init__.py"):
      return self.name
    return self.name.rsplit(".", 1)[0]

  def _abs(self, level, module):
    if level == 0:
      return module or ""
    base = self.package.split(".")
    if level > 1:
      base = base[:-(level - 1)]
    if module:
      base = base + module.split(".")
    return ".".join(base)

  def _scan(self):
    for node in self.tree.body:
      self._scan_stmt(node)

  def _scan_stmt(self, node):
    if isinstance(node, ast.Import):
      for a in node.names:
        if a.asname:
          self.imports[a.asname] = a.name
        else:
          top = a.name.split(".")[0]
          self.imports[top] = top
    elif isinstance(node, ast.ImportFrom):
      target = self._abs(node.level, node.module)
      for a in node.names:
        if a.name == "*":
          self.star_imports.append(target)
        else:
          self.imports[a.asname or a.name] = (
              target + "." + a.name if target else a.name)
    elif isinstance(node, (ast.FunctionDef, ast.AsyncFunctionDef)):
      self.functions[node.name] = node
    elif isinstance(node, ast.ClassDef):
      self.classes[node.name] = ClassInfo(self, node)
    elif isinstance(node, ast.Assign):
      for t in node.targets:
        if isinstance(t, ast.Name):
          self.assigns[t.id] = node.value
    elif isinstance(node, ast.AnnAssign):
      if isinstance(node.target, ast.Name) and node.value is not None:
        self.assigns[node.target.id] = node.value
    elif isinstance(node, (ast.If, ast.Try)):
      # top-level conditional definitions: scan all arms
      for sub in ast.iter_child_nodes(node):
        if isinstance(sub, ast.stmt):
          self._scan_stmt(sub)
        elif isinstance(sub, ast.ExceptHandler):
          for s2 in sub.body:
            self._scan_stmt(s2)

  def public_names(self):
    names = set()
    for n in list(self.functions) + list(self.classes) + list(self.assigns):
      if not n.startswith("_"):
        names.add(n)
    for n in self.imports:
      if not n.startswith("_"):
        names.add(n)
    if "__all__" in self.assigns:
      try:
        return set(ast.literal_eval(self.assigns["__all__"]))
      except Exception:  # pylint: disable=broad-except
        pass
    return names

  def resolve(self, name, _seen=None):
    """Resolve a (possibly dotted) local name to a dotted global name.

    Returns e.g. 'qkeras.quantizers.quantized_bits',
    'tensorflow.keras.backend.clip', or the name itself for builtins."""
    _seen = _seen or set()
    head, _, rest = name.partition(".")
    if head in self.functions or head in self.classes or (
        head in self.assigns and head not in self.imports):
      full = self.name + "." + head
    elif head in self.imports:
      full = self.imports[head]
    else:
      full = None
      for star in self.star_imports:
        m = self.repo.modules.get(star)
        if m is not None and (star, head) not in _seen:
          _seen.add((star, head))
          if head in m.public_names():
            full = m.resolve(head, _seen)
            break
      if full is None:
        full = head
    # follow re-exports through repository modules
    full = self.repo.canonical(full)
    return full + ("." + rest if rest else "")

  def loc(self, node):
    return "%s:%s" % (self.relpath, getattr(node, "lineno", "?"))

  def src(self, node):
    try:
      return ast.get_source_segment(self.source, node) or ast.unparse(node)
    except Exception:  # pylint: disable=broad-except
      return ast.unparse(node)


class ClassInfo(object):

  def __init__(self, module, node):
    self.module = module
    self.node = node
    self.name = node.name
    self.qualname = module.name + "." + node.name
    self.base_exprs = node.bases
    self.methods = {}
    self.properties = set()
    self.classmethods = set()
    self.staticmethods = set()
    self.class_attrs = {}
    self.decorators = [ast.unparse(d) for d in node.decorator_list]
    for st in node.body:
      if isinstance(st, ast.FunctionDef):
        decos = [ast.unparse(d) for d in st.decorator_list]
        if any(d.endswith(".setter") for d in decos):
          self.methods.setdefault(st.name + ".setter", st)
          continue
        self.methods[st.name] = st
        if "property" in decos:
          self.properties.add(st.name)
        if "classmethod" in decos:
          self.classmethods.add(st.name)
        if "staticmethod" in decos:
          self.staticmethods.add(st.name)
      elif isinstance(st, ast.Assign):
        for t in st.targets:
          if isinstance(t, ast.Name):
            self.class_attrs[t.id] = st.value

  def bases(self):
    """Dotted names of the bases."""
    out = []
    for b in self.base_exprs:
      try:
        out.append(self.module.resolve(ast.unparse(b)))
      except Exception:  # pylint: disable=broad-except
        out.append(ast.unparse(b))
    return out

  def repo_bases(self):
    repo = self.module.repo
    return [repo.classes[b] for b in self.bases() if b in repo.classes]

  def mro(self):
    """C3 is overkill here: the repository only uses single inheritance
    chains plus external mixins; depth-first left-to-right, deduplicated."""
    out = [self]
    for b in self.repo_bases():
      for c in b.mro():
        if c not in out:
          out.append(c)
    return out

  def external_bases(self):
    """Dotted names of non-repository ancestors (transitively)."""
    out = []
    for c in self.mro():
      for b in c.bases():
        if b not in self.module.repo.classes and b not in out:
          out.append(b)
    return out

  def find_method(self, name, after=None):
    """(ClassInfo, FunctionDef) of `name` in MRO order; `after` restricts to
    classes after that class (super() semantics)."""
    mro = self.mro()
    if after is not None:
      if after in mro:
        mro = mro[mro.index(after) + 1:]
    for c in mro:
      if name in c.methods:
        return c, c.methods[name]
    return None, None

  def find_class_attr(self, name):
    for c in self.mro():
      if name in c.class_attrs:
        return c, c.class_attrs[name]
    return None, None

  def init_params(self):
    """List of (name, default_expr_or_None) of the effective __init__,
    excluding self; plus flags (has_varargs, has_kwargs)."""
    _, fn = self.find_method("__init__")
    if fn is None:
      return [], False, False
    return function_params(fn, skip_self=True)

  def is_subclass_of(self, dotted_suffix):
    for c in self.mro():
      if c.qualname.endswith(dotted_suffix):
        return True
      for b in c.bases():
        if b.endswith(dotted_suffix):
          return True
    return False

  def loc(self, node=None):
    return self.module.loc(node or self.node)


def function_params(fn, skip_self=False):
  a = fn.args
  pos = list(a.posonlyargs) + list(a.args)
  defaults = [None] * (len(pos) - len(a.defaults)) + list(a.defaults)
  out = [(p.arg, d) for p, d in zip(pos, defaults)]
  for p, d in zip(a.kwonlyargs, a.kw_defaults):
    out.append((p.arg, d))
  if skip_self and out and out[0][0] in ("self", "cls"):
    out = out[1:]
  return out, a.vararg is not None, a.kwarg is not None


class Repo(object):

  def __init__(self, root=None, package="qkeras"):
    self.root = root or repo_root()
    self.package = package
    self.modules = {}
    self.classes = {}   # qualname -> ClassInfo
    self.parse_failures = []
    self._load()

  def _load(self):
    base = os.path.join(self.root, self.package)
    if not os.path.isdir(base):
      raise AnalysisError("anchor-missing package directory %s" % base)
    todo = []
    for dirpath, dirnames, filenames in os.walk(base):
      dirnames[:] = sorted(d for d in dirnames if d not in SKIP_DIRS)
      for fn in sorted(filenames):
        if fn.endswith(".py"):
          todo.append(os.path.join(dirpath, fn))
    for path in todo:
      rel = os.path.relpath(path, self.root)
      modname = rel[:-3].replace(os.sep, ".")
      if modname.endswith(".__init__"):
        modname = modname[:-9]
      try:
        with open(path, "r", encoding="utf-8") as f:
          src = f.read()
        tree = ast.parse(src, filename=path)
      except (SyntaxError, UnicodeDecodeError, OSError) as e:
        self.parse_failures.append((rel, str(e)))
        continue
      m = Module(self, modname, path, rel, tree, src)
      self.modules[modname] = m
      for c in m.classes.values():
        self.classes[c.qualname] = c
    if self.parse_failures:
      raise AnalysisError("module-does-not-parse " + "; ".join(
          "%s (%s)" % pf for pf in self.parse_failures))

  def canonical(self, dotted, _depth=0):
    """Follow re-exports: qkeras.quantizers -> ... keeps repository names
    pointing at their defining module."""
    if _depth > 8:
      return dotted
    parts = dotted.split(".")
    for i in range(len(parts), 0, -1):
      if ".".join(parts[:i]) in self.modules:
        if i == len(parts):
          return dotted
        break
    # longest module prefix
    for i in range(len(parts), 0, -1):
      modname = ".".join(parts[:i])
      if modname in self.modules and i < len(parts):
        m = self.modules[modname]
        head = parts[i]
        rest = parts[i + 1:]
        if head in m.functions or head in m.classes:
          return dotted
        if head in m.imports:
          tgt = m.imports[head]
          if tgt != dotted:
            return self.canonical(".".join([tgt] + rest), _depth + 1)
        for star in m.star_imports:
          sm = self.modules.get(star)
          if sm is not None and head in sm.public_names():
            return self.canonical(".".join([star, head] + rest), _depth + 1)
        return dotted
    return dotted

  def module(self, name):
    if name not in self.modules:
      raise AnalysisError("anchor-missing module %s" % name)
    return self.modules[name]

  def cls(self, qualname):
    if qualname not in self.classes:
      raise AnalysisError("anchor-missing class %s" % qualname)
    return self.classes[qualname]

  def function(self, modname, fname):
    m = self.module(modname)
    if fname not in m.functions:
      raise AnalysisError("anchor-missing function %s.%s" % (modname, fname))
    return m.functions[fname]

  def method(self, qualname, mname):
    c = self.cls(qualname)
    owner, fn = c.find_method(mname)
    if fn is None:
      raise AnalysisError("anchor-missing method %s.%s" % (qualname, mname))
    return owner, fn

  def stats(self):
    nfun = 0
    for m in self.modules.values():
      nfun += len(m.functions)
      for c in m.classes.values():
        nfun += len(c.methods)
    return {"modules": len(self.modules), "classes": len(self.classes),
            "functions": nfun}

  def subclasses_of(self, dotted_suffix):
    return [c for c in self.classes.values()
            if c.is_subclass_of(dotted_suffix)]


# ---------------------------------------------------------------------------
# canonical names for external primitives

_PREFIX_CANON = [
    ("tensorflow.compat.v2.keras.backend.", "K."),
    ("tensorflow.keras.backend.", "K."),
    ("tensorflow.compat.v2.math.", "tf."),
    ("tensorflow.math.", "tf."),
    ("tensorflow.compat.v2.", "tf."),
    ("tensorflow.python.framework.smart_cond.", "tf_utils."),
    ("tensorflow.python.ops.array_ops.", "tf."),
    ("tensorflow.python.ops.math_ops.", "tf."),
    ("tensorflow.", "tf."),
    ("numpy.", "np."),
    ("six.moves.", ""),
]


def canon_external(dotted):
  """tensorflow.compat.v2.math.round -> tf.round, etc."""
  dotted = dotted + "."
  for p, r in _PREFIX_CANON:
    if dotted.startswith(p):
      dotted = r + dotted[len(p):]
      break
  for p, r in (("tf.keras.backend.", "K."), ("tf.math.", "tf."),
               ("tf.compat.v2.", "tf.")):
    if dotted.startswith(p):
      dotted = r + dotted[len(p):]
  return dotted.rstrip(".")
