"""Synthetic layer graph for the graph-walking helpers of qkeras.utils
(convert_to_folded_model, find_bn_fusing_layer_pair): the networkx graph and
the qgraph builders are stand-ins, the selection loops are interpreted."""
from .pe import Mock


def layer(cls, name):
  return Mock(name, {"name": name,
                     "__class__": Mock("class", {"__name__": cls})})


def harness(conv, dw, bn, dense="Dense"):
  """Graph with every consumer pattern around a batch-normalisation:
  conv -> {bn, skip}; conv -> bn only; depthwise -> bn only; dense -> bn;
  conv -> relu; conv -> {skip, bn}.  Returns (G, graph mock, qgraph mock,
  removed node ids, topological_sort stand-in)."""
  G = {
      1: (layer(conv, "c1_bn_and_skip"), [2, 3]),
      2: (layer(bn, "bn1"), [3]),
      3: (layer("Add", "add"), [4, 12]),
      4: (layer(conv, "c2_only_bn"), [5]),
      5: (layer(bn, "bn2"), [6]),
      6: (layer(dw, "dw3_only_bn"), [7]),
      7: (layer(bn, "bn3"), [8]),
      8: (layer(dense, "d4_not_foldable"), [9]),
      9: (layer(bn, "bn4"), [10]),
      10: (layer(conv, "c5_relu"), [11]),
      11: (layer("ReLU", "relu"), [12]),
      12: (layer(conv, "c6_skip_then_bn"), [14, 13]),
      13: (layer(bn, "bn6"), [14]),
      14: (layer("Add", "add2"), [-2]),
      -2: (None, []),
  }
  preds = {k: [u for u, (_, ss) in G.items() if k in ss] for k in G}
  removed = []
  sort_calls = []

  def topo(pe, a, k):
    sort_calls.append(1)
    # a second traversal rebuilds the Keras model (not interpreted)
    return ([i for i in G if i != -2] + [-2]) if len(sort_calls) == 1 else []
  graph = Mock("graph", {
      "nodes": {k: {"layer": [v[0]]} for k, v in G.items()},
      "successors": lambda pe, a, k: list(G[a[0]][1]),
      "predecessors": lambda pe, a, k: list(preds[a[0]]),
  })
  noop = lambda pe, a, k: None
  qg = Mock("qgraph", {
      "GenerateGraphFromModel": lambda pe, a, k: (graph, None),
      "GraphAddSingleSourceSingleSink": noop,
      "GraphRemoveNodeWithNodeType": noop,
      "GraphPropagateActivationsToEdges": noop,
      "GraphRemoveNode": lambda pe, a, k: removed.append(a[1])})
  return G, graph, qg, removed, topo
