"""Synthetic layer graph for the graph-walking helpers of qkeras.utils
(convert_to_folded_model, find_bn_fusing_layer_pair): the networkx graph and
the qgraph builders are stand-ins, the selection loops are interpreted."""
from .pe import Mock


# classes a layer class of that name derives from (the library's own class
# statements: QConv2D(Conv2D), QDepthwiseConv2D(DepthwiseConv2D), ...)
BASES = {
    "QConv2D": ("Conv2D",), "QDepthwiseConv2D": ("DepthwiseConv2D",),
    "QConv1D": ("Conv1D",), "QDense": ("Dense",),
    "QConv2DTranspose": ("Conv2DTranspose",),
    "QSeparableConv2D": ("Layer",), "QSeparableConv1D": ("Layer",),
    "QConv2DBatchnorm": ("QConv2D", "Conv2D"),
    "QDepthwiseConv2DBatchnorm": ("QDepthwiseConv2D", "DepthwiseConv2D"),
    "QBatchNormalization": ("BatchNormalization",),
}


def layer(cls, name):
  return Mock(name, {"name": name,
                     "__classes__": {cls, "Layer"} | set(BASES.get(cls, ())),
                     "__class__": Mock("class", {"__name__": cls})})


def probe_chain(classes, bn="BatchNormalization"):
  """probe_1 -> bn -> probe_2 -> bn -> ... -> sink: every probe layer's sole
  consumer is a batch normalisation.  Same return value as `harness`."""
  G = {}
  nid = 1
  for c in classes:
    G[nid] = (layer(c, "probe_" + c), [nid + 1])
    G[nid + 1] = (layer(bn, "bn_after_" + c), [nid + 2])
    nid += 2
  G[nid - 1] = (G[nid - 1][0], [-2])
  G[-2] = (None, [])
  return _graph_of(G)


def harness(conv, dw, bn, dense="Dense"):
  """Graph with every consumer pattern around a batch-normalisation:
  conv -> {bn, skip}; conv -> bn only; depthwise -> bn only; dense -> bn;
  conv -> relu; conv -> {skip, bn}.  Returns (G, graph mock, qgraph mock,
  removed node ids, topological_sort stand-in)."""
  G = {
      1: (layer(conv, "c1_bn_and_skip"), [2, 3]),
      2: (layer(bn, "bn1"), [3]),
      3: (layer("Add", "add"), [4, 12]),
      4: (layer(conv, "c2_only_bn"), [5]),
      5: (layer(bn, "bn2"), [6]),
      6: (layer(dw, "dw3_only_bn"), [7]),
      7: (layer(bn, "bn3"), [8]),
      8: (layer(dense, "d4_not_foldable"), [9]),
      9: (layer(bn, "bn4"), [10]),
      10: (layer(conv, "c5_relu"), [11]),
      11: (layer("ReLU", "relu"), [12]),
      12: (layer(conv, "c6_skip_then_bn"), [14, 13]),
      13: (layer(bn, "bn6"), [14]),
      14: (layer("Add", "add2"), [-2]),
      -2: (None, []),
  }
  return _graph_of(G)


def _graph_of(G):
  preds = {k: [u for u, (_, ss) in G.items() if k in ss] for k in G}
  removed = []
  sort_calls = []

  def topo(pe, a, k):
    sort_calls.append(1)
    # a second traversal rebuilds the Keras model (not interpreted)
    return ([i for i in G if i != -2] + [-2]) if len(sort_calls) == 1 else []
  graph = Mock("graph", {
      "nodes": {k: {"layer": [v[0]]} for k, v in G.items()},
      "successors": lambda pe, a, k: list(G[a[0]][1]),
      "predecessors": lambda pe, a, k: list(preds[a[0]]),
  })
  noop = lambda pe, a, k: None
  qg = Mock("qgraph", {
      "GenerateGraphFromModel": lambda pe, a, k: (graph, None),
      "GraphAddSingleSourceSingleSink": noop,
      "GraphRemoveNodeWithNodeType": noop,
      "GraphPropagateActivationsToEdges": noop,
      "GraphRemoveNode": lambda pe, a, k: removed.append(a[1])})
  return G, graph, qg, removed, topo


def rebuild_harness(conv="Conv2D", dw="DepthwiseConv2D",
                    bn="BatchNormalization"):
  """Synthetic conv+BN network with several constant-operand operator layers
  (TFOpLambda) of the same kind, for the part of convert_to_folded_model
  that rebuilds the network from the graph.  Layers are callables that
  record (layer name, input expressions, extra constant operand); the graph
  is a small stateful stand-in of the networkx DiGraph (nodes, edges with a
  "tensor" attribute, successors / predecessors, node removal that
  reconnects u -> v -> w as u -> w).

  Returns (model mock, qgraph mock, topological_sort stand-in, Model
  stand-in, state) where state["outputs"] are the expressions of the rebuilt
  model's outputs and state["expected"] the expression of the same network
  with each folded batch-normalisation left out."""
  spec = [
      # id, class, name, successors, constant operand
      (1, conv, "conv", [2], None),
      (2, bn, "bn", [3], None),
      (3, "TFOpLambda", "tf.math.multiply", [4], 3),
      (4, "TFOpLambda", "tf.__operators__.add", [5], 5),
      (5, "TFOpLambda", "tf.math.multiply_1", [6, 8], 7),
      (6, dw, "dw", [7], None),
      (7, bn, "bn_1", [8], None),
      (8, "Add", "add", [9], None),
      (9, "TFOpLambda", "tf.__operators__.add_1", [10], 11),
      (10, "TFOpLambda", "tf.math.multiply_10", [-2], 13),
  ]
  state = {"outputs": None, "calls": []}

  def tensor(expr):
    t = Mock("tensor", {"expr": expr})
    t.attrs["ref"] = lambda pe, a, k: ref_of(t)
    return t

  def ref_of(t):
    return Mock("ref", {"deref": lambda pe, a, k: t})

  def make_layer(cls, name):
    lay = layer(cls, name)

    def call(pe, a, k):
      ins = a[0]
      ins = list(ins) if isinstance(ins, (list, tuple)) else [ins]
      y = a[1] if len(a) > 1 else k.get("y")
      if len(a) > 2 or (k and set(k) - {"y"}):
        y = ("unexpected-arguments", len(a), sorted(k))
      exprs = tuple(getattr(i, "attrs", {}).get("expr", ("not-a-tensor",))
                    for i in ins)
      state["calls"].append((name, y))
      return tensor((name, exprs, y))
    lay.attrs["__call__"] = call
    return lay

  nodes = {-1: {"layer": [None], "type": ["Source"]},
           -2: {"layer": [None], "type": ["Sink"]}}
  succ = {-1: [1], -2: []}
  const = {}
  cls_of = {}
  for i, cls, name, ss, y in spec:
    nodes[i] = {"layer": [make_layer(cls, name)], "type": [cls]}
    succ[i] = list(ss)
    const[name] = y
    cls_of[i] = (cls, name)
  edges = {}
  for u, ss in succ.items():
    for v in ss:
      edges[(u, v)] = {"tensor": ref_of(tensor(
          ("input",) if u == -1 else ("stale-output-of", cls_of[u][1]))),
                       "shape": [None, 8]}

  def preds(v):
    return [u for u in succ if v in succ[u]]

  def remove_node(pe, a, k):
    v = a[1]
    inc, out = preds(v), list(succ[v])
    for u in inc:
      for w in out:
        edges[(u, w)] = edges[(v, w)]
        succ[u] = [w if s == v else s for s in succ[u]]
    for u in inc:
      edges.pop((u, v), None)
    for w in out:
      edges.pop((v, w), None)
    succ.pop(v)
    nodes.pop(v)
    state.setdefault("removed", []).append(v)

  def topo(pe, a, k):
    order, seen = [], set()

    def visit(n):
      if n in seen:
        return
      seen.add(n)
      for p in preds(n):
        visit(p)
      order.append(n)
    for n in sorted(nodes, key=lambda n: (n == -2, n)):
      visit(n)
    return order

  edges_mock = Mock("edges", {
      "__getitem__": lambda pe, a, k: edges[tuple(a[0])],
      "__call__": lambda pe, a, k: [(a[0], w) for w in succ.get(a[0], [])]})
  graph = Mock("graph", {
      "nodes": nodes,
      "edges": edges_mock,
      "successors": lambda pe, a, k: list(succ[a[0]]),
      "predecessors": lambda pe, a, k: preds(a[0]),
      "__getitem__": lambda pe, a, k: {w: edges[(a[0], w)]
                                       for w in succ[a[0]]},
  })
  noop = lambda pe, a, k: None
  qg = Mock("qgraph", {
      "GenerateGraphFromModel": lambda pe, a, k: (graph, None),
      "GraphAddSingleSourceSingleSink": noop,
      "GraphRemoveNodeWithNodeType": noop,
      "GraphPropagateActivationsToEdges": noop,
      "GraphRemoveNode": remove_node})
  cfg_layers = [{"class_name": "InputLayer", "config": {"name": "input_1"},
                 "inbound_nodes": []}]
  orig_pred = {}
  for i, cls, name, ss, y in spec:
    for v in ss:
      orig_pred.setdefault(v, []).append(i)
  for i, cls, name, ss, y in spec:
    ps = [cls_of[p][1] for p in orig_pred.get(i, [])] or ["input_1"]
    if cls == "TFOpLambda":
      inbound = [[ps[0], 0, 0, {"y": y}]]
    else:
      inbound = [[[p, 0, 0, {}] for p in ps]]
    cfg_layers.append({"class_name": cls, "config": {"name": name},
                       "name": name, "inbound_nodes": inbound})
  model = Mock("model", {
      "get_config": lambda pe, a, k: {"name": "m", "layers": cfg_layers},
      "inputs": [tensor(("input",))]})

  def model_ctor(pe, a, k):
    outs = k.get("outputs", a[1] if len(a) > 1 else None)
    outs = list(outs) if isinstance(outs, (list, tuple)) else [outs]
    state["outputs"] = [getattr(o, "attrs", {}).get("expr") for o in outs]
    return Mock("new_model", {})

  # the same network with the batch-normalisations that follow a
  # single-consumer convolution left out
  folded_bn = {2, 7}

  def expected(i):
    cls, name = cls_of[i]
    ins = []
    for p in orig_pred.get(i, []):
      while p in folded_bn:
        p = orig_pred[p][0]
      ins.append(expected(p))
    if not ins:
      ins = [("input",)]
    return (name, tuple(ins), const[name])
  state["expected"] = [expected(10)]
  state["constants"] = const
  return model, qg, topo, model_ctor, state
