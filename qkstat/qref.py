"""Configuration lattices for all registered quantizers and the documented
surrogate activation of each (reference side for C06/C07/C08)."""
from fractions import Fraction as F
import itertools

from .pe import Tensor
from .qir import mk_app
from .nf import NF
from .oracle import p2

X = ("x",)
FSYM = ("sym", "f")


def f_tensor():
  return Tensor(FSYM, ())


def c(v):
  return ("c", F(v))


def relu_t(t, slope=0):
  return ("app", "relu", (F(slope),), (t,))


def bounded_relu_t(slope, ub):
  return ("where", ("cmp", "le", X, c(ub)), relu_t(X, slope), c(ub))


def surrogate_term(cls, kw):
  """IR term of the documented unquantized surrogate s(x)."""
  if cls in ("quantized_bits", "quantized_linear", "quantized_po2"):
    return X
  if cls == "quantized_relu":
    slope = F(kw.get("negative_slope", 0))
    nsb = kw.get("bits", 8) - int(slope != 0)
    m_i = p2(kw.get("integer", 0))
    m_f = p2(kw.get("integer", 0) - nsb)
    if kw.get("is_quantized_clip", True):
      return bounded_relu_t(slope, m_i - m_f)
    if kw.get("relu_upper_bound") is not None:
      return bounded_relu_t(slope, kw["relu_upper_bound"])
    return relu_t(X, slope)
  if cls == "quantized_relu_po2":
    slope = F(kw.get("negative_slope", 0))
    if kw.get("max_value") is None:
      return relu_t(X, slope)
    return bounded_relu_t(slope, kw["max_value"])
  if cls == "quantized_hswish":
    sh = F(kw.get("relu_shift", 3))
    ub = F(kw.get("relu_upper_bound", 6))
    sx = ("add", X, c(sh))
    r = ("where", ("cmp", "le", sx, c(ub)), relu_t(sx, 0), c(ub))
    return ("div", ("mul", X, r), c(ub))
  if cls in ("binary", "ternary", "stochastic_binary", "stochastic_ternary"):
    if kw.get("alpha") is None:
      return ("app", "tanh", (), (X,))
    return X
  if cls == "bernoulli":
    return X
  return None


def lattice_all(tier, with_f=True):
  """(cls, kwargs) for every registered quantizer; qnoise_factor symbolic
  where the class has the knob."""
  big = tier == "thorough"
  bits_r = (1, 2, 3, 4, 6, 8, 12) if big else (1, 2, 4, 8)
  int_r = (0, 1, 2, 5) if big else (0, 2)
  stes = (True, False)
  fs = f_tensor() if with_f else F(1)
  for bits, integer, kn, sym, alpha, sto, ste in itertools.product(
      bits_r, int_r, (True, False), (0, 1),
      (None, F(2), "auto", "auto_po2"), (False, True), stes):
    yield "quantized_bits", dict(
        bits=bits, integer=integer, keep_negative=kn, symmetric=sym,
        alpha=alpha, use_stochastic_rounding=sto, use_ste=ste,
        qnoise_factor=fs)
  for bits, integer, kn, sym, alpha, sto in itertools.product(
      bits_r, int_r, (True, False), (0, 1), (None, F(2), "auto", "auto_po2"),
      (False, True)):
    yield "quantized_linear", dict(
        bits=bits, integer=integer, keep_negative=kn, symmetric=sym,
        alpha=alpha, use_stochastic_rounding=sto, qnoise_factor=fs)
  for bits, integer, slope, sig, sto, clipmode, ste in itertools.product(
      bits_r, int_r, (F(0), F(1, 4)), (0, 1), (False, True),
      ("qclip", "ub", "none"), stes):
    kw = dict(bits=bits, integer=integer, negative_slope=slope,
              use_sigmoid=sig, use_stochastic_rounding=sto, use_ste=ste,
              qnoise_factor=fs)
    if clipmode == "ub":
      kw.update(is_quantized_clip=False, relu_upper_bound=F(3, 2))
    elif clipmode == "none":
      kw.update(is_quantized_clip=False, relu_upper_bound=None)
    yield "quantized_relu", kw
  for bits, mv, sto, quad, rnd, ste in itertools.product(
      (2, 4, 8) if not big else (2, 3, 4, 5, 8), (None, F(1), F(4), F(1, 2)),
      (False, True), (False, True), ("rnd", "floor"), stes):
    yield "quantized_po2", dict(
        bits=bits, max_value=mv, use_stochastic_rounding=sto,
        quadratic_approximation=quad, log2_rounding=rnd, use_ste=ste,
        qnoise_factor=fs)
  for bits, mv, slope, sto, quad, rnd, ste in itertools.product(
      (2, 4, 8) if not big else (2, 3, 4, 5, 8), (None, F(1), F(4)),
      (F(0), F(1, 4)), (False, True), (False, True), ("rnd", "floor"), stes):
    yield "quantized_relu_po2", dict(
        bits=bits, max_value=mv, negative_slope=slope,
        use_stochastic_rounding=sto, quadratic_approximation=quad,
        log2_rounding=rnd, use_ste=ste, qnoise_factor=fs)
  for bits, integer, sym, alpha, sto in itertools.product(
      (4, 8), (0, 2), (0, 1), (None, F(2)), (False, True)):
    yield "quantized_hswish", dict(
        bits=bits, integer=integer, symmetric=sym, alpha=alpha,
        use_stochastic_rounding=sto, qnoise_factor=fs)
  for bits, integer, sym in itertools.product((2, 4, 8), (0, 1), (0, 1)):
    yield "quantized_ulaw", dict(bits=bits, integer=integer, symmetric=sym)
  for bits, sym, real, sto in itertools.product(
      bits_r, (False, True), (False, True), (False, True)):
    yield "quantized_tanh", dict(bits=bits, symmetric=sym, use_real_tanh=real,
                                 use_stochastic_rounding=sto)
    yield "quantized_sigmoid", dict(bits=bits, symmetric=sym,
                                    use_real_sigmoid=real,
                                    use_stochastic_rounding=sto)
  for use01, alpha, sto in itertools.product(
      (False, True), (None, F(1), F(5, 2), "auto", "auto_po2"),
      (False, True)):
    yield "binary", dict(use_01=use01, alpha=alpha,
                         use_stochastic_rounding=sto)
  for alpha, thr, sto in itertools.product(
      (None, F(1), F(5, 2), "auto", "auto_po2"), (None, F(1, 2)),
      (False, True)):
    yield "ternary", dict(alpha=alpha, threshold=thr,
                          use_stochastic_rounding=sto)
  for alpha, real in itertools.product((None, F(2), "auto", "auto_po2"),
                                       (True, False)):
    yield "stochastic_binary", dict(alpha=alpha, use_real_sigmoid=real)
  for alpha, real in itertools.product((None, F(2), "auto", "auto_po2"),
                                       (True, False)):
    yield "stochastic_ternary", dict(alpha=alpha, use_real_sigmoid=real)
  # non-default refinement depth / threshold of the ternary family
  yield "stochastic_ternary", dict(alpha="auto", number_of_unrolls=2)
  yield "stochastic_ternary", dict(alpha="auto_po2", number_of_unrolls=3)
  yield "stochastic_ternary", dict(alpha=None, threshold=F(1, 2))
  yield "ternary", dict(alpha="auto", number_of_unrolls=2)
  for alpha, real in itertools.product((None, F(2), "auto", "auto_po2"),
                                       (True, False)):
    yield "bernoulli", dict(alpha=alpha, use_real_sigmoid=real)


ALL_QUANTIZERS = (
    "quantized_linear", "quantized_bits", "bernoulli", "ternary",
    "stochastic_ternary", "binary", "stochastic_binary", "quantized_relu",
    "quantized_ulaw", "quantized_tanh", "quantized_sigmoid", "quantized_po2",
    "quantized_relu_po2", "quantized_hswish")


def show_kwargs(kw):
  def f(v):
    if isinstance(v, Tensor):
      return "f"
    if isinstance(v, F):
      return str(v.numerator) if v.denominator == 1 else "%d/%d" % (
          v.numerator, v.denominator)
    return repr(v)
  return ",".join("%s=%s" % (k, f(v)) for k, v in kw.items())


def has_phase(term, _memo=None):
  memo = _memo if _memo is not None else {}
  if id(term) in memo:
    return memo[id(term)]
  r = False
  if isinstance(term, tuple):
    if term and term[0] == "phase":
      r = True
    else:
      for t in term:
        if isinstance(t, tuple) and has_phase(t, memo):
          r = True
          break
  memo[id(term)] = r
  return r


def has_rand(term, _memo=None):
  """Does a random draw occur anywhere in the term?"""
  memo = _memo if _memo is not None else {}
  if id(term) in memo:
    return memo[id(term)]
  r = False
  if isinstance(term, tuple):
    if term and term[0] == "rand":
      r = True
    else:
      for t in term:
        if isinstance(t, tuple) and has_rand(t, memo):
          r = True
          break
  memo[id(term)] = r
  return r
