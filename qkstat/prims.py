"""Semantics of the external primitives and python builtins known to the
partial evaluator (the trusted table, DESIGN 2.4).  Every primitive works on
concrete python values when all operands are concrete and builds an IR term
otherwise."""
import ast
from fractions import Fraction
import math

from . import pe as P
from .pe import (Tensor, Obj, Func, ClassRef, Ext, ShapeV, Opaque, C, fr,
                 is_num, mkfloat, is_floaty, PyRaise, FloatTag, Mock, NArr,
                 NDArr, FormattedNumber, NpFloat)
from .nf import log2_exact

# canonical names -> elementwise unary application name
UNARY = {
    "tf.round": "round", "K.round": "round", "np.round": "round",
    "np.rint": "round", "tf.rint": "round",
    "tf.floor": "floor", "K.floor": "floor", "np.floor": "floor",
    "tf.ceil": "ceil", "K.ceil": "ceil", "np.ceil": "ceil",
    "tf.sign": "sign", "K.sign": "sign", "np.sign": "sign",
    "tf.abs": "abs", "K.abs": "abs", "np.abs": "abs", "np.absolute": "abs",
    "abs": "abs",
    "tf.sqrt": "sqrt", "K.sqrt": "sqrt", "np.sqrt": "sqrt",
    "tf.rsqrt": "rsqrt",
    "tf.tanh": "tanh", "K.tanh": "tanh", "np.tanh": "tanh",
    "tf.nn.tanh": "tanh",
    "tf.sigmoid": "sigmoid", "K.sigmoid": "sigmoid",
    "tf.nn.sigmoid": "sigmoid",
    "tf.exp": "exp", "K.exp": "exp", "np.exp": "exp",
    "tf.log": "log", "K.log": "log", "np.log": "log",
    "tf.square": "square", "K.square": "square", "np.square": "square",
    "tf.negative": "neg",
    "tf.logical_not": "not",
}

IDENTITY = {
    "K.cast_to_floatx", "tf.identity", "tf.convert_to_tensor", "tf.constant",
    "np.array", "np.asarray", "K.constant", "K.eval", "np.float32",
    "K.get_value", "tf.squeeze",
    "K.variable", "float32", "tf.ensure_shape", "tf.broadcast_to",
    "tf.debugging.check_numerics", "K.flatten", "typing.cast", "cast",
}

REDUCE = {
    "K.max": "reduce_max", "tf.reduce_max": "reduce_max",
    "K.min": "reduce_min", "tf.reduce_min": "reduce_min",
    "K.mean": "reduce_mean", "tf.reduce_mean": "reduce_mean",
    "K.sum": "reduce_sum", "tf.reduce_sum": "reduce_sum",
    "K.std": "reduce_std", "tf.reduce_std": "reduce_std",
    "K.var": "reduce_var",
    "tf.reduce_any": "reduce_any", "K.any": "reduce_any",
    "tf.reduce_all": "reduce_all", "K.all": "reduce_all",
    "np.max": "reduce_max", "np.min": "reduce_min", "np.mean": "reduce_mean",
    "np.sum": "reduce_sum", "np.amax": "reduce_max", "np.amin": "reduce_min",
    "np.all": "reduce_all", "np.any": "reduce_any",
}

CMP = {
    "tf.less": "lt", "tf.less_equal": "le", "tf.greater": "gt",
    "tf.greater_equal": "ge", "tf.equal": "eq", "tf.not_equal": "ne",
    "K.less": "lt", "K.less_equal": "le", "K.greater": "gt",
    "K.greater_equal": "ge", "K.equal": "eq", "K.not_equal": "ne",
}

EXC_NAMES = {"ValueError", "TypeError", "AttributeError", "AssertionError",
             "SyntaxError", "Exception", "NotImplementedError", "KeyError"}


def arg(args, kwargs, i, name, default=None):
  if i is not None and i < len(args):
    return args[i]
  if name in kwargs:
    return kwargs[name]
  return default


def any_tensor(*vals):
  return any(isinstance(v, Tensor) for v in vals)


def _int_dtype(dt):
  """Conversion function of an integer / boolean numpy dtype given as type
  object or name, else None."""
  n = getattr(dt, "name", dt) if not isinstance(dt, str) else dt
  if dt is int:
    n = "int"
  if dt is bool:
    n = "bool"
  if not isinstance(n, str):
    return None
  n = n.split(".")[-1]
  if n in ("bool", "bool_"):
    return lambda e: 1 if fr(e) != 0 else 0
  if n in ("int", "int8", "int16", "int32", "int64", "uint8", "uint16",
           "uint32", "uint64", "intc", "intp", "int_"):
    import math
    return lambda e: int(math.trunc(fr(e)))
  return None


def shape_of(*vals):
  for v in vals:
    if isinstance(v, Tensor) and v.shape is not None:
      return v.shape
  return None


def T(pe, term, shape=None):
  return Tensor(pe.note_loc(term), shape)


def concrete_unary(pe, op, v):
  f = fr(v)
  if op == "round":
    # round half to even (tf.round / np.round semantics)
    fl = math.floor(f)
    d = f - fl
    if d > Fraction(1, 2) or (d == Fraction(1, 2) and fl % 2 == 1):
      r = fl + 1
    else:
      r = fl
    return mkfloat(r) if is_floaty(v) or isinstance(v, Fraction) else int(r)
  if op == "floor":
    return mkfloat(math.floor(f))
  if op == "ceil":
    return mkfloat(math.ceil(f))
  if op == "sign":
    return mkfloat((f > 0) - (f < 0))
  if op == "abs":
    r = abs(f)
    if is_floaty(v):
      return mkfloat(r)
    return int(r) if isinstance(v, int) else r
  if op == "square":
    return mkfloat(f * f) if is_floaty(v) else f * f
  if op == "neg":
    return mkfloat(-f) if is_floaty(v) else -v
  if op == "sqrt":
    if f < 0:
      raise PyRaise("ValueError", "sqrt of negative")
    r = math.isqrt(f.numerator * f.denominator)
    if r * r == f.numerator * f.denominator:
      return mkfloat(Fraction(r, f.denominator))
    return mkfloat(Fraction(math.sqrt(float(f))))
  if op == "log":
    if f <= 0:
      return Tensor(("app", "log", (), (C(f),)), None)
    if f == 1:
      return mkfloat(0)
    if f == 2:
      return Tensor(P.LN2, None)
    return Tensor(("sym", "ln(%s)" % f), None)
  if op in ("tanh", "sigmoid", "exp", "rsqrt"):
    return Tensor(("app", op, (), (C(f),)), None)
  if op == "not":
    return not v
  pe.err("concrete %s" % op)


def unary(pe, op, v):
  if isinstance(v, Tensor):
    if v.term[0] == "c" and op in ("round", "floor", "ceil", "sign", "abs",
                                   "square", "neg"):
      r = concrete_unary(pe, op, mkfloat(v.term[1]))
      return Tensor(C(r), v.shape)
    if op == "neg":
      return T(pe, ("neg", v.term), v.shape)
    if op == "square":
      return T(pe, ("mul", v.term, v.term), v.shape)
    if op == "not":
      return T(pe, ("bool", "not", v.term), v.shape)
    return T(pe, ("app", op, (), (v.term,)), v.shape)
  if isinstance(v, (list, tuple)):
    return [unary(pe, op, e) for e in v]
  if is_num(v):
    return concrete_unary(pe, op, v)
  if v is None:
    raise PyRaise("TypeError", "%s(None)" % op)
  pe.err("%s of %r" % (op, v))


def pow_(pe, a, b):
  if any_tensor(a, b):
    ta, tb = pe.as_term(a), pe.as_term(b)
    if ta[0] == "c" and tb[0] == "c" and tb[1].denominator == 1 and \
        abs(tb[1]) < 4096 and not (ta[1] == 0 and tb[1] < 0):
      return Tensor(C(ta[1] ** int(tb[1])), shape_of(a, b))
    if ta[0] == "c" and ta[1] == 2:
      return T(pe, ("app", "pow2", (), (tb,)), shape_of(a, b))
    if tb[0] == "c" and tb[1].denominator == 1 and 0 <= tb[1] <= 4:
      t = C(1)
      for _ in range(int(tb[1])):
        t = ("mul", t, ta)
      return T(pe, t, shape_of(a, b))
    return T(pe, ("app", "pow", (), (ta, tb)), shape_of(a, b))
  if not (is_num(a) and is_num(b)):
    raise PyRaise("TypeError", "pow(%r, %r)" % (a, b))
  return pe.py_pow(a, b)


def minmax(pe, which, a, b):
  if any_tensor(a, b):
    ta, tb = pe.as_term(a), pe.as_term(b)
    return T(pe, ("app", which, (), (ta, tb)), shape_of(a, b))
  if not (is_num(a) and is_num(b)):
    raise PyRaise("TypeError", "%s(%r, %r)" % (which, a, b))
  r = max(fr(a), fr(b)) if which == "maximum" else min(fr(a), fr(b))
  pick = a if fr(a) == r else b
  return pick


def clip(pe, x, lo, hi):
  if lo is None and hi is None:
    # K.clip with both bounds None clips to (-inf, inf)
    return x
  if not isinstance(x, Tensor) and is_num(x) and \
      (lo is None or is_num(lo)) and (hi is None or is_num(hi)):
    v = fr(x)
    if lo is not None:
      v = max(v, fr(lo))
    if hi is not None:
      v = min(v, fr(hi))
    return mkfloat(v)
  tx = pe.as_term(x)
  tlo = pe.as_term(lo) if lo is not None else ("c", None)
  thi = pe.as_term(hi) if hi is not None else ("c", None)
  return T(pe, ("app", "clip", (), (tx, tlo, thi)), shape_of(x))


def where(pe, c, a, b):
  if isinstance(c, Tensor) and c.term[0] == "c":
    c = c.term[1] != 0
  if not isinstance(c, Tensor):
    return a if pe.truth(c) else b
  ta, tb = pe.as_term(a), pe.as_term(b)
  return T(pe, ("where", c.term, ta, tb), shape_of(a, b, c))


def concrete_list(v):
  return isinstance(v, (list, tuple)) and all(
      isinstance(e, (int, Fraction)) for e in v)


def call(pe, name, args, kwargs, node):
  # ------------------------------------------------------------ builtins
  if name == "isinstance":
    return isinstance_(pe, args[0], args[1])
  if name == "len":
    v = args[0]
    if isinstance(v, ShapeV):
      return len(v.dims)
    if isinstance(v, (list, tuple, dict, str)):
      return len(v)
    if isinstance(v, Tensor) and v.shape:
      return v.shape[0]
    if v is None:
      raise PyRaise("TypeError", "len(None)")
    pe.err("len of %r" % (v,), node)
  if name in ("range", "tf.range", "np.arange", "K.arange"):
    vals = [a.term[1] if isinstance(a, Tensor) and a.term[0] == "c" else a
            for a in args]
    if any(isinstance(v, str) or v is None for v in vals):
      raise PyRaise("TypeError", "range() of %r" % (vals,))
    if not all(is_num(v) for v in vals):
      pe.err("range over non-constant %r" % (vals,), node)
    r = list(range(*[int(fr(v)) for v in vals]))
    return r if name == "range" else NArr(r)
  if name in ("list", "tuple", "sorted", "set", "reversed"):
    if not args:
      return [] if name != "tuple" else ()
    vals = pe.iterate(args[0])
    if name == "sorted":
      vals = sorted(vals)
    if name == "reversed":
      vals = list(reversed(vals))
    if name == "set":
      out = []
      for v in vals:
        if v not in out:
          out.append(v)
      vals = out
    return tuple(vals) if name == "tuple" else list(vals)
  if name == "inspect.signature" and args and isinstance(
      args[0], (Func, ClassRef)):
    from .loader import function_params
    f_ = args[0]
    if isinstance(f_, ClassRef):
      params = f_.cls.init_params()[0]
    else:
      params = function_params(f_.node, skip_self=f_.self_obj is not None)[0]
    return Mock("signature", {"parameters": {p_: Mock("parameter", {
        "name": p_, "default": d_}) for p_, d_ in params}})
  if name in ("dict.fromkeys", "collections.OrderedDict.fromkeys",
              "OrderedDict.fromkeys"):
    # every key is bound to the SAME value object
    val = args[1] if len(args) > 1 else None
    return {k_: val for k_ in pe.iterate(args[0])}
  if name == "frozenset":
    vals = list(pe.iterate(args[0])) if args else []
    out = []
    for v in vals:
      if v not in out:
        out.append(v)
    return tuple(out)
  if name in ("weakref.WeakKeyDictionary", "weakref.WeakValueDictionary",
              "WeakKeyDictionary", "WeakValueDictionary") and not args:
    return {}      # keyed by object identity; nothing is collected here
  if name in ("dict", "collections.OrderedDict", "OrderedDict"):
    # (python dictionaries keep insertion order)
    d = {}
    if args:
      a0 = args[0]
      if isinstance(a0, dict):
        d.update(a0)
      else:
        for k, v in pe.iterate(a0):
          d[k] = v
    d.update(kwargs)
    return d
  if name in ("collections.defaultdict", "defaultdict"):
    fac = args[0] if args else None
    kinds = {"list": list, "dict": dict, "int": int, "set": list}
    fname = getattr(fac, "name", None) or getattr(fac, "desc", None) or (
        fac if isinstance(fac, str) else None)
    if fac is not None and fname not in kinds:
      pe.err("defaultdict with factory %r" % (fac,), node)
    d = P.DefaultDict(kinds[fname] if fac is not None else None)
    return d
  if name == "collections.namedtuple":
    tname = args[0]
    fields = args[1]
    if isinstance(fields, str):
      fields = fields.replace(",", " ").split()
    fields = list(fields)

    def construct(pe_, a, k, tname=tname, fields=fields):
      if len(a) > len(fields):
        raise PyRaise("TypeError", "%s() takes %d positional arguments" %
                      (tname, len(fields)))
      vals = dict(zip(fields, a))
      for kk, vv in k.items():
        if kk not in fields or kk in vals:
          raise PyRaise("TypeError", "%s() got an unexpected argument %s" %
                        (tname, kk))
        vals[kk] = vv
      missing = [f for f in fields if f not in vals]
      if missing:
        raise PyRaise("TypeError", "%s() missing %s" % (tname, missing))
      vals["_fields"] = tuple(fields)
      return Mock(tname, vals)
    return Mock("namedtuple " + str(tname), {"__call__": construct,
                                             "__name__": tname})
  if name in ("copy.deepcopy", "copy.copy"):
    def dc(v, memo):
      if isinstance(v, Obj):
        if id(v) in memo:
          return memo[id(v)]
        o = Obj(v.cls)
        memo[id(v)] = o
        for k, a in v.attrs.items():
          o.attrs[k] = dc(a, memo) if name == "copy.deepcopy" else a
        return o
      if isinstance(v, Mock) and v.attrs.get("__copyable__"):
        # stand-ins are shared by default; a rule opts in to copy semantics
        if id(v) in memo:
          return memo[id(v)]
        m = Mock(v.name + " (copy)", {})
        memo[id(v)] = m
        for k, a in v.attrs.items():
          m.attrs[k] = dc(a, memo) if name == "copy.deepcopy" else a
        return m
      if name == "copy.copy":
        if isinstance(v, list):
          return list(v)
        if isinstance(v, dict):
          return dict(v)
        return v
      if isinstance(v, list):
        return [dc(e, memo) for e in v]
      if isinstance(v, tuple):
        return tuple(dc(e, memo) for e in v)
      if isinstance(v, dict):
        return {k: dc(e, memo) for k, e in v.items()}
      return v
    return dc(args[0], {})
  if name == "issubclass":
    a, b = args
    if isinstance(a, ClassRef) and isinstance(b, ClassRef):
      return b.cls in a.cls.mro()
    if isinstance(a, ClassRef) and isinstance(b, (list, tuple)):
      return any(isinstance(t, ClassRef) and t.cls in a.cls.mro() for t in b)
    return False
  if name in ("np.log10", "math.log10"):
    v = args[0]
    if isinstance(v, Tensor):
      return T(pe, ("app", "log10", (), (v.term,)), v.shape)
    return mkfloat(Fraction(math.log10(float(fr(v)))))
  if name in ("math.ceil", "math.floor"):
    return unary(pe, name.split(".")[1], args[0])
  if name in ("math.log2", "math.log"):
    return call(pe, "np.log2" if name.endswith("2") else "np.log", args,
                kwargs, node)
  if name in ("eval", "exec", "compile", "__import__"):
    raise PyRaise("CodeExecution", "%s() of program text" % name)
  if name == "globals":
    from . import gram
    return gram.GlobalsDict(pe, pe.cur_module)
  if name in ("pyparsing.Suppress", "pyparsing.Regex", "pyparsing.Group",
              "pyparsing.Optional", "pyparsing.delimitedList",
              "pyparsing.Literal", "pyparsing.Word", "pyparsing.OneOrMore",
              "pyparsing.ZeroOrMore", "pyparsing.delimited_list"):
    from . import gram
    return gram.make(pe, name.split(".")[-1], args, kwargs)
  if name == "re.compile":
    from . import gram
    if not isinstance(args[0], str):
      pe.err("re.compile of a non-constant pattern", node)
    return gram.CompiledRe(args[0])
  if name in ("re.match", "re.search", "re.fullmatch"):
    import re as _re
    pat, text = args[0], args[1]
    if isinstance(pat, str) and isinstance(text, str):
      try:
        m = getattr(_re, name.split(".")[1])(pat, text)
      except _re.error:
        raise PyRaise("error", "bad regular expression %r" % pat)
      return Opaque("match") if m is not None else None
    pe.err("%s on non-constant strings" % name, node)
  if name in ("json.dumps",):
    return Mock("json", {"obj": args[0]})
  if name in ("json.loads",):
    v = args[0]
    if isinstance(v, Mock) and "obj" in v.attrs:
      return call(pe, "copy.deepcopy", [v.attrs["obj"]], {}, node)
    pe.err("json.loads of a non-constant string", node)
  if name == "tf.is_tensor" and len(args) == 1:
    return isinstance(args[0], Tensor)
  if name in ("re.findall", "re.split"):
    import re as _re
    if isinstance(args[0], str) and isinstance(args[1], str):
      try:
        return [tuple(m) if isinstance(m, tuple) else m for m in
                getattr(_re, name.split(".")[1])(args[0], args[1])]
      except _re.error:
        raise PyRaise("error", "bad regular expression %r" % args[0])
    pe.err("%s on non-constant strings" % name, node)
  if name == "re.sub":
    import re as _re
    pat, rep_, text = args[0], args[1], args[2]
    if all(isinstance(v, str) for v in (pat, rep_, text)):
      return _re.sub(pat, rep_, text)
    pe.err("re.sub on non-constant strings", node)
  if name == "float":
    v = args[0]
    if isinstance(v, Tensor):
      return v
    if isinstance(v, FormattedNumber):
      return v.value if isinstance(v.value, Tensor) else mkfloat(fr(v.value))
    if isinstance(v, str):
      try:
        fv = float(v)
      except ValueError:
        raise PyRaise("ValueError", "float(%r)" % v)
      if fv != fv or fv in (float("inf"), float("-inf")):
        return Opaque("float " + v)
      return mkfloat(Fraction(v)) if _is_decimal(v) else mkfloat(fv)
    if isinstance(v, str) or v is None or isinstance(v, (list, dict, Obj)):
      raise PyRaise("TypeError" if not isinstance(v, str) else "ValueError",
                    "float(%r)" % (v,))
    return mkfloat(fr(v))
  if name == "int":
    v = args[0]
    if isinstance(v, Tensor):
      if v.term[0] == "c":
        return int(v.term[1])
      return v
    if isinstance(v, str):
      try:
        return int(v)
      except ValueError:
        raise PyRaise("ValueError", "int(%r)" % v)
    if v is None or isinstance(v, (list, dict, Obj)):
      raise PyRaise("TypeError", "int(%r)" % (v,))
    f = fr(v)
    return int(f) if f >= 0 else -int(-f)
  if name == "bool":
    return pe.truth(args[0]) if args else False
  if name == "str":
    v = args[0] if args else ""
    if isinstance(v, str):
      return v
    if isinstance(v, Obj):
      owner, fn = v.cls.find_method("__str__")
      if fn is not None:
        return pe.call_func(Func(fn, owner.module, [], owner.name +
                                 ".__str__", v, owner), [], {})
    if isinstance(v, Mock) and callable(v.attrs.get("__str__")):
      return v.attrs["__str__"](pe, [], {})
    return py_repr(pe, v)
  if name == "repr":
    v = args[0]
    if isinstance(v, NpFloat):
      return "np.float64(%s)" % repr(float(v))
    if isinstance(v, Obj):
      owner, fn = v.cls.find_method("__repr__")
      if fn is not None:
        return pe.call_func(Func(fn, owner.module, [], owner.name +
                                 ".__repr__", v, owner), [], {})
      pe.err("repr() of an object without __repr__", node)
    if isinstance(v, (Tensor, Mock)):
      pe.err("repr() of %r" % (v,), node)
    return py_repr(pe, v)
  if name == "abs":
    return unary(pe, "abs", args[0])
  if name in ("max", "min", "np.maximum", "np.minimum", "tf.maximum",
              "tf.minimum", "K.maximum", "K.minimum"):
    which = "maximum" if name.endswith(("max", "maximum")) else "minimum"
    vals = list(args)
    if len(vals) == 1 and isinstance(vals[0], (list, tuple)):
      vals = list(vals[0])
    if not vals:
      raise PyRaise("ValueError", "%s of empty sequence" % name)
    r = vals[0]
    for v in vals[1:]:
      r = minmax(pe, which, r, v)
    return r
  if name in ("pow", "K.pow", "tf.pow", "np.power", "tf.math.pow"):
    a_, b_ = args[0], args[1] if len(args) > 1 else kwargs.get(
        "a", kwargs.get("y"))
    if name == "np.power" and all(
        isinstance(v, int) and not isinstance(v, bool) for v in (a_, b_)):
      # numpy evaluates two python ints in int64 and wraps silently
      if b_ < 0:
        raise PyRaise("ValueError", "Integers to negative integer powers "
                      "are not allowed.")
      r = (a_ ** b_) & ((1 << 64) - 1)
      return r - (1 << 64) if r >= (1 << 63) else r
    return pow_(pe, a_, b_)
  if name == "hasattr":
    o, n = args
    if isinstance(o, Obj):
      if n in o.attrs:
        return True
      _, fn = o.cls.find_method(n)
      if fn is not None:
        return True
      _, ca = o.cls.find_class_attr(n)
      return ca is not None
    if isinstance(o, Mock):
      return n in o.attrs
    if isinstance(o, Tensor):
      return n in ("shape", "numpy", "dtype")
    if isinstance(o, ShapeV):
      return n in ("as_list", "rank")
    return False
  if name == "getattr":
    try:
      return pe.getattr(args[0], args[1])
    except PyRaise:
      if len(args) > 2:
        return args[2]
      raise
  if name == "setattr":
    pe.setattr(args[0], args[1], args[2])
    return None
  if name == "map":
    f = args[0]
    seqs = [pe.iterate(a) for a in args[1:]]
    return [pe.call(f, list(t), {}) for t in zip(*seqs)]
  if name == "filter":
    f = args[0]
    return [v for v in pe.iterate(args[1])
            if pe.truth(pe.call(f, [v], {}) if f is not None else v)]
  if name == "zip":
    return [tuple(t) for t in zip(*[pe.iterate(a) for a in args])]
  if name == "enumerate":
    return [(i, v) for i, v in enumerate(pe.iterate(args[0]))]
  if name == "callable":
    return isinstance(args[0], (Func, ClassRef, Ext, Obj)) or (
        isinstance(args[0], Mock) and "__call__" in args[0].attrs) or \
        (callable(args[0]) and not isinstance(args[0], Mock))
  if name == "print" or name.startswith("logging.") or \
      name.startswith("absl.logging.") or name.startswith("warnings."):
    return None
  if name == "sum":
    r = 0
    for v in pe.iterate(args[0]):
      r = pe.binop(ast.Add(), r, v)
    return r
  if name in ("any", "all"):
    vals = [pe.truth(v) for v in pe.iterate(args[0])]
    return any(vals) if name == "any" else all(vals)
  if name == "type":
    v = args[0]
    if isinstance(v, Obj):
      return ClassRef(v.cls)
    return Ext("<type>")
  if name in EXC_NAMES:
    return Opaque("exception " + name)
  if name == "id":
    return id(args[0])

  # ------------------------------------------------------ numpy scalars
  if name in ("np.log2",):
    v = args[0]
    if isinstance(v, Tensor):
      return T(pe, ("app", "log2", (), (v.term,)), v.shape)
    f = fr(v)
    if f <= 0:
      return mkfloat(-10**6)   # -inf stand-in: never an integer test pass
    e = log2_exact(f)
    if e is not None:
      return mkfloat(e)
    return mkfloat(Fraction(math.log2(float(f))))
  if name in ("np.mod", "tf.math.mod", "tf.math.floormod", "np.fmod",
              "tf.mod", "tf.floormod"):
    a, b = args
    if any_tensor(a, b):
      return T(pe, ("app", "mod", (), (pe.as_term(a), pe.as_term(b))),
               shape_of(a, b))
    return pe.binop(ast.Mod(), a, b)
  if name in ("np.prod", "tf.reduce_prod", "K.prod", "math.prod"):
    if name != "math.prod" and (is_num(args[0]) or isinstance(args[0],
                                                               bool)):
      return args[0]      # the product over a scalar is the scalar
    r = 1
    for v in pe.iterate(args[0]):
      r = pe.binop(ast.Mult(), r, v)
    return r
  if name in ("np.isscalar",):
    return is_num(args[0])

  # ------------------------------------------------------------- tensors
  if name in ("round", "np.round", "np.around"):
    nd = arg(args, kwargs, 1, "ndigits" if name == "round" else "decimals")
    if nd is not None and not isinstance(nd, Tensor) and fr(nd) != 0:
      # round(x, n) == round(x * 10**n) / 10**n
      scale = Fraction(10) ** int(fr(nd))
      v = args[0]
      if isinstance(v, Tensor):
        inner = unary(pe, "round", T(pe, ("mul", v.term, C(scale)), v.shape))
        return T(pe, ("div", inner.term, C(scale)), v.shape)
      return unary(pe, "round", fr(v) * scale) / scale
    return unary(pe, "round", args[0])
  if name in UNARY:
    return unary(pe, UNARY[name], args[0])
  if name in ("np.asarray", "np.array") and args and _int_dtype(
      arg(args, kwargs, 1, "dtype")) is not None:
    # an integer / boolean dtype truncates (towards zero) what it is given
    conv = _int_dtype(arg(args, kwargs, 1, "dtype"))
    v = args[0]
    if isinstance(v, NDArr):
      if all(is_num(e) for e in v.flat()):
        return NDArr.from_flat([conv(e) for e in v.flat()], v.shape)
    elif isinstance(v, (list, tuple, NArr)) and v and all(
        isinstance(r, (list, tuple)) for r in v):
      nd = NDArr([list(r) for r in v])
      if all(is_num(e) for e in nd.flat()):
        return NDArr.from_flat([conv(e) for e in nd.flat()], nd.shape)
    elif isinstance(v, (list, tuple, NArr, range)) and all(
        is_num(e) for e in v):
      return NArr(conv(e) for e in v)
    elif is_num(v):
      return conv(v)
    pe.err("np.array(..., dtype=<integer>) of %r" % (v,), node)
  if name in ("np.asarray", "np.array") and args and isinstance(
      args[0], NDArr):
    return args[0]
  if name in ("np.asarray", "np.array") and args and isinstance(
      args[0], list) and args[0] and isinstance(args[0][0], list):
    nd = NDArr(args[0])
    if all(is_num(e) for e in nd.flat()):
      return nd
  if name in ("np.reshape", "tf.reshape", "K.reshape") and args and is_num(
      args[0]) and not isinstance(args[0], bool):
    shp = arg(args, kwargs, 1, "newshape", kwargs.get("shape"))
    if isinstance(shp, (list, tuple)) and [int(fr(d)) for d in shp] in (
        [-1], [1]):
      return NArr([args[0]])
  if name in ("np.reshape", "tf.reshape") and args and isinstance(
      args[0], (NDArr, NArr)):
    shp = arg(args, kwargs, 1, "newshape", kwargs.get("shape"))
    flat = args[0].flat() if isinstance(args[0], NDArr) else list(args[0])
    dims = [int(fr(d)) for d in shp]
    if dims.count(-1) == 1:
      rest = 1
      for d in dims:
        if d != -1:
          rest *= d
      if rest and len(flat) % rest == 0:
        dims[dims.index(-1)] = len(flat) // rest
    return NDArr.from_flat(flat, dims)
  if name in ("np.ravel", "np.ndarray.flatten") and args and isinstance(
      args[0], (NDArr, NArr, list, tuple)):
    v = args[0]
    if isinstance(v, (list, tuple)) and not isinstance(v, NArr):
      v = NDArr([list(r) for r in v]) if v and all(
          isinstance(r, (list, tuple)) for r in v) else NArr(v)
    return NArr(v.flat()) if isinstance(v, NDArr) else NArr(v)
  if name == "np.ravel" and args and isinstance(args[0], Tensor):
    return Tensor(args[0].term, None)      # like K.flatten: layout unknown
  if name in ("np.squeeze", "tf.squeeze") and args and isinstance(
      args[0], (NDArr, NArr)):
    if isinstance(args[0], NArr):
      return args[0] if len(args[0]) != 1 else args[0][0]
    shp = [d for d in args[0].shape if d != 1]
    return NDArr.from_flat(args[0].flat(), shp)
  if name in ("np.squeeze", "tf.squeeze") and args and is_num(
      args[0]) and not isinstance(args[0], bool):
    return args[0]
  if name in ("np.squeeze", "tf.squeeze") and args and isinstance(
      args[0], Tensor) and not kwargs and len(args) == 1:
    return Tensor(args[0].term, None)     # values kept, layout unknown
  if name in ("np.asarray", "np.array") and args and isinstance(
      args[0], (list, range, tuple)) and not isinstance(args[0], NArr) and \
      all(is_num(e) and not isinstance(e, bool) for e in args[0]) and \
      len(args[0]) > 0:
    return NArr(args[0])
  if name in ("tf.range", "np.arange", "K.arange") and args and all(
      is_num(a) for a in args):
    return NArr(range(*[int(fr(a)) for a in args]))
  if name in ("np.where", "tf.where") and len(args) == 3 and isinstance(
      args[0], NArr):
    c, a, b = args
    pick = lambda v, i: v[i] if isinstance(v, NArr) else v
    return NArr(pick(a, i) if c[i] else pick(b, i) for i in range(len(c)))
  if name in ("tf.concat", "K.concatenate", "np.concatenate") and args and \
      isinstance(args[0], (list, tuple)) and args[0] and all(
          isinstance(v, NArr) for v in args[0]):
    out = NArr()
    for v in args[0]:
      out.extend(v)
    return out
  if name in IDENTITY:
    if not args:
      return kwargs.get("value", kwargs.get("x"))
    return args[0]
  if name in ("K.cast", "tf.cast"):
    return args[0]
  if name == "tf.Variable":
    v = arg(args, kwargs, 0, "initial_value")
    if isinstance(v, Func):
      v = pe.call(v, [], {})
    return P.make_var(pe.as_term(v))
  if name in CMP:
    a, b = args[0], args[1]
    if any_tensor(a, b):
      return T(pe, ("cmp", CMP[name], pe.as_term(a), pe.as_term(b)),
               shape_of(a, b))
    opn = {"lt": ast.Lt, "le": ast.LtE, "gt": ast.Gt, "ge": ast.GtE,
           "eq": ast.Eq, "ne": ast.NotEq}[CMP[name]]()
    return pe.compare(opn, a, b)
  if name in ("tf.logical_or", "tf.logical_and", "np.logical_or",
              "np.logical_and"):
    a, b = args[0], args[1]
    is_or = name.endswith("or")
    for u, v in ((a, b), (b, a)):
      if not isinstance(u, Tensor):
        t = pe.truth(u)
        if is_or:
          return True if t else v
        return v if t else False
    return T(pe, ("bool", "or" if is_or else "and", a.term, b.term),
             shape_of(a, b))
  if name in ("tf.where", "K.switch", "np.where"):
    if len(args) == 1:
      pe.err("single-argument where", node)
    return where(pe, arg(args, kwargs, 0, "condition"),
                 arg(args, kwargs, 1, "x"), arg(args, kwargs, 2, "y"))
  if name in ("K.clip", "tf.clip_by_value", "np.clip"):
    x = arg(args, kwargs, 0, "x", kwargs.get("t"))
    lo = arg(args, kwargs, 1, "min_value",
             kwargs.get("clip_value_min", kwargs.get("a_min")))
    hi = arg(args, kwargs, 2, "max_value",
             kwargs.get("clip_value_max", kwargs.get("a_max")))
    return clip(pe, x, lo, hi)
  if name in ("K.relu", "tf.nn.relu", "tf.keras.activations.relu"):
    x = arg(args, kwargs, 0, "x", kwargs.get("features"))
    alpha = arg(args, kwargs, 1, "alpha", 0)
    if alpha is None:
      alpha = 0
    mx = arg(args, kwargs, 2, "max_value", None)
    if isinstance(alpha, Tensor):
      pe.err("relu with tensor slope", node)
    if not isinstance(x, Tensor):
      f = fr(x)
      r = f if f >= 0 else f * fr(alpha)
      if mx is not None:
        r = min(r, fr(mx))
      return mkfloat(r)
    t = ("app", "relu", (fr(alpha),), (x.term,))
    if mx is not None:
      t = ("app", "minimum", (), (t, pe.as_term(mx)))
    return T(pe, t, x.shape)
  if name in ("tf.nn.leaky_relu",):
    x = args[0]
    alpha = arg(args, kwargs, 1, "alpha", mkfloat(0.2))
    return T(pe, ("app", "relu", (fr(alpha),), (x.term,)), x.shape)
  if name in ("K.hard_sigmoid",):
    x = args[0]
    return clip(pe, pe.binop(ast.Add(), pe.binop(ast.Mult(), mkfloat(0.2), x),
                             mkfloat(0.5)), 0, 1)
  if name in ("tf.floordiv", "np.floor_divide"):
    return pe.binop(ast.FloorDiv(), args[0], args[1])
  if name in ("tf.reciprocal", "np.reciprocal"):
    return pe.binop(ast.Div(), 1, args[0])
  if name in ("tf.divide_no_nan",):
    # a / b, and 0 where b == 0
    a, b = args[0], args[1]
    if any_tensor(a, b):
      tb = pe.as_term(b)
      return T(pe, ("where", ("cmp", "eq", tb, C(0)), C(0),
                    ("div", pe.as_term(a), tb)), shape_of(a, b))
    return 0 if fr(b) == 0 else pe.binop(ast.Div(), a, b)
  if name in ("tf.squared_difference",):
    d = pe.binop(ast.Sub(), args[0], args[1])
    return pe.binop(ast.Mult(), d, d)
  if name in ("tf.nn.relu6",):
    return clip(pe, args[0], 0, 6)
  if name in ("tf.transpose", "K.transpose", "np.transpose",
              "K.permute_dimensions"):
    v = args[0]
    if not isinstance(v, Tensor):
      return v
    return T(pe, ("app", "reshape", (None,), (v.term,)), None)
  if name in ("tf.stop_gradient", "K.stop_gradient"):
    v = args[0]
    if not isinstance(v, Tensor):
      return v
    return T(pe, ("sg", v.term), v.shape)
  if name in ("tf.ones_like", "K.ones_like", "np.ones_like"):
    v = args[0]
    if isinstance(v, ShapeV):
      return Tensor(C(1), (len(v.dims),))
    return Tensor(C(1), v.shape if isinstance(v, Tensor) else None)
  if name in ("tf.zeros_like", "K.zeros_like", "np.zeros_like"):
    v = args[0]
    return Tensor(C(0), v.shape if isinstance(v, Tensor) else None)
  if name in ("tf.ones", "K.ones", "np.ones"):
    return Tensor(C(1), None)
  if name in ("tf.zeros", "K.zeros", "np.zeros"):
    return Tensor(C(0), None)
  if name in ("tf.shape", "K.shape", "K.int_shape", "np.shape"):
    v = args[0]
    return ShapeV(v.shape or ()) if isinstance(v, Tensor) else ShapeV(())
  if name in ("tf.rank", "K.ndim", "np.ndim"):
    v = args[0]
    return len(v.shape or ()) if isinstance(v, Tensor) else 0
  if name in ("tf.random.uniform", "K.random_uniform", "tf.random_uniform",
              "np.random.uniform"):
    pe.rand_counter += 1
    shp = arg(args, kwargs, 0, "shape")
    lo = arg(args, kwargs, 1, "minval", 0)
    hi = arg(args, kwargs, 2, "maxval", 1)
    sh = tuple(shp.dims) if isinstance(shp, ShapeV) else None
    return T(pe, ("rand", pe.rand_counter, pe.as_term(lo), pe.as_term(hi)),
             sh)
  if name in REDUCE:
    x = arg(args, kwargs, 0, "x", kwargs.get("input_tensor"))
    axis = arg(args, kwargs, 1, "axis", None)
    keep = arg(args, kwargs, 2, "keepdims", False)
    if not isinstance(x, Tensor) and REDUCE[name] in ("reduce_all",
                                                      "reduce_any"):
      if isinstance(x, (list, tuple)):
        vals = [pe.truth(e) for e in x]
        return all(vals) if REDUCE[name] == "reduce_all" else any(vals)
      return pe.truth(x)
    if isinstance(x, P.NDArr) and axis is None:
      x = P.NArr(x.flat())
    if isinstance(x, P.NArr) and axis is None and x and \
        REDUCE[name] == "reduce_sum":
      r = x[0]
      for e in x[1:]:
        r = pe.binop(ast.Add(), r, e)
      return r
    if not isinstance(x, Tensor):
      if isinstance(x, (list, tuple)) and concrete_list(x) and \
          REDUCE[name] in ("reduce_max", "reduce_min"):
        return (max if REDUCE[name] == "reduce_max" else min)(x)
      if isinstance(x, (list, tuple)) and x and \
          REDUCE[name] in ("reduce_max", "reduce_min"):
        r = x[0]
        for e in x[1:]:
          r = minmax(pe, "maximum" if REDUCE[name] == "reduce_max"
                     else "minimum", r, e)
        return r
      if is_num(x):
        return x
      pe.err("%s of %r" % (name, x), node)
    rank = len(x.shape) if x.shape is not None else None
    if axis is None:
      axes = tuple(range(rank)) if rank is not None else ("all",)
    elif isinstance(axis, (int, Fraction)):
      axes = (int(axis),)
    elif concrete_list(axis):
      axes = tuple(int(a) for a in axis)
    else:
      pe.err("reduction over non-constant axes %r" % (axis,), node)
    if rank is not None:
      axes = tuple(sorted(a % rank if rank else a for a in axes))
      if keep:
        shp = tuple(1 if i in axes else d for i, d in enumerate(x.shape))
      else:
        shp = tuple(d for i, d in enumerate(x.shape) if i not in axes)
    else:
      shp = None
    return T(pe, ("app", REDUCE[name], (axes, bool(keep)), (x.term,)), shp)
  if name == "tf.reshape" or name == "K.reshape" or name == "np.reshape":
    x, shp = args[0], arg(args, kwargs, 1, "shape")
    if not isinstance(x, Tensor):
      return x
    dims = tuple(int(fr(d)) for d in pe.iterate(shp)) \
        if isinstance(shp, (list, tuple, ShapeV)) else None
    return T(pe, ("app", "reshape", (dims,), (x.term,)), dims)
  if name in ("tf.expand_dims", "K.expand_dims", "np.expand_dims"):
    x = arg(args, kwargs, 0, "input", kwargs.get("x"))
    axis = arg(args, kwargs, 1, "axis", -1)
    if not isinstance(x, Tensor):
      return x
    shp = None
    ax = int(fr(axis)) if is_num(axis) else None
    if x.shape is not None and ax is not None:
      r = len(x.shape) + 1
      k = ax % r
      shp = tuple(x.shape[:k]) + (1,) + tuple(x.shape[k:])
    return T(pe, ("app", "expand_dims", (ax,), (x.term,)), shp)
  if name in ("tf.tile", "K.tile", "np.tile"):
    x = arg(args, kwargs, 0, "input", kwargs.get("x"))
    mult = arg(args, kwargs, 1, "multiples", kwargs.get("n"))
    if not isinstance(x, Tensor):
      return x
    ms = tuple(int(fr(m)) for m in pe.iterate(mult)) if isinstance(
        mult, (list, tuple, ShapeV)) else None
    shp = None
    if x.shape is not None and ms is not None and len(ms) == len(x.shape):
      shp = tuple(d * m for d, m in zip(x.shape, ms))
    return T(pe, ("app", "tile", (ms,), (x.term,)), shp)
  if name == "tf.repeat" or name == "K.repeat_elements" or \
      name == "np.repeat":
    x = arg(args, kwargs, 0, "input", kwargs.get("x"))
    rep = arg(args, kwargs, 1, "repeats", kwargs.get("rep"))
    axis = arg(args, kwargs, 2, "axis")
    if not isinstance(x, Tensor):
      return x
    shp = None
    if x.shape is not None and axis is not None:
      shp = tuple(d * int(fr(rep)) if i == int(fr(axis)) % len(x.shape)
                  else d for i, d in enumerate(x.shape))
    return T(pe, ("app", "repeat", (int(fr(rep)) if is_num(rep) else None,
                                    int(fr(axis)) if axis is not None
                                    else None), (x.term,)), shp)
  if name in ("tf.concat", "K.concatenate", "np.concatenate"):
    vals = pe.iterate(args[0])
    if all(isinstance(v, (list, tuple)) for v in vals):
      out = NArr() if vals and all(isinstance(v, NArr) for v in vals) else []
      for v in vals:
        out.extend(v)
      return out
    return T(pe, ("app", "concat", (), tuple(pe.as_term(v) for v in vals)),
             None)
  if name in ("tf.math.multiply", "tf.multiply", "np.multiply"):
    return pe.binop(ast.Mult(), args[0], args[1])
  if name in ("tf.math.add", "tf.add", "np.add"):
    return pe.binop(ast.Add(), args[0], args[1])
  if name in ("tf.math.subtract", "tf.subtract", "np.subtract"):
    return pe.binop(ast.Sub(), args[0], args[1])
  if name in ("tf.math.divide", "tf.divide", "tf.truediv", "np.divide",
              "tf.math.truediv"):
    return pe.binop(ast.Div(), args[0], args[1])
  if name in ("tf.math.divide_no_nan",):
    return pe.binop(ast.Div(), args[0], args[1])
  if name in ("K.epsilon", "tf.keras.backend.epsilon"):
    return mkfloat(Fraction(1, 10**7))
  if name in ("K.floatx",):
    return "float32"
  if name in ("K.image_data_format",):
    return pe.image_data_format
  if name in ("K.learning_phase",):
    return Tensor(("sym", "learning_phase"), ())
  if name in ("tf_utils.smart_cond", "tf.cond", "K.in_train_phase",
              "tf_utils.smart_cond.smart_cond"):
    if name == "K.in_train_phase":
      a, b = args[0], args[1]
      pred = Tensor(("sym", "learning_phase"), ())
    else:
      pred = arg(args, kwargs, 0, "pred")
      a = arg(args, kwargs, 1, "true_fn")
      b = arg(args, kwargs, 2, "false_fn")
    def run(f):
      return pe.call(f, [], {}) if isinstance(f, (Func, Obj)) else f
    if not isinstance(pred, Tensor):
      return run(a) if pe.truth(pred) else run(b)
    if pred.term != ("sym", "learning_phase"):
      va, vb = run(a), run(b)
      return where(pe, pred, va, vb)
    def run_arm(f):
      try:
        return run(f)
      except PyRaise as e:
        # this arm rejects the configuration; the other may still be valid
        return Tensor(("sym", "RAISES<%s>" % e.exc_name), None)
    # each arm starts from the state before the conditional; attributes
    # the arms leave different become phase-dependent values
    from .pe import _MISSING
    def run_logged(f):
      saved, pe.arm_log = pe.arm_log, {}
      try:
        v = run_arm(f)
      finally:
        log, pe.arm_log = pe.arm_log, saved
      post = {}
      for k, (o, n, old) in log.items():
        post[k] = o.attrs.get(n, _MISSING)
        if old is _MISSING:
          o.attrs.pop(n, None)
        else:
          o.attrs[n] = old
      return v, log, post
    va, log_a, post_a = run_logged(a)
    vb, log_b, post_b = run_logged(b)
    for k in list(log_a) + [k for k in log_b if k not in log_a]:
      o, n, old = log_a[k] if k in log_a else log_b[k]
      xa = post_a.get(k, old)
      xb = post_b.get(k, old)
      if xb is _MISSING:
        new = xa
      elif xa is _MISSING or xa is xb:
        new = xb
      else:
        new = xb
        if (isinstance(xa, Tensor) or is_num(xa)) and \
           (isinstance(xb, Tensor) or is_num(xb)):
          ta, tb = pe.as_term(xa), pe.as_term(xb)
          if ta != tb:
            new = T(pe, ("phase", ta, tb), shape_of(xa, xb))
      if new is not _MISSING:
        pe.setattr(o, n, new)
    return T(pe, ("phase", pe.as_term(va), pe.as_term(vb)),
             shape_of(va, vb))
  if name == "tf.while_loop":
    cond = arg(args, kwargs, 0, "cond")
    body = arg(args, kwargs, 1, "body")
    lv = list(pe.iterate(arg(args, kwargs, 2, "loop_vars")))
    maxit = arg(args, kwargs, None, "maximum_iterations")
    if maxit is None or not is_num(maxit):
      pe.err("tf.while_loop without constant maximum_iterations", node)
    hist = [list(lv)]
    for _ in range(int(fr(maxit))):
      lv = list(pe.iterate(pe.call(body, list(lv), {})))
      hist.append(list(lv))
    out = []
    for i in range(len(lv)):
      alts = []
      for h in hist:
        t = pe.as_term(h[i])
        if t not in alts:
          alts.append(t)
      sh = shape_of(*[h[i] for h in hist])
      out.append(Tensor(alts[0], sh) if len(alts) == 1 else
                 T(pe, ("join",) + tuple(alts), sh))
    return tuple(out)
  if name.endswith(".__init__") and name.startswith("<external-super>"):
    return None
  if name in ("K.get_uid",):
    return 0
  if name in ("tf.py_function", "tf.function"):
    return args[0] if args else None
  if name in ("np.random.seed", "tf.random.set_seed"):
    return None
  if name in ("tf.debugging.assert_equal", "tf.debugging.Assert",
              "tf.debugging.assert_greater", "tf.debugging.assert_less"):
    return None
  if getattr(pe, "opaque_ext", False):
    return opaque_call(pe, name, args, kwargs)
  pe.err("primitive %s is not in the trusted table" % name, node)


def _freeze(v):
  if isinstance(v, (list, tuple)):
    return tuple(_freeze(e) for e in v)
  if isinstance(v, dict):
    return tuple(sorted((k, _freeze(e)) for k, e in v.items()))
  if isinstance(v, ShapeV):
    return ("shape",) + tuple(v.dims)
  if isinstance(v, (Obj, Mock, Func, ClassRef, Ext, Opaque)):
    return repr(v)
  if isinstance(v, FloatTag):
    return Fraction(v)
  return v


def _has_tensor(v):
  if isinstance(v, Tensor):
    return True
  if isinstance(v, (list, tuple)):
    return any(_has_tensor(e) for e in v)
  return False


def opaque_call(pe, name, args, kwargs):
  """Uninterpreted function: tensor operands become term arguments, every
  other argument a static attribute (so that e.g. strides / padding / axes
  can be compared by the rules)."""
  targs = []
  attrs = []
  for i, a in enumerate(args):
    if isinstance(a, Tensor):
      targs.append(a.term)
    elif _has_tensor(a):
      vec = tuple(pe.as_term(e) if isinstance(e, (Tensor, int, Fraction))
                  else ("c", None) for e in a)
      targs.append(("app", "pack", (), vec))
    else:
      attrs.append(("#%d" % i, _freeze(a)))
  for k in sorted(kwargs):
    a = kwargs[k]
    if isinstance(a, Tensor):
      targs.append(("app", "kw:" + k, (), (a.term,)))
    elif _has_tensor(a):
      vec = tuple(pe.as_term(e) if isinstance(e, (Tensor, int, Fraction))
                  else ("c", None) for e in a)
      targs.append(("app", "kw:" + k, (), (("app", "pack", (), vec),)))
    else:
      attrs.append((k, _freeze(a)))
  return T(pe, ("app", name, tuple(attrs), tuple(targs)), None)


def _is_decimal(text):
  try:
    Fraction(text)
    return True
  except (ValueError, ZeroDivisionError):
    return False


def py_repr(pe, v):
  """str()/repr() of a python-level value as CPython prints it."""
  if isinstance(v, str):
    return repr(v)
  if isinstance(v, bool) or v is None:
    return str(v)
  if isinstance(v, FloatTag):
    return repr(float(v))
  if isinstance(v, int):
    return str(v)
  if isinstance(v, Fraction):
    return repr(float(v))
  if isinstance(v, list):
    return "[" + ", ".join(py_repr(pe, e) for e in v) + "]"
  if isinstance(v, tuple):
    return "(" + ", ".join(py_repr(pe, e) for e in v) + \
        ("," if len(v) == 1 else "") + ")"
  if isinstance(v, dict):
    return "{" + ", ".join("%s: %s" % (py_repr(pe, k), py_repr(pe, e))
                           for k, e in v.items()) + "}"
  if isinstance(v, Tensor):
    return "<tensor>"
  return "<%s>" % type(v).__name__


def isinstance_(pe, v, ty):
  tys = ty if isinstance(ty, (list, tuple)) else [ty]
  for t in tys:
    if isinstance(t, ClassRef):
      if isinstance(v, Obj) and t.cls in v.cls.mro():
        return True
      if isinstance(v, Mock) and t.cls.name in v.attrs.get("__classes__",
                                                             ()):
        return True
      continue
    if isinstance(t, (list, tuple)):
      if isinstance_(pe, v, t):
        return True
      continue
    if isinstance(t, Mock):
      # a class stand-in supplied by a rule: its instances name it
      if isinstance(v, Mock) and (v.attrs.get("__class__") is t or
                                  t.name in v.attrs.get("__classes__", ()) or
                                  t.name.replace("_class", "") in
                                  v.attrs.get("__classes__", ())):
        return True
      continue
    if not isinstance(t, Ext):
      pe.err("isinstance against %r" % (t,))
    n = t.name
    if n in ("six.string_types", "str", "six.text_type"):
      if isinstance(v, str):
        return True
    elif n == "int":
      if isinstance(v, int) and not isinstance(v, bool) or \
          isinstance(v, bool):
        return True
    elif n == "float":
      # (exact fractions stand for Python floats; ints are ints)
      if isinstance(v, (FloatTag, Fraction)):
        return True
    elif n == "bool":
      if isinstance(v, bool):
        return True
    elif n == "list":
      if isinstance(v, list) and not isinstance(v, NArr):
        return True
    elif n == "tuple":
      if isinstance(v, tuple):
        return True
    elif n == "dict":
      if isinstance(v, dict):
        return True
    elif n in ("np.ndarray", "tf.Tensor", "np.generic"):
      if isinstance(v, Tensor):
        return True
      if n == "np.ndarray" and isinstance(v, (NArr, NDArr)):
        return True
    elif n in ("tf.Variable",):
      if isinstance(v, P.Var):
        return True
    elif n == "type":
      if isinstance(v, ClassRef):
        return True
    elif n in ("types.FunctionType", "types.LambdaType"):
      if isinstance(v, Func):
        return True
    elif n in ("numbers.Number",):
      if is_num(v):
        return True
    elif isinstance(v, Mock) and "__classes__" in v.attrs:
      # a rule's stand-in object that declares the classes it derives from
      if n.split(".")[-1] in v.attrs["__classes__"]:
        return True
    else:
      pe.err("isinstance against external type %s" % n)
  return False
