"""Polynomial normal form over opaque atoms (DESIGN 2.5).

An NF is a sum of monomials; a monomial is a product of atoms with integer
exponents and a Fraction coefficient.  Atoms are hashable tuples:

  ('x',)                         the abstract input tensor
  ('sym', name)                  a named scalar / tensor symbol
  ('app', fname, attrs, args)    application; args is a tuple of NFs,
                                 attrs a tuple of hashable static attributes

Two expressions built from independent atoms are equal for all values iff
their NFs are identical.  A small fixed rewrite set handles algebraically
related atoms (see `_rewrite_monomial`).
"""
from fractions import Fraction
import math


import weakref

_INTERN = weakref.WeakValueDictionary()


class NF(object):
  """Interned: structurally equal NFs are the same object, so equality and
  hashing are O(1) even for deeply shared (DAG-like) expressions."""
  __slots__ = ("terms", "_hash", "_key", "__weakref__")

  def __new__(cls, terms=None):
    # terms: dict monomial(tuple of (atom, exp) sorted by repr) -> Fraction
    t = {}
    if terms:
      for m, c in terms.items():
        if c != 0:
          t[m] = c
    key = frozenset(t.items())
    obj = _INTERN.get(key)
    if obj is not None:
      return obj
    obj = object.__new__(cls)
    obj.terms = t
    obj._key = key
    obj._hash = hash(key)
    _INTERN[key] = obj
    return obj

  def __init__(self, terms=None):
    pass

  # -- construction ----------------------------------------------------
  @staticmethod
  def const(c):
    c = Fraction(c)
    return NF({(): c}) if c != 0 else NF()

  @staticmethod
  def atom(a):
    return NF({((a, 1),): Fraction(1)})

  @staticmethod
  def x():
    return NF.atom(("x",))

  @staticmethod
  def sym(name):
    return NF.atom(("sym", name))

  @staticmethod
  def app(fname, args, attrs=()):
    if fname in ("maximum", "minimum", "or", "and"):
      # commutative: canonical argument order
      args = sorted(args, key=lambda a: (0, hash(a)) if isinstance(a, NF)
                    else (1, 0))
    return NF.atom(("app", fname, tuple(attrs), tuple(args)))

  # -- queries -----------------------------------------------------------
  def is_zero(self):
    return not self.terms

  def is_const(self):
    return all(m == () for m in self.terms)

  def const_value(self):
    if not self.terms:
      return Fraction(0)
    if self.is_const():
      return self.terms[()]
    return None

  def single_atom(self):
    """If the NF is exactly one atom (coefficient 1, exponent 1) return it."""
    if len(self.terms) == 1:
      (m, c), = self.terms.items()
      if c == 1 and len(m) == 1 and m[0][1] == 1:
        return m[0][0]
    return None

  def single_monomial(self):
    if len(self.terms) == 1:
      (m, c), = self.terms.items()
      return m, c
    return None

  def atoms(self, deep=True, _acc=None):
    acc = _acc if _acc is not None else set()
    for m in self.terms:
      for a, _ in m:
        if a not in acc:
          acc.add(a)
          if deep and a[0] == "app":
            for arg in a[3]:
              if isinstance(arg, NF):
                arg.atoms(True, acc)
    return acc

  def depends_on(self, atom):
    return atom in self.atoms()

  # -- algebra -----------------------------------------------------------
  def __add__(self, other):
    other = to_nf(other)
    t = dict(self.terms)
    for m, c in other.terms.items():
      t[m] = t.get(m, 0) + c
    return NF(t)

  __radd__ = __add__

  def __neg__(self):
    return NF({m: -c for m, c in self.terms.items()})

  def __sub__(self, other):
    return self + (-to_nf(other))

  def __rsub__(self, other):
    return to_nf(other) - self

  def __mul__(self, other):
    other = to_nf(other)
    t = {}
    for m1, c1 in self.terms.items():
      for m2, c2 in other.terms.items():
        m, k = _mul_mono(m1, m2)
        t[m] = t.get(m, 0) + c1 * c2 * k
    return NF(t)

  __rmul__ = __mul__

  def inverse(self):
    sm = self.single_monomial()
    if sm is None:
      if self.is_zero():
        raise ZeroDivisionError("NF division by zero")
      return NF.app("recip", (self,))
    m, c = sm
    inv = tuple((a, -e) for a, e in m)
    inv, k = _rewrite_monomial(dict(inv))
    return NF({inv: k / c})

  def __truediv__(self, other):
    return self * to_nf(other).inverse()

  def __rtruediv__(self, other):
    return to_nf(other) * self.inverse()

  def __pow__(self, n):
    if isinstance(n, Fraction) and n.denominator == 1:
      n = int(n)
    if not isinstance(n, int):
      raise TypeError("NF power needs an integer exponent")
    if n < 0:
      return (self ** (-n)).inverse()
    r = NF.const(1)
    for _ in range(n):
      r = r * self
    return r

  def __eq__(self, other):
    if self is other:
      return True
    if not isinstance(other, NF):
      try:
        other = to_nf(other)
      except TypeError:
        return NotImplemented
    return self is other

  def __ne__(self, other):
    r = self.__eq__(other)
    return r if r is NotImplemented else not r

  def __hash__(self):
    return self._hash

  def __repr__(self):
    return show(self)

  # -- substitution ------------------------------------------------------
  def subst(self, mapping, simplify=None, _memo=None):
    """Replace atoms by NFs (mapping: atom -> NF), recursively inside
    application arguments; `simplify(fname, attrs, args)` may fold
    applications whose arguments became constant."""
    memo = _memo if _memo is not None else {}
    r = memo.get(self)
    if r is not None:
      return r
    out = NF()
    for m, c in self.terms.items():
      term = NF.const(c)
      for a, e in m:
        term = term * (_subst_atom(a, mapping, simplify, memo) ** e)
      out = out + term
    memo[self] = out
    return out


def _subst_atom(a, mapping, simplify, memo):
  if a in mapping:
    return to_nf(mapping[a])
  if a[0] == "app":
    if a[1].startswith("reduce_") and not mapping.get("__into_reductions__"):
      # inside a reduction x is a bound variable ranging over all elements:
      # element-wise facts (sign of this element, region of x) do not apply
      return NF.atom(a)
    new_args = tuple(arg.subst(mapping, simplify, memo)
                     if isinstance(arg, NF) else arg for arg in a[3])
    if new_args != a[3]:
      if simplify is not None:
        r = simplify(a[1], a[2], new_args)
        if r is not None:
          return to_nf(r)
      return NF.app(a[1], new_args, a[2])
  return NF.atom(a)


def to_nf(v):
  if isinstance(v, NF):
    return v
  if isinstance(v, bool):
    return NF.const(int(v))
  if isinstance(v, (int, Fraction)):
    return NF.const(v)
  if isinstance(v, float):
    return NF.const(Fraction(v))
  raise TypeError("cannot convert %r to NF" % (v,))


_AKEYS = {}


def _akey(a):
  """Deterministic, cheap ordering key of an atom (never a deep repr)."""
  if a[0] == "x":
    return (0, "x", 0)
  if a[0] == "sym":
    return (1, str(a[1]), 0)
  # applications: name, attrs, then the (cached) hashes of the argument NFs;
  # hashes of interned NFs derive from Fractions/strings only, so the order
  # is reproducible within a run, and monomial identity does not depend on
  # it (monomials are compared as sorted tuples built with the same key)
  return (2, str(a[1]) + str(a[2]), hash(a))


def _mul_mono(m1, m2):
  d = dict(m1)
  for a, e in m2:
    d[a] = d.get(a, 0) + e
  return _rewrite_monomial(d)


def _is_app(a, name):
  return a[0] == "app" and a[1] == name


def _rewrite_monomial(d):
  """Fixed rewrite set for algebraically related atoms.  Returns
  (monomial, coefficient factor)."""
  k = Fraction(1)
  changed = True
  while changed:
    changed = False
    d = {a: e for a, e in d.items() if e != 0}
    atoms = list(d)
    # sqrt(t)^2 -> t is not expanded (t may be a polynomial); instead pair
    # sqrt(t) * rsqrt(t) -> 1 and rsqrt(t)^2 kept.
    for a in atoms:
      if a not in d:
        continue
      if _is_app(a, "sqrt"):
        r = ("app", "rsqrt", a[2], a[3])
        if r in d and d[a] > 0 and d[r] > 0:
          n = min(d[a], d[r])
          d[a] -= n
          d[r] -= n
          changed = True
      # x^-1 for atom rsqrt -> sqrt ; sqrt^-1 -> rsqrt
      if _is_app(a, "rsqrt") and d.get(a, 0) < 0:
        s = ("app", "sqrt", a[2], a[3])
        d[s] = d.get(s, 0) - d[a]
        d[a] = 0
        changed = True
      if _is_app(a, "sqrt") and d.get(a, 0) < 0:
        s = ("app", "rsqrt", a[2], a[3])
        d[s] = d.get(s, 0) - d[a]
        d[a] = 0
        changed = True
      # recip(t)^-1 stays; recip(t) with negative exponent kept as is
    # pow2(a) * pow2(b) -> pow2(a + b); pow2(a)^-1 -> pow2(-a)
    p2 = [a for a in d if _is_app(a, "pow2") and d[a] != 0]
    if len(p2) > 1 or any(d[a] != 1 for a in p2):
      total = NF()
      for a in p2:
        total = total + a[3][0] * d[a]
        d[a] = 0
      cv = total.const_value()
      if cv is not None and cv.denominator == 1:
        k *= Fraction(2) ** int(cv)
      else:
        na = ("app", "pow2", (), (total,))
        d[na] = d.get(na, 0) + 1
      changed = True
    # log(t) * ln2^-1 -> log2(t)
    ln2 = ("sym", "ln2")
    if d.get(ln2, 0) < 0:
      for a in list(d):
        if _is_app(a, "log") and d.get(a, 0) > 0 and d.get(ln2, 0) < 0:
          n = min(d[a], -d[ln2])
          d[a] -= n
          d[ln2] += n
          na = ("app", "log2", a[2], a[3])
          d[na] = d.get(na, 0) + n
          changed = True
  d = {a: e for a, e in d.items() if e != 0}
  return tuple(sorted(d.items(), key=lambda ae: _akey(ae[0]))), k


# ---------------------------------------------------------------------------
# printing

def _show_frac(c):
  return str(c.numerator) if c.denominator == 1 else "%d/%d" % (
      c.numerator, c.denominator)


class _Budget(object):
  def __init__(self, n):
    self.n = n


def show_atom(a, budget=None):
  budget = budget or _Budget(4000)
  if budget.n <= 0:
    return "..."
  if a[0] == "x":
    return "x"
  if a[0] == "sym":
    return str(a[1])
  if a[0] == "app":
    attrs = ""
    if a[2]:
      attrs = "{" + ",".join(str(t) for t in a[2]) + "}"
    budget.n -= len(a[1]) + 2
    return "%s%s[%s]" % (a[1], attrs, ", ".join(
        _show(arg, budget) if isinstance(arg, NF) else str(arg)
        for arg in a[3]))
  return repr(a)


def show(nf, limit=2000):
  s = _show(nf, _Budget(limit))
  if len(s) > limit:
    s = s[:limit] + "..."
  return s


def _mono_key(mc):
  m = mc[0]
  return (len(m), tuple((a[0], a[1] if len(a) > 1 and isinstance(a[1], str)
                         else "", e) for a, e in m), mc[1])


def _show(nf, budget):
  if not nf.terms:
    return "0"
  if budget.n <= 0:
    return "..."
  parts = []
  for m, c in sorted(nf.terms.items(), key=_mono_key):
    fs = []
    for a, e in m:
      s = show_atom(a, budget)
      budget.n -= len(s) if len(s) < 40 else 40
      fs.append(s if e == 1 else "%s^%d" % (s, e))
    if not fs:
      parts.append(_show_frac(c))
    elif c == 1:
      parts.append("*".join(fs))
    elif c == -1:
      parts.append("-" + "*".join(fs))
    else:
      parts.append(_show_frac(c) + "*" + "*".join(fs))
  return " + ".join(parts).replace("+ -", "- ")


def log2_exact(c):
  """Exact integer log2 of a positive Fraction that is a power of two,
  else None."""
  c = Fraction(c)
  if c <= 0:
    return None
  n, d = c.numerator, c.denominator
  if n & (n - 1) == 0 and d & (d - 1) == 0:
    return n.bit_length() - 1 - (d.bit_length() - 1)
  return None


def log2_bounds(c):
  """(lo, hi) Fractions with lo <= log2(c) <= hi (exact when c is 2^k)."""
  e = log2_exact(c)
  if e is not None:
    return Fraction(e), Fraction(e)
  v = math.log2(float(c))
  delta = Fraction(1, 10**9)
  return Fraction(v) - delta, Fraction(v) + delta
