"""Findings, known-findings matching, evidence files, exit codes."""
import json
import os
import sys
import time
import traceback

from .loader import AnalysisError, repo_root

VERIF_DIR = os.path.dirname(os.path.dirname(os.path.abspath(__file__)))
EVIDENCE_DIR = os.environ.get("QKSTAT_EVIDENCE_DIR",
                              os.path.join(VERIF_DIR, "evidence"))
KNOWN_FINDINGS = os.path.join(VERIF_DIR, "known_findings.json")


class Finding(object):
  """A violated obligation.  Keyed by (property, rule, unit, construct);
  the line number is for the reader only."""

  def __init__(self, rule, unit, construct, message, loc=None, facts=None):
    self.rule = rule
    self.unit = unit
    self.construct = construct
    self.message = message
    self.loc = loc
    self.facts = facts or {}
    self.instances = []   # configuration points at which it was observed

  def key(self, prop):
    return (prop, self.rule, self.unit, self.construct)

  def as_dict(self, prop):
    return {"property": prop, "rule": self.rule, "unit": self.unit,
            "construct": self.construct, "message": self.message,
            "loc": self.loc, "facts": self.facts,
            "instances": self.instances}


class Report(object):
  """Collects obligations and findings of one property check."""

  def __init__(self, prop, tier):
    self.prop = prop
    self.tier = tier
    self.obligations = 0
    self.discharged = 0
    self.findings = []
    self.samples = []
    self.units = []
    self.rule_counts = {}
    self.notes = []
    self.trusted = []
    self.assumptions = []
    self.min_instances = {}   # rule -> minimum confirmed by hand
    self.extra = {}
    self._seen = set()

  # -- obligations -------------------------------------------------------
  def ok(self, rule, n=1):
    self.obligations += n
    self.discharged += n
    self.rule_counts[rule] = self.rule_counts.get(rule, 0) + n

  def fail(self, rule, unit, construct, message, loc=None, facts=None,
           instance=None, observed=None):
    """Records a violated obligation.  `instance` names the configuration
    point; the same (rule, unit, construct) seen at several points is one
    finding carrying all its instances.  `observed` (what the code did at
    that point) becomes part of the instance, so that a recorded finding
    only covers the recorded misbehaviour: a different wrong result at the
    same point is a new instance."""
    if observed is not None:
      instance = "%s => %s" % (instance if instance is not None else
                               "(no configuration)", observed)
    self.obligations += 1
    self.rule_counts[rule] = self.rule_counts.get(rule, 0) + 1
    f = Finding(rule, unit, construct, message, loc, facts)
    k = f.key(self.prop)
    if k in self._seen:
      for g in self.findings:
        if g.key(self.prop) == k:
          if instance is not None and instance not in g.instances:
            g.instances.append(instance)
      return
    self._seen.add(k)
    if instance is not None:
      f.instances.append(instance)
    self.findings.append(f)

  def check(self, cond, rule, unit, construct, message, loc=None, facts=None,
            instance=None, observed=None):
    if cond:
      self.ok(rule)
    else:
      self.fail(rule, unit, construct, message, loc, facts, instance,
                observed)
    return cond

  def sample(self, obj, limit=12):
    if len(self.samples) < limit:
      self.samples.append(obj)

  def unit(self, name):
    if name not in self.units:
      self.units.append(name)

  def require_instances(self, rule, minimum):
    self.min_instances[rule] = minimum


def load_known():
  if not os.path.exists(KNOWN_FINDINGS):
    return []
  with open(KNOWN_FINDINGS) as f:
    return json.load(f)["findings"]


def run_check(prop, tier, fn, level="other", technique=""):
  """Runs `fn(report)`; prints the outcome; writes evidence; returns exit
  status 0 / 1 / 2."""
  t0 = time.time()
  seed = int(os.environ.get("VERIF_SEED", "0") or 0)
  rep = Report(prop, tier)
  incomplete = None
  os.makedirs(EVIDENCE_DIR, exist_ok=True)
  evidence_path = os.path.join(EVIDENCE_DIR, "%s.json" % prop)
  try:
    fn(rep)
    if not rep.findings:
      # a run without findings must not be vacuous; a run with findings is
      # reported as such whatever the instance counts are
      for rule, minimum in sorted(rep.min_instances.items()):
        got = rep.rule_counts.get(rule, 0)
        if got < minimum:
          raise AnalysisError(
              "instance-count rule %s matched %d instances, fewer than the "
              "%d confirmed by hand on the reference tree (vacuous pass "
              "refused)" % (rule, got, minimum))
  except AnalysisError as e:
    if not rep.findings:
      print("ANALYSIS-ERROR property=%s %s" % (prop, e))
      _write_evidence(evidence_path, rep, level, seed, t0, technique,
                      status="analysis-error: %s" % e)
      return 2
    # the run could not be completed, but rules that did run found
    # something: those findings are reported (a violation of a rule does not
    # become 'no verdict' because a later rule could not be evaluated)
    incomplete = str(e)
    print("ANALYSIS-NOTE property=%s run incomplete after %d finding(s): %s"
          % (prop, len(rep.findings), e))
  except Exception as e:  # pylint: disable=broad-except
    tb = traceback.format_exc()
    sys.stderr.write(tb)
    print("ANALYSIS-ERROR property=%s internal %s: %s" %
          (prop, type(e).__name__, e))
    _write_evidence(evidence_path, rep, level, seed, t0, technique,
                    status="analysis-error: internal %s" % e)
    return 2

  dump = os.environ.get("QKSTAT_DUMP")
  if dump:
    with open(dump, "w") as fh:
      json.dump([f.as_dict(prop) for f in rep.findings], fh, indent=1,
                default=str)
  known = load_known()
  known_idx = {}
  for k in known:
    if k.get("status") == "known":
      known_idx[(k["property"], k["rule"], k["unit"], k["construct"])] = k
  violations = []
  known_hits = []
  for f in rep.findings:
    k = f.key(prop)
    if k in known_idx:
      listed = known_idx[k].get("instances")
      if listed is not None and f.instances:
        extra = [i for i in f.instances if i not in listed]
        if extra:
          # the known defect now shows at configuration points that were not
          # listed: that part is a new violation
          g = Finding(f.rule, f.unit, f.construct,
                      f.message + " (at configuration points not listed in "
                      "known_findings.json)", f.loc, dict(f.facts))
          g.instances = extra
          violations.append(g)
          f.instances = [i for i in f.instances if i in listed]
          if not f.instances:
            continue
      known_hits.append((f, known_idx[k]))
    else:
      violations.append(f)

  for f, k in known_hits:
    print("KNOWN-FINDING: property=%s %s %s %s -- %s" %
          (prop, f.rule, f.unit, f.construct, k.get("what_fails", f.message)))
  replay_dir = os.path.join(EVIDENCE_DIR, "replay")
  n = 0
  for f in violations:
    n += 1
    os.makedirs(replay_dir, exist_ok=True)
    path = os.path.join(replay_dir, "%s-%d.json" % (prop, n))
    d = f.as_dict(prop)
    d["replay_cmd"] = ("cd %s && /venv/bin/python -m qkstat.check --property "
                       "%s --tier %s" % (VERIF_DIR, prop, tier))
    d["repo"] = repo_root()
    with open(path, "w") as fh:
      json.dump(d, fh, indent=1, sort_keys=True, default=str)
    print("FINDING %s %s %s at %s: %s%s" %
          (f.rule, f.unit, f.construct, f.loc, f.message,
           (" [instances: %s%s]" % ("; ".join(f.instances[:4]),
                                    " ... %d in all" % len(f.instances)
                                    if len(f.instances) > 4 else ""))
           if f.instances else ""))
    print("VIOLATION property=%s replay=%s" % (prop, path))
  rep.extra["known_findings_matched"] = [
      "%s %s %s" % (f.rule, f.unit, f.construct) for f, _ in known_hits]
  if incomplete is not None and not violations:
    # only known findings so far and the run did not finish: no verdict
    print("ANALYSIS-ERROR property=%s %s" % (prop, incomplete))
    _write_evidence(evidence_path, rep, level, seed, t0, technique,
                    status="analysis-error: %s" % incomplete)
    return 2
  _write_evidence(evidence_path, rep, level, seed, t0, technique,
                  status="ok" if not violations else "violations",
                  violations=len(violations))
  print("%s tier=%s obligations=%d discharged=%d known=%d violations=%d "
        "wall=%.1fs" % (prop, tier, rep.obligations, rep.discharged,
                        len(known_hits), len(violations), time.time() - t0))
  return 1 if violations else 0


def _write_evidence(path, rep, level, seed, t0, technique, status,
                    violations=0):
  samples = rep.samples or [{"note": "no sample recorded", "status": status}]
  cov = {
      "explanation": (
          "Static analysis of %s's working tree (ast only; nothing from the "
          "repository is imported or executed). %s Each obligation is one "
          "rule instance (rule x unit x configuration point) decided on the "
          "syntax tree / the derived IR; status=%s." %
          (repo_root(), technique, status)),
      "obligations": rep.obligations,
      "discharged": rep.discharged,
      "evaluations": max(rep.obligations, 1),
      "distinct_nontrivial": max(len(rep._seen) + rep.discharged, 2)
      if rep.obligations >= 2 else 2,
      "rule": ("one evaluation = one rule instance; all are distinct (rule, "
               "unit, configuration point) triples enumerated by the "
               "checker; a rule matching fewer instances than confirmed by "
               "hand aborts the run"),
      "rule_instances": rep.rule_counts,
      "units_analysed": rep.units,
      "samples": samples,
      "checker_cmd": "/venv/bin/python -m qkstat.check --property %s --tier %s"
                     % (rep.prop, rep.tier),
      "trusted_base": rep.trusted,
      "exhaustive": True,
      "notes": rep.notes,
  }
  cov.update(rep.extra)
  ev = {
      "property_id": rep.prop,
      "tier": rep.tier if rep.tier in ("quick", "thorough") else "quick",
      "seed": seed,
      "level": level,
      "coverage": cov,
      "assumptions": rep.assumptions,
      "wall_s": round(time.time() - t0, 3),
      "violations": violations,
  }
  tmp = path + ".tmp"
  with open(tmp, "w") as f:
    json.dump(ev, f, indent=1, sort_keys=True, default=str)
  os.replace(tmp, path)
