"""C07 - qnoise_factor interpolation and the scheduler.

R1 mixing identity: with the factor kept symbolic (f), the forward normal
   form F_f of every return site satisfies F_f == F_0 + f*(F_1 - F_0) and
   F_0 is the documented surrogate (as a function), for use_ste on and off.
R2 single source of the factor: __call__ reads it only through
   self.qnoise_factor; update_qnoise_factor stores into self.qnoise_factor on
   every path; build() re-binds it to a variable initialised from the
   current value.
R3 schedule shape: all paths of calculate_qnoise_factor: 0 before start,
   1 after finish, the middle piece is 0 at start, 1 at finish and monotone.
R4 every path through QNoiseScheduler.update_qnoise_factor increments
   num_iters exactly once; both hooks pass initial_step_or_epoch + num_iters.
R5 every layer class that owns quantizers exposes them under the attribute
   names the scheduler reads (`quantizers` / `quantizer`).
R6 the callback interpreted end to end (own __init__, synthetic model,
   on_train_begin, sequences of batch / epoch hooks incl. a repeated
   on_train_begin and Keras restarting the counter it passes): exactly the
   knob quantizers are driven, at every update step, with 0 before start, 1
   from finish on, values in [0, 1] that never decrease.
"""
import ast
from fractions import Fraction as F

from ..loader import AnalysisError
from ..pe import (ConfigRejected, PE, Tensor, Obj, explore, PyRaise, Func,
                  show_term, Var, Mock, Unsupported)
from .. import qref, quant, pwa
from ..qir import Fwd, mk_app, simplify_app, Eval, Env
from ..nf import NF, show
from ..vset import VS
from .c02 import same_function

TECHNIQUE = ("Polynomial normal-form identity in the symbolic factor f; "
             "all-paths symbolic evaluation of the scheduler with polarity "
             "analysis; writer/reader agreement of layer attributes.")

FATOM = ("sym", "f")
KNOB_CLASSES = ("quantized_linear", "quantized_bits", "quantized_relu",
                "quantized_po2", "quantized_relu_po2", "quantized_hswish")


def rule_mixing(rep, repo, mod, tier):
  n = 0
  for cls, kw in qref.lattice_all(tier):
    if cls not in KNOB_CLASSES:
      continue
    cfg = "%s(%s)" % (cls, qref.show_kwargs(kw))
    unit = "%s::%s.__call__" % (mod.relpath, cls)
    try:
      b = quant.build(repo, cls, kw)
    except ConfigRejected:
      continue
    rep.unit(unit)
    loc = b.pe.loc_of(b.term)
    phases = ["infer"] + (["train"] if qref.has_phase(b.term) else [])
    for ph in phases:
      ff = Fwd(ph)(b.term)
      f0 = ff.subst({FATOM: NF.const(0)}, simplify_app)
      f1 = ff.subst({FATOM: NF.const(1)}, simplify_app)
      n += 1
      facts = {"config": cfg, "phase": ph, "F_f": show(ff, 300),
               "F_0": show(f0, 200), "F_1": show(f1, 300)}
      rep.check(ff == f0 + NF.atom(FATOM) * (f1 - f0), "R1", unit,
                "not-affine-interpolation",
                "forward value is not s + f*(q - s): F_f = %s" %
                show(ff, 300), loc=loc, instance=cfg, facts=facts)
      rep.check(not f1.depends_on(FATOM) and ff.depends_on(FATOM), "R1",
                unit, "factor-unused",
                "the output does not depend on qnoise_factor", loc=loc,
                instance=cfg, facts=facts)
      s = Fwd(ph)(qref.surrogate_term(cls, kw))
      d = same_function(f0, s, None, None)
      rep.check(d is None, "R1", unit, "f=0-is-not-the-surrogate",
                "with f=0 the output is %s, the documented unquantized "
                "surrogate is %s (%s)" % (show(f0, 200), show(s, 200), d),
                loc=loc, instance=cfg, facts=facts)
      if n % 173 == 1:
        rep.sample(facts)
  rep.extra["mixing_points"] = n


def attr_reads(fn, attr):
  out = []
  for node in ast.walk(fn):
    if isinstance(node, ast.Attribute) and node.attr == attr and \
        isinstance(node.ctx, ast.Load):
      out.append(node)
  return out


def rule_single_source(rep, repo, mod):
  qm = mod
  bq = repo.module("qkeras.base_quantizer")
  base = bq.classes.get("BaseQuantizer")
  if base is None:
    raise AnalysisError("anchor-missing class qkeras.base_quantizer."
                        "BaseQuantizer")
  for cname in KNOB_CLASSES:
    ci = qm.classes[cname]
    unit = "%s::%s" % (qm.relpath, cname)
    owner, init = ci.find_method("__init__")
    # the constructor parameter is stored in self.qnoise_factor, either
    # directly or by forwarding it to the parent constructor
    params = [p for p, _ in ci.init_params()[0]]
    ok = False
    for c in ci.mro():
      fn = c.methods.get("__init__")
      if fn is None:
        continue
      for node in ast.walk(fn):
        if isinstance(node, ast.Assign):
          for t in node.targets:
            if isinstance(t, ast.Attribute) and t.attr == "qnoise_factor" \
                and isinstance(t.value, ast.Name) and t.value.id == "self" \
                and any(isinstance(x, ast.Name) and
                        x.id == "qnoise_factor"
                        for x in ast.walk(node.value)):
              # (stored directly or through an expression of the parameter;
              # WHICH value is stored is decided by R9 on constants)
              ok = True
    rep.check("qnoise_factor" in params and ok, "R2", unit,
              "ctor-does-not-store-factor",
              "constructor parameter qnoise_factor is not stored in "
              "self.qnoise_factor", loc=owner.module.loc(init))
    # __call__ (and what it calls on self) reads the factor only through
    # self.qnoise_factor: covered semantically by R1 (F_f depends on f and
    # is affine in it) -- here: no other attribute carries a copy
    for c in ci.mro():
      for mname, fn in c.methods.items():
        for node in ast.walk(fn):
          if isinstance(node, ast.Assign) and \
              isinstance(node.value, ast.Attribute) and \
              node.value.attr == "qnoise_factor" and mname != "build":
            for t in node.targets:
              if isinstance(t, ast.Attribute) and t.attr != "qnoise_factor":
                rep.fail("R2", unit, "factor-copied-to:" + t.attr,
                         "self.qnoise_factor is copied into another "
                         "attribute; later updates would not reach it",
                         loc=c.module.loc(node))
  # update_qnoise_factor: all paths store / assign self.qnoise_factor
  unit = "%s::BaseQuantizer.update_qnoise_factor" % bq.relpath
  fn = base.methods.get("update_qnoise_factor")
  if fn is None:
    raise AnalysisError("anchor-missing method BaseQuantizer."
                        "update_qnoise_factor")
  rep.unit(unit)

  def paths_store(stmts):
    """True when every path through stmts stores to self.qnoise_factor
    (assignment, or .assign(...) on it)."""
    for st in stmts:
      if isinstance(st, ast.Assign):
        for t in st.targets:
          if isinstance(t, ast.Attribute) and t.attr == "qnoise_factor":
            return True
      if isinstance(st, ast.Expr) and isinstance(st.value, ast.Call):
        f = st.value.func
        if isinstance(f, ast.Attribute) and f.attr == "assign" and \
            isinstance(f.value, ast.Attribute) and \
            f.value.attr == "qnoise_factor":
          return True
      if isinstance(st, ast.If):
        if paths_store(st.body) and paths_store(st.orelse):
          return True
      if isinstance(st, ast.Return):
        return False
    return False
  rep.check(paths_store(fn.body), "R2", unit, "path-without-store",
            "some path through update_qnoise_factor leaves "
            "self.qnoise_factor unchanged", loc=bq.loc(fn))
  # the stored value is the argument (possibly .eval()/.numpy() of it)
  srcs = []
  for node in ast.walk(fn):
    val = None
    if isinstance(node, ast.Assign) and any(
        isinstance(t, ast.Attribute) and t.attr == "qnoise_factor"
        for t in node.targets):
      val = node.value
    if isinstance(node, ast.Call) and isinstance(node.func, ast.Attribute) \
        and node.func.attr == "assign" and node.args:
      val = node.args[0]
    if val is not None:
      names = {n.id for n in ast.walk(val) if isinstance(n, ast.Name)}
      srcs.append(("qnoise_factor" in names, ast.unparse(val)))
  rep.check(bool(srcs) and all(ok for ok, _ in srcs), "R2", unit,
            "stored-value-not-the-argument",
            "a store to self.qnoise_factor does not take the argument: %s" %
            [s for _, s in srcs], loc=bq.loc(fn))
  # build(): variable initialised from the current value (interpreted)
  unit = "%s::BaseQuantizer.build" % bq.relpath
  rep.unit(unit)
  pe = PE(repo)
  cls = pe.lookup_global("quantized_bits", qm)
  obj = pe.call(cls, [], {"qnoise_factor": Tensor(FATOM, ()),
                          "use_variables": True})
  try:
    pe.call(pe.getattr(obj, "build"), [], {"use_variables": True})
  except PyRaise as e:
    rep.fail("R2", unit, "build-raises", "build(use_variables=True) raises "
             "%s" % e)
    return
  v = obj.attrs.get("qnoise_factor")
  rep.check(isinstance(v, Var) and Fwd()(v.term) == NF.atom(FATOM), "R2",
            unit, "variable-not-initialised-from-current-value",
            "after build(use_variables=True) self.qnoise_factor is %r, not "
            "a variable holding the previous value" % (v,),
            loc=bq.loc(base.methods["build"]))
  rep.check(obj.attrs.get("built") is True, "R2", unit, "built-flag",
            "build() does not set self.built", loc=bq.loc(
                base.methods["build"]))
  # multi-step: a quantizer that was already called (built with python-float
  # storage) is handed to the scheduler; after set_quantizers its factor
  # must be variable-backed, and set_qnoise_factor must write into that same
  # variable (a traced training step reads the variable, not the attribute)
  cb, sc = sched_class(repo)
  for qcls in KNOB_CLASSES:
    pe = PE(repo)
    q = pe.call(pe.lookup_global(qcls, qm), [], {})
    try:
      pe.call(q, [pe.x_input()], {})
    except PyRaise:
      continue
    unit2 = "%s::QNoiseScheduler.set_quantizers" % cb.relpath
    rep.check(not isinstance(q.attrs.get("qnoise_factor"), Var), "R2", unit2,
              "float-mode-expected",
              "a quantizer called without use_variables should keep a plain "
              "factor", instance=qcls)
    s_obj = make_sched(pe, cb, sc)
    s_obj.attrs["quantizers"] = [q]
    try:
      pe.call(pe.getattr(s_obj, "set_quantizers"), [], {})
    except PyRaise as e:
      rep.fail("R2", unit2, "set_quantizers-raises", "raises %s" % e,
               instance=qcls)
      continue
    v = q.attrs.get("qnoise_factor")
    rep.check(isinstance(v, Var), "R2", unit2,
              "built-quantizer-not-converted-to-variable",
              "after set_quantizers() the qnoise_factor of an already built "
              "%s is %r, not a tf.Variable: later updates only rebind a "
              "python attribute and never reach a traced training step" %
              (qcls, v), loc=cb.loc(sc.methods["set_quantizers"]),
              instance=qcls)
    if isinstance(v, Var):
      rep.check(Fwd()(v.term) == NF.const(0), "R2", unit2,
                "pretraining-factor-not-zero",
                "set_quantizers must start from qnoise_factor 0, got %s" %
                show(Fwd()(v.term)), instance=qcls)
      g = Tensor(("sym", "g"), ())
      pe.call(pe.getattr(s_obj, "set_qnoise_factor"), [q, g], {})
      v2 = q.attrs.get("qnoise_factor")
      rep.check(v2 is v and Fwd()(v.term) == NF.sym("g"), "R2", unit2,
                "update-does-not-write-the-variable",
                "set_qnoise_factor(q, g) leaves the variable holding %s "
                "(same object: %s)" % (show(Fwd()(v.term)), v2 is v),
                instance=qcls)
      rep.check(s_obj.attrs.get("qnoise_factor") is g or
                isinstance(s_obj.attrs.get("qnoise_factor"), Tensor), "R2",
                unit2, "callback-factor-not-recorded",
                "the callback does not record the factor it applied",
                instance=qcls)


  # a quantizer CONSTRUCTED with use_variables=True: once it has been called
  # (the lazy build) its factor is a variable initialised from the
  # constructor's value, update_qnoise_factor(g) writes that same variable,
  # and the next call blends with g
  for qcls in KNOB_CLASSES:
    ci = qm.classes.get(qcls)
    if ci is None or "use_variables" not in [p_ for p_, _ in
                                             ci.init_params()[0]]:
      continue
    unit3 = "%s::%s" % (qm.relpath, qcls)
    pe = PE(repo)
    try:
      q = pe.call(pe.lookup_global(qcls, qm), [], {
          "use_variables": True, "qnoise_factor": F(1, 4)})
      pe.call(q, [pe.x_input()], {})
    except PyRaise:
      continue
    v = q.attrs.get("qnoise_factor")
    rep.check(isinstance(v, Var) and Fwd()(v.term) == NF.const(F(1, 4)),
              "R2", unit3, "use_variables-ignored",
              "%s(use_variables=True, qnoise_factor=1/4) holds %r as its "
              "factor after the first call, not a tf.Variable with that "
              "value: update_qnoise_factor() then only rebinds a python "
              "attribute and never reaches a traced step" % (qcls, v),
              loc=ci.loc(), instance=qcls)
    if isinstance(v, Var):
      g = Tensor(("sym", "g"), ())
      try:
        pe.call(pe.getattr(q, "update_qnoise_factor"), [g], {})
        out = pe.call(q, [pe.x_input()], {})
      except PyRaise as e:
        rep.fail("R2", unit3, "update-raises", "raises %s" % e,
                 instance=qcls)
        continue
      rep.check(q.attrs.get("qnoise_factor") is v and
                Fwd()(v.term) == NF.sym("g") and
                Fwd()(out.term).depends_on(("sym", "g")), "R2", unit3,
                "update-does-not-write-the-variable",
                "%s(use_variables=True): after update_qnoise_factor(g) the "
                "variable holds %s (same object: %s) and the next output "
                "%s g" % (qcls, show(Fwd()(v.term)),
                          q.attrs.get("qnoise_factor") is v,
                          "reads" if Fwd()(out.term).depends_on(
                              ("sym", "g")) else "does not read"),
                loc=ci.loc(), instance=qcls)


def rule_scheduler_state_is_per_instance(rep, repo):
  """R7: two schedulers in one process do not share their step counter (or
  any other state the hooks update).  Syntax-tree rule over the classes of
  qkeras/callbacks.py: an attribute that a method updates in place
  (`self.x += ...`, `self.x[...] = ...`, `self.x.append(...)` and the like)
  must not live in a class-level default that is a mutable value (a list /
  dict / set literal, or any constructor call such as np.array(...)): an
  in-place update of such a default changes it for every instance.  Plain
  constants (numbers, None, strings, tuples) as class-level defaults are
  fine - `self.x += 1` rebinds them on the instance."""
  import ast
  cb = repo.module("qkeras.callbacks")
  n = 0
  for cname, ci in sorted(cb.classes.items()):
    mutable_defaults = {}
    for st in ci.node.body:
      if isinstance(st, (ast.Assign, ast.AnnAssign)) and st.value is not None:
        tgts = st.targets if isinstance(st, ast.Assign) else [st.target]
        if isinstance(st.value, (ast.List, ast.Dict, ast.Set, ast.Call,
                                 ast.ListComp, ast.DictComp)):
          for t in tgts:
            if isinstance(t, ast.Name):
              mutable_defaults[t.id] = st
    updated = {}
    for fn in ci.node.body:
      if not isinstance(fn, ast.FunctionDef):
        continue
      assigned_here = {t.attr for x in ast.walk(fn) if isinstance(
          x, ast.Assign) for t in x.targets if isinstance(t, ast.Attribute)
                       and isinstance(t.value, ast.Name) and
                       t.value.id == "self"}
      for x in ast.walk(fn):
        tgt = None
        if isinstance(x, ast.AugAssign):
          tgt = x.target
        elif isinstance(x, ast.Assign) and isinstance(x.targets[0],
                                                      ast.Subscript):
          tgt = x.targets[0].value
        elif isinstance(x, ast.Call) and isinstance(x.func, ast.Attribute) \
            and x.func.attr in ("append", "extend", "update", "add",
                                "setdefault", "pop", "clear", "assign_add"):
          tgt = x.func.value
        if isinstance(tgt, ast.Attribute) and isinstance(
            tgt.value, ast.Name) and tgt.value.id == "self":
          if fn.name == "__init__" or tgt.attr in assigned_here and \
              fn.name == "__init__":
            continue
          updated.setdefault(tgt.attr, fn.name)
    _, init = ci.find_method("__init__")
    init_sets = set()
    if init is not None:
      init_sets = {t.attr for x in ast.walk(init) if isinstance(x, ast.Assign)
                   for t in x.targets if isinstance(t, ast.Attribute) and
                   isinstance(t.value, ast.Name) and t.value.id == "self"}
    for attr, where in sorted(updated.items()):
      n += 1
      bad = attr in mutable_defaults and attr not in init_sets
      rep.check(not bad, "R7", "%s::%s" % (cb.relpath, cname),
                "state-shared-by-all-instances:" + attr,
                "%s.%s is updated in place by %s() but lives in a class-level "
                "default (%s) that __init__ does not replace: every %s in "
                "the process shares it" % (
                    cname, attr, where, ast.unparse(mutable_defaults[attr])
                    if bad else "", cname), loc=cb.loc(ci.node))
  return n


def rule_factor_steers_no_python_branch(rep, repo):
  """R8: the noise factor may be a tf.Variable that a schedule updates
  between steps; inside a traced step a Python-level decision taken on its
  CURRENT VALUE (K.get_value(f), f.numpy(), float(f) ... in the test of an
  `if` / `while` / conditional expression) is frozen at trace time, so later
  updates never reach the graph.  Syntax-tree rule over the quantizer
  modules: no branch test converts an expression that mentions
  `qnoise_factor` to a Python number."""
  import ast
  mods = [repo.module(quant.QMOD)]
  bq = repo.modules.get("qkeras.base_quantizer")
  if bq is not None:
    mods.append(bq)
  readers = ("get_value", "numpy", "float", "int", "bool", "eval", "item")
  n = 0
  for m in mods:
    for node in ast.walk(m.tree):
      if isinstance(node, (ast.If, ast.While, ast.IfExp)):
        test = node.test
      elif isinstance(node, ast.Assert):
        continue
      else:
        continue
      n += 1
      bad = []
      for c in ast.walk(test):
        if isinstance(c, ast.Call):
          fname = c.func.attr if isinstance(c.func, ast.Attribute) else (
              c.func.id if isinstance(c.func, ast.Name) else "")
          if fname in readers:
            scope = [c.func.value] if isinstance(
                c.func, ast.Attribute) and fname in ("numpy", "item",
                                                     "eval") else list(c.args)
            if any(isinstance(x, ast.Attribute) and x.attr == "qnoise_factor"
                   for a in scope for x in ast.walk(a)):
              bad.append(ast.unparse(c))
      rep.check(not bad, "R8", "%s::%s" % (m.relpath, "qnoise_factor"),
                "python-branch-on-the-factor's-value",
                "the branch test `%s` reads the noise factor as a Python "
                "number (%s): in a traced step the decision is frozen at "
                "trace time and later update_qnoise_factor() calls have no "
                "effect" % (ast.unparse(test)[:120], ", ".join(bad)),
                loc=m.loc(node))
  return n


def rule_variable_isolation(rep, repo, rule="R2"):
  """Every quantizer owns its noise factor: (a) two variable-backed
  quantizers that were given the SAME var_name, (b) a quantizer whose factor
  was set with update_qnoise_factor(<the variable of another quantizer>) -
  in both cases an update of the other quantizer afterwards leaves this
  one's factor (and so its output) alone.  Returns the number of pairs."""
  qm = repo.module(quant.QMOD)
  n = 0
  for qcls in KNOB_CLASSES:
    ci = qm.classes.get(qcls)
    if ci is None or "use_variables" not in [p_ for p_, _ in
                                             ci.init_params()[0]]:
      continue
    unit = "%s::%s" % (qm.relpath, qcls)
    for label in ("same var_name", "factor copied from the other's variable"):
      pe = PE(repo)
      cfg = "two %s(use_variables=True): %s, then the other is updated to " \
          "0" % (qcls, label)
      try:
        kw = {"use_variables": True}
        if label == "same var_name":
          kw["var_name"] = "block1"
        q1 = pe.call(pe.lookup_global(qcls, qm), [], dict(kw))
        q2 = pe.call(pe.lookup_global(qcls, qm), [], dict(kw))
        pe.call(q1, [pe.x_input()], {})
        ref = pe.call(q2, [pe.x_input()], {})
        if label != "same var_name":
          pe.call(pe.getattr(q2, "update_qnoise_factor"),
                  [q1.attrs.get("qnoise_factor")], {})
        pe.call(pe.getattr(q1, "update_qnoise_factor"), [F(0)], {})
        out = pe.call(q2, [pe.x_input()], {})
      except (PyRaise, Unsupported):
        continue
      n += 1
      same = all(Fwd(ph)(out.term) == Fwd(ph)(ref.term)
                 for ph in ("infer", "train"))
      rep.check(same and q2.attrs.get("qnoise_factor") is not q1.attrs.get(
          "qnoise_factor"), rule, unit, "noise-factor-shared",
                "%s: this quantizer now computes %s (before: %s); the two "
                "hold %s variable" % (
                    cfg, show(Fwd()(out.term), 120), show(Fwd()(ref.term),
                                                          120),
                    "the same" if q2.attrs.get("qnoise_factor") is
                    q1.attrs.get("qnoise_factor") else "their own"),
                loc=ci.loc(), instance="%s/%s" % (qcls, label))
  return n


# ---------------------------------------------------------------------------
# scheduler

def sched_class(repo):
  cb = repo.module("qkeras.callbacks")
  c = cb.classes.get("QNoiseScheduler")
  if c is None:
    raise AnalysisError("anchor-missing class qkeras.callbacks."
                        "QNoiseScheduler")
  return cb, c


def make_sched(pe, cb, c):
  obj = Obj(c)
  obj.attrs.update({
      "start": Tensor(("sym", "start"), ()),
      "finish": Tensor(("sym", "finish"), ()),
      "exponent": Tensor(("sym", "exponent"), ()),
      "update_freq": Tensor(("sym", "update_freq"), ()),
      "initial_step_or_epoch": Tensor(("sym", "initial"), ()),
      "num_iters": Tensor(("sym", "num_iters"), ()),
      "freq_type": "epoch",
      "qnoise_factor": None,
      "use_ste": True,
      "summary_writer": None,
  })
  return obj


def lit(path):
  """path condition as list of (op, lhs NF, rhs NF, taken)."""
  out = []
  fw = Fwd()
  for t, taken in path:
    if t[0] == "cmp":
      out.append((t[1], fw(t[2]), fw(t[3]), taken))
    else:
      out.append(("?", fw(t), None, taken))
  return out


def rule_schedule(rep, repo):
  cb, c = sched_class(repo)
  unit = "%s::QNoiseScheduler.calculate_qnoise_factor" % cb.relpath
  rep.unit(unit)
  fn = c.methods.get("calculate_qnoise_factor")
  if fn is None:
    raise AnalysisError("anchor-missing method QNoiseScheduler."
                        "calculate_qnoise_factor")
  loc = cb.loc(fn)
  freq = ("sym", "freq")
  S, Fn = NF.sym("start"), NF.sym("finish")
  FR = NF.sym("freq")

  def run(fork):
    pe = PE(repo)
    pe.fork = fork
    obj = make_sched(pe, cb, c)
    f = Func(fn, cb, [], "calculate_qnoise_factor", obj, c)
    return pe.call_func(f, [Tensor(freq, ())], {})
  paths = explore(run)
  rep.extra["schedule_paths"] = len(paths)
  if len(paths) < 3:
    raise AnalysisError("instance-count calculate_qnoise_factor has %d paths"
                        % len(paths))
  fw = Fwd()
  for path, res in paths:
    if isinstance(res, Exception):
      rep.fail("R3", unit, "path-raises", "a path raises: %s" % res, loc=loc)
      continue
    val = fw(res.term) if isinstance(res, Tensor) else NF.const(F(res))
    conds = lit(path)
    desc = " and ".join("%s(%s %s %s)" % ("" if tk else "not ", show(a, 40),
                                          op, show(b, 40) if b is not None
                                          else "")
                        for op, a, b, tk in conds)
    before = any((op == "lt" and a == FR and b == S and tk) or
                 (op == "gt" and a == S and b == FR and tk) or
                 (op == "ge" and a == FR and b == S and not tk) or
                 (op == "le" and a == S and b == FR and not tk)
                 for op, a, b, tk in conds)
    after = any((op == "le" and a == FR and b == Fn and not tk) or
                (op == "gt" and a == FR and b == Fn and tk) or
                (op == "lt" and a == Fn and b == FR and tk) or
                (op == "ge" and a == Fn and b == FR and not tk)
                for op, a, b, tk in conds)
    degenerate = any((op == "ne" and {a, b} == {S, Fn} and not tk) or
                     (op == "eq" and {a, b} == {S, Fn} and tk)
                     for op, a, b, tk in conds)
    facts = {"path": desc, "value": show(val, 200)}
    rep.sample({"schedule_path": desc, "value": show(val, 160)})
    if before:
      rep.check(val == NF.const(0), "R3", unit, "before-start!=0",
                "on the path [%s] (before start) the factor is %s, not 0" %
                (desc, show(val, 120)), loc=loc, facts=facts)
    elif after or degenerate:
      rep.check(val == NF.const(1), "R3", unit, "after-finish!=1",
                "on the path [%s] (from finish on) the factor is %s, not 1" %
                (desc, show(val, 120)), loc=loc, facts=facts)
    else:
      # middle piece: start <= freq <= finish, start < finish
      def pow_fold(fname, attrs, args):
        if fname == "pow":
          c0 = args[0].const_value()
          if c0 is not None and c0 in (0, 1):
            return NF.const(c0)    # exponent > 0 assumed
        return simplify_app(fname, attrs, args)
      DD = NF.sym("delta")
      vd = val.subst({("sym", "finish"): S + DD}, pow_fold)
      at_start = vd.subst({("sym", "freq"): S}, pow_fold)
      at_finish = vd.subst({("sym", "freq"): S + DD}, pow_fold)
      rep.check(at_start == NF.const(0), "R3", unit, "middle(start)!=0",
                "the middle piece evaluates to %s at freq=start, not 0" %
                show(at_start, 120), loc=loc, facts=facts)
      rep.check(at_finish == NF.const(1), "R3", unit, "middle(finish)!=1",
                "the middle piece evaluates to %s at freq=finish, not 1" %
                show(at_finish, 120), loc=loc, facts=facts)
      # monotone: substitute freq = finish - t, finish = start + delta,
      # t in [0, delta], delta >= 1, exponent > 0; value must be
      # non-increasing in t
      D = NF.sym("delta")
      v2 = val.subst({("sym", "finish"): S + D}, simplify_app)
      v2 = v2.subst({("sym", "freq"): S + D - NF.x()}, simplify_app)
      env = Env(x=VS.real(F(0), None), xsign=1,
                syms={"delta": VS.real(F(1), None),
                      "exponent": VS.real(F(1, 100), None),
                      "start": VS.real()})
      ev = Eval(env)
      p = polarity_with_pow(v2, ev)
      rep.check(p in ("-", "0"), "R3", unit, "middle-not-monotone",
                "the middle piece is not provably non-decreasing in freq "
                "(polarity in t=finish-freq: %s; %s)" % (p, show(v2, 160)),
                loc=loc, facts=facts)
      rng = ev.nf(v2)
  # constructor rejects start > finish
  init = c.methods.get("__init__")
  ok = False
  if init is not None:
    for node in ast.walk(init):
      if isinstance(node, ast.If) and any(isinstance(s, ast.Raise)
                                          for s in node.body):
        t = ast.unparse(node.test).replace(" ", "")
        if t in ("start>finish", "finish<start"):
          ok = True
  rep.check(ok, "R3", "%s::QNoiseScheduler.__init__" % cb.relpath,
            "no-start<=finish-guard",
            "the constructor does not reject start > finish (the schedule's "
            "monotonicity argument assumes start <= finish)",
            loc=cb.loc(init) if init else None)


def polarity_with_pow(nf, ev):
  """pwa.polarity extended with pow(u, e): increasing in u for u >= 0 and a
  positive exponent."""
  orig = pwa._atom_polarity

  def ap(a, ev_):
    if a[0] == "app" and a[1] == "pow":
      u, e = a[3]
      pe_ = pwa.polarity(e, ev_)
      lo, _ = ev_.nf(u).bounds()
      elo, _ = ev_.nf(e).bounds()
      if pe_ == "0" and lo is not None and lo >= 0 and elo is not None and \
          elo > 0:
        return pwa.polarity(u, ev_)
      return "?"
    return orig(a, ev_)
  pwa._atom_polarity = ap
  try:
    return pwa.polarity(nf, ev)
  finally:
    pwa._atom_polarity = orig


def rule_time(rep, repo):
  cb, c = sched_class(repo)
  unit = "%s::QNoiseScheduler.update_qnoise_factor" % cb.relpath
  rep.unit(unit)
  fn = c.methods.get("update_qnoise_factor")
  if fn is None:
    raise AnalysisError("anchor-missing method QNoiseScheduler."
                        "update_qnoise_factor")

  def count_paths(stmts, acc):
    """Set of increment counts over all paths through stmts; acc = counts so
    far.  Returns (counts at fallthrough, counts at return)."""
    fall = set(acc)
    rets = set()
    for st in stmts:
      if not fall:
        break
      if isinstance(st, ast.AugAssign) and isinstance(st.target,
                                                      ast.Attribute) and \
          st.target.attr == "num_iters" and isinstance(st.op, ast.Add):
        fall = {n + 1 for n in fall}
      elif isinstance(st, ast.Assign) and any(
          isinstance(t, ast.Attribute) and t.attr == "num_iters"
          for t in st.targets):
        v = ast.unparse(st.value).replace(" ", "")
        if v in ("self.num_iters+1", "1+self.num_iters"):
          fall = {n + 1 for n in fall}
        else:
          fall = {99}
      elif isinstance(st, ast.Return):
        rets |= fall
        fall = set()
      elif isinstance(st, ast.If):
        f1, r1 = count_paths(st.body, fall)
        f2, r2 = count_paths(st.orelse, fall)
        fall = f1 | f2
        rets |= r1 | r2
      elif isinstance(st, (ast.For, ast.While)):
        f1, r1 = count_paths(st.body, fall)
        if f1 != fall:
          fall = fall | f1 | {99}
        rets |= r1
      elif isinstance(st, ast.Try):
        f1, r1 = count_paths(st.body, fall)
        fall = f1
        rets |= r1
        for h in st.handlers:
          f2, r2 = count_paths(h.body, acc)
          fall |= f2
          rets |= r2
    return fall, rets
  fall, rets = count_paths(fn.body, {0})
  counts = fall | rets
  rep.check(counts == {1}, "R4", unit, "num_iters-not-incremented-once",
            "paths through update_qnoise_factor increment num_iters %s "
            "times (expected exactly once on every path)" % sorted(counts),
            loc=cb.loc(fn))
  # hooks
  for hook, ftype in (("on_epoch_begin", "epoch"),
                      ("on_train_batch_begin", "step")):
    h = c.methods.get(hook)
    hunit = "%s::QNoiseScheduler.%s" % (cb.relpath, hook)
    if h is None:
      rep.fail("R4", hunit, "missing-hook", "hook %s is missing" % hook)
      continue
    calls = [n for n in ast.walk(h) if isinstance(n, ast.Call) and
             isinstance(n.func, ast.Attribute) and
             n.func.attr == "update_qnoise_factor"]
    ok = False
    for call in calls:
      if call.args:
        a = ast.unparse(call.args[0]).replace(" ", "")
        if a in ("self.initial_step_or_epoch+self.num_iters",
                 "self.num_iters+self.initial_step_or_epoch"):
          ok = True
    rep.check(ok, "R4", hunit, "hook-argument",
              "%s does not call update_qnoise_factor(initial_step_or_epoch + "
              "num_iters)" % hook, loc=cb.loc(h))
    guards = [ast.unparse(n.test).replace(" ", "").replace("'", '"')
              for n in ast.walk(h) if isinstance(n, ast.If)]
    rep.check(any(('self.freq_type=="%s"' % ftype) == g for g in guards),
              "R4", hunit, "hook-guard",
              "%s is not guarded by freq_type == %r" % (hook, ftype),
              loc=cb.loc(h))
  # on_train_begin wires get_quantizers + set_quantizers
  h = c.methods.get("on_train_begin")
  called = {n.func.attr for n in ast.walk(h) if isinstance(n, ast.Call) and
            isinstance(n.func, ast.Attribute)} if h is not None else set()
  rep.check({"get_quantizers", "set_quantizers"} <= called, "R4",
            "%s::QNoiseScheduler.on_train_begin" % cb.relpath,
            "quantizers-not-collected",
            "on_train_begin does not collect the model's quantizers",
            loc=cb.loc(h) if h is not None else None)
  # update loop applies the new factor to every collected quantizer
  loops = [n for n in ast.walk(fn) if isinstance(n, ast.For)]
  ok = False
  for lp in loops:
    it = ast.unparse(lp.iter).replace(" ", "")
    body_calls = [n for n in ast.walk(lp) if isinstance(n, ast.Call) and
                  isinstance(n.func, ast.Attribute) and
                  n.func.attr in ("set_qnoise_factor",
                                  "update_qnoise_factor")]
    if it == "self.quantizers" and body_calls:
      ok = True
  rep.check(ok, "R4", unit, "not-applied-to-all-quantizers",
            "update_qnoise_factor does not loop over self.quantizers",
            loc=cb.loc(fn))


def rule_reach(rep, repo):
  """R5: reader = QNoiseScheduler.get_quantizers (attribute names it
  probes); writers = layer classes owning quantizer objects."""
  cb, c = sched_class(repo)
  fn = c.methods.get("get_quantizers")
  if fn is None:
    raise AnalysisError("anchor-missing method QNoiseScheduler."
                        "get_quantizers")
  read_attrs = set()
  for node in ast.walk(fn):
    if isinstance(node, ast.For) and isinstance(node.iter, (ast.List,
                                                            ast.Tuple)):
      for e in node.iter.elts:
        if isinstance(e, ast.Constant) and isinstance(e.value, str):
          read_attrs.add(e.value)
    if isinstance(node, ast.Call) and isinstance(node.func, ast.Name) and \
        node.func.id in ("hasattr", "getattr") and len(node.args) > 1 and \
        isinstance(node.args[1], ast.Constant):
      read_attrs.add(node.args[1].value)
    if isinstance(node, ast.Call) and isinstance(node.func, ast.Attribute) \
        and node.func.attr == "get_quantizers":
      read_attrs.add("get_quantizers()")
  read_attrs.discard("qnoise_factor")
  unit = "%s::QNoiseScheduler.get_quantizers" % cb.relpath
  rep.unit(unit)
  if not read_attrs:
    raise AnalysisError("anchor-missing attribute-name list in "
                        "QNoiseScheduler.get_quantizers")
  rep.extra["scheduler_reads"] = sorted(read_attrs)
  n = 0
  for ci in sorted(repo.classes.values(), key=lambda k: k.qualname):
    if ci.module.name.startswith("qkeras.qtools") or \
        ci.module.name.startswith("qkeras.autoqkeras"):
      continue
    if not ci.is_subclass_of("Layer") and not any(
        b.split(".")[-1] in ("Layer", "Dense", "Conv1D", "Conv2D", "RNN",
                             "Bidirectional", "Conv2DTranspose",
                             "SeparableConv1D", "SeparableConv2D",
                             "DepthwiseConv2D", "AveragePooling2D",
                             "GlobalAveragePooling2D", "BatchNormalization",
                             "SimpleRNNCell", "LSTMCell", "GRUCell")
        for b in ci.external_bases()):
      continue
    if ci.name.endswith("Cell"):
      continue   # cells are not model.layers entries; their wrapper is
    owner, gq = ci.find_method("get_quantizers")
    inits = [cc.methods["__init__"] for cc in ci.mro()
             if "__init__" in cc.methods]
    stored = set()
    inline_act = False
    for f2 in inits:
      for node in ast.walk(f2):
        if isinstance(node, ast.Assign):
          for t in node.targets:
            if isinstance(t, ast.Attribute) and isinstance(
                t.value, ast.Name) and t.value.id == "self":
              stored.add(t.attr)
            if isinstance(t, ast.Name) and t.id == "activation" and \
                isinstance(node.value, ast.Call) and \
                ast.unparse(node.value.func).endswith("get_quantizer"):
              inline_act = True
    props = set()
    for cc in ci.mro():
      props |= cc.properties
    owns = gq is not None or any(a.endswith("quantizer_internal")
                                 for a in stored)
    if not owns:
      continue
    n += 1
    lunit = "%s::%s" % (ci.module.relpath, ci.name)
    exposed = {a for a in read_attrs if a in stored or a in props}
    if "get_quantizers()" in read_attrs and gq is not None:
      exposed.add("get_quantizers()")
    rep.check(bool(exposed), "R5", lunit, "quantizers-not-exposed",
              "the layer owns quantizers but exposes none of %s, which is "
              "all QNoiseScheduler.get_quantizers reads: the scheduler never "
              "updates this layer's quantizers" % sorted(read_attrs),
              loc=ci.loc())
    if inline_act:
      # the inline activation quantizer must be in the exposed list
      listed = False
      for f2 in inits:
        for node in ast.walk(f2):
          if isinstance(node, ast.Assign) and any(
              isinstance(t, ast.Attribute) and t.attr == "quantizers"
              for t in node.targets):
            names = {ast.unparse(e) for e in ast.walk(node.value)
                     if isinstance(e, (ast.Name, ast.Attribute))}
            if "activation" in names or "self.activation" in names:
              listed = True
      rep.check(listed, "R5", lunit, "inline-activation-not-exposed",
                "the activation argument is turned into a quantizer object "
                "(get_quantizer(activation)) that is not part of "
                "self.quantizers, so a qnoise_factor knob on it is never "
                "driven by the scheduler", loc=ci.loc())
  rep.extra["layer_classes_with_quantizers"] = n
  if n < 12:
    raise AnalysisError("instance-count R5 found only %d layer classes" % n)


def rule_scheduler_run(rep, repo, tier):
  """R6: the callback as a whole, interpreted: built by its own __init__,
  attached to a synthetic model (a layer with a `quantizers` list holding a
  quantizer without the knob, a knob quantizer, None and another knob
  quantizer; a layer with a
  single `quantizer`; a plain layer), on_train_begin and then a sequence of
  batch / epoch hooks.  Every knob quantizer - and nothing else - must be
  driven, at every update step, with a value that is 0 before start, 1 from
  finish on, inside [0, 1] and never decreasing; the hook of the other
  frequency type must not advance the schedule; a second on_train_begin must
  not reset it."""
  cb, c = sched_class(repo)
  unit = "%s::QNoiseScheduler" % cb.relpath
  rep.unit(unit)
  loc = c.loc()
  scen = [
      dict(start=2, finish=5, freq_type="epoch"),
      dict(start=0, finish=0, freq_type="step"),
      dict(start=2, finish=6, freq_type="step", update_freq=2, exponent=1.0),
      dict(start=3, finish=4, freq_type="epoch", initial_step_or_epoch=2),
      dict(start=1, finish=7, freq_type="step", update_freq=3,
           use_ste=False),
      dict(start=4, finish=4, freq_type="epoch"),
      # resumed training: the position is not a multiple of update_freq
      dict(start=4, finish=9, freq_type="step", update_freq=3,
           initial_step_or_epoch=2),
      dict(start=3, finish=8, freq_type="epoch", update_freq=2,
           initial_step_or_epoch=1, exponent=1.0),
  ]
  if tier == "thorough":
    scen += [dict(start=0, finish=9, freq_type="step", exponent=0.5),
             dict(start=5, finish=8, freq_type="epoch", update_freq=4,
                  initial_step_or_epoch=3),
             dict(start=1, finish=2, freq_type="step", exponent=6.0)]
  for sc in scen:
    cfg = "QNoiseScheduler(%s)" % ", ".join("%s=%r" % kv
                                            for kv in sorted(sc.items()))
    log = []
    builds = []

    def mkq(name, knob=True, factor=1.0):
      at = {"name": name, "use_ste": None, "use_variables": False,
            "built": False}
      if knob:
        at["qnoise_factor"] = factor
      m = Mock(name, at)

      def upd(pe, a, k, m=m):
        v = a[0] if a else k.get("qnoise_factor")
        log.append((m.attrs["name"], v))
        m.attrs["qnoise_factor"] = v
      m.attrs["update_qnoise_factor"] = upd
      m.attrs["build"] = lambda pe, a, k, m=m: builds.append(
          (m.attrs["name"], k.get("use_variables",
                                  a[1] if len(a) > 1 else None)))
      return m
    q1, q2, q3 = mkq("q1"), mkq("q2", knob=False), mkq("q3")
    # a knob that currently stands at 0 (pre-training without quantization,
    # or left there by an earlier phase) is a knob all the same
    q4 = mkq("q4", factor=0.0)
    # built in python-float mode before the scheduler attaches (what building
    # a model does): it has to be rebuilt with a variable-backed factor
    q4.attrs["built"] = True
    model = Mock("model", {"layers": [
        Mock("layer with quantizers", {"quantizers": [q2, q1, None, q4]}),
        Mock("activation layer", {"quantizer": q3}),
        Mock("plain layer", {})]})
    pe = PE(repo)
    pe.opaque_ext = True
    pe.ext_overrides = {"<external-super>.__init__": lambda pe, a, k: None}
    try:
      s = pe.call(pe.lookup_global("QNoiseScheduler", cb), [], dict(sc))
      s.attrs["model"] = model
      pe.call(pe.getattr(s, "on_train_begin"), [], {})
      begin = list(log)
      del log[:]
      ticks = []
      own = "on_epoch_begin" if sc["freq_type"] == "epoch" else \
          "on_train_batch_begin"
      other = "on_train_batch_begin" if own == "on_epoch_begin" else \
          "on_epoch_begin"
      for i in range(sc["finish"] + 4):
        pe.call(pe.getattr(s, other), [i], {})
        n_other = len(log)
        if i == 3:
          pe.call(pe.getattr(s, "on_train_begin"), [], {})
        n_again = len(log)
        # Keras restarts the epoch / batch counter it passes to the hook
        pe.call(pe.getattr(s, own), [i % 3], {})
        ticks.append((i, n_other, n_again, list(log)))
        del log[:]
    except PyRaise as e:
      rep.fail("R6", unit, "scheduler-raises", "%s raises %s" % (cfg, e),
               loc=loc, instance=cfg)
      continue

    def num(v):
      if isinstance(v, Tensor) and v.term[0] == "c":
        v = v.term[1]
      if hasattr(v, "value"):
        v = v.value
      return F(v) if isinstance(v, (int, F)) else (
          float(v) if isinstance(v, float) else None)
    want_begin = sorted([("q1", 0), ("q3", 0), ("q4", 0)])
    got_begin = sorted((n, num(v)) for n, v in begin)
    rep.check(got_begin == want_begin, "R6", unit,
              "pretraining-factor-not-set",
              "%s: on_train_begin drives %r; every quantizer with the knob "
              "(q1, q3, q4) and only those must start at 0" % (cfg, got_begin),
              loc=loc, instance=cfg)
    rep.check(all(q.attrs["use_variables"] is True and
                  q.attrs["use_ste"] == sc.get("use_ste", True)
                  for q in (q1, q3, q4)), "R6", unit,
              "quantizer-not-prepared",
              "%s: use_variables / use_ste of the driven quantizers are %r" %
              (cfg, [(q.attrs["use_variables"], q.attrs["use_ste"])
                     for q in (q1, q3, q4)]), loc=loc, instance=cfg)
    rep.check(builds == [("q4", True)], "R6", unit,
              "built-quantizer-not-rebuilt-with-variables",
              "%s: build() calls %r; the quantizer that was already built "
              "with a python-float factor (q4), and only that one, must be "
              "rebuilt with use_variables=True" % (cfg, builds), loc=loc,
              instance=cfg, observed=str(builds))
    init = sc.get("initial_step_or_epoch", 0)
    uf = sc.get("update_freq", 1)
    last = F(0)
    bad = None
    for i, n_other, n_again, entries in ticks:
      freq = init + i
      if n_other or n_again:
        bad = bad or ("tick %d: the %s hook / a repeated on_train_begin "
                      "drove the quantizers" % (i, other))
      if freq % uf != 0:
        if entries:
          bad = bad or "tick %d is not an update step but drove %r" % (
              i, entries)
        continue
      vals = {n: num(v) for n, v in entries}
      if sorted(n for n, _ in entries) != ["q1", "q3", "q4"] or None in \
          vals.values() or len(set(vals.values())) != 1:
        bad = bad or "update step %d (position %d) drives %r" % (
            i, freq, entries)
        continue
      v = vals["q1"]
      if freq < sc["start"] and v != 0:
        bad = bad or "position %d < start but factor %s" % (freq, v)
      if freq >= sc["finish"] and v != 1:
        bad = bad or "position %d >= finish but factor %s" % (freq, v)
      if not 0 <= v <= 1 or v < last:
        bad = bad or "position %d: factor %s after %s" % (freq, v, last)
      last = max(last, v)
    rep.check(bad is None, "R6", unit, "schedule-not-followed",
              "%s: %s" % (cfg, bad), loc=loc, instance=cfg)


def rule_constructor_constants(rep, repo, mod, tier, rule="R9"):
  """The noise factor handed to the CONSTRUCTOR as a plain number - 0, 1/2,
  1, as a config or a quantizer string spells it - is the factor the call
  mixes with: F_0 is the documented unquantized surrogate, F_1/2 lies half
  way between F_0 and F_1, with and without variables.  (R1 decides the same
  for a symbolic factor; a constructor that tests the truth value of its
  argument treats 0 differently from every other number.)"""
  n = 0
  seen = set()
  for cls, kw in qref.lattice_all(tier):
    if cls not in KNOB_CLASSES or "qnoise_factor" not in kw:
      continue
    key = (cls, bool(kw.get("use_ste", True)), bool(kw.get("use_variables")))
    if key in seen:
      continue
    seen.add(key)
    unit = "%s::%s.__init__" % (mod.relpath, cls)
    built = {}
    try:
      for c in (0, F(1, 2), 1):
        built[c] = quant.build(repo, cls, dict(kw, qnoise_factor=c))
    except ConfigRejected:
      continue
    cfg = "%s(%s)" % (cls, qref.show_kwargs(dict(kw, qnoise_factor="c")))
    rep.unit(unit)
    b0 = built[0]
    loc = b0.pe.loc_of(b0.term)
    phases = ["infer"] + (["train"] if qref.has_phase(b0.term) else [])
    for ph in phases:
      f0, fh, f1 = (Fwd(ph)(built[c].term) for c in (0, F(1, 2), 1))
      n += 1
      s_ = Fwd(ph)(qref.surrogate_term(cls, kw))
      d = same_function(f0, s_, None, None)
      rep.check(d is None, rule, unit, "constructor-f=0-is-not-the-surrogate",
                "%s: constructed with qnoise_factor=0 the output is %s, the "
                "documented unquantized surrogate is %s (%s)" % (
                    cfg, show(f0, 160), show(s_, 160), d), loc=loc,
                instance=cfg + " " + ph)
      rep.check(fh == f0 + NF.const(F(1, 2)) * (f1 - f0), rule, unit,
                "constructor-constant-not-the-mixing-factor",
                "%s: constructed with qnoise_factor=1/2 the output is %s, "
                "half way between the outputs for 0 and 1 is %s" % (
                    cfg, show(fh, 160), show(
                        f0 + NF.const(F(1, 2)) * (f1 - f0), 160)), loc=loc,
                instance=cfg + " " + ph)
  return n


def run(rep, repo, tier):
  mod = repo.module(quant.QMOD)
  if rule_factor_steers_no_python_branch(rep, repo) < 50:
    raise AnalysisError("instance-count branch tests of the quantizer modules")
  rep.trusted.append("tf.Variable(initial_value) holds initial_value; "
                     "Variable.assign(v) stores v (TensorFlow semantics)")
  if rule_constructor_constants(rep, repo, mod, tier) < 8:
    raise AnalysisError("instance-count constructor constants")
  rule_mixing(rep, repo, mod, tier)
  rule_single_source(rep, repo, mod)
  rule_schedule(rep, repo)
  rule_time(rep, repo)
  rule_reach(rep, repo)
  rule_scheduler_run(rep, repo, tier)
  if rule_variable_isolation(rep, repo) < 6:
    raise AnalysisError("instance-count variable-isolation pairs")
  if rule_scheduler_state_is_per_instance(rep, repo) < 1:
    raise AnalysisError("instance-count scheduler state attributes")
  rep.require_instances("R6", 18)
  rep.require_instances("R1", 1500)
  rep.require_instances("R2", 10)
  rep.require_instances("R3", 5)
  rep.require_instances("R4", 6)
  rep.require_instances("R5", 12)
