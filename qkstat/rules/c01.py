"""C01 - fixed-point quantizers emit only representable codes.

R1 value-set containment: for every configuration point of the lattice the
   abstract value set of the forward value (all inputs at once) is contained
   in the declared code set of the format (oracle.py, written from the
   docstrings), and has at most 2**bits elements.
R2 min()/max() (constant-folded by the same interpreter) enclose the
   abstract output interval (alpha=None).
R3 every self./super() method called from min/max/range resolves in the MRO.
R4 range() (interpreted, numpy arrays concrete) enumerates exactly the
   abstract output value set, for the configurations range() accepts.
"""
import ast
from fractions import Fraction as F

from ..loader import AnalysisError
from ..pe import ConfigRejected, Tensor, PyRaise
from .. import oracle, quant
from ..qir import Fwd, value_set, Env
from ..qir import equal_mod_finite
from ..nf import show
from ..vset import VS

TECHNIQUE = ("Abstract interpretation (finite-set / congruence x interval "
             "value-set domain over exact rationals) of the IR obtained by "
             "partially evaluating each quantizer's __call__ for every "
             "configuration point; containment in the declared code set.")

CLASSES = ("quantized_bits", "quantized_linear", "quantized_relu",
           "quantized_tanh", "quantized_sigmoid")


def diagnose(got, want):
  """Coarse failure kind, used as the finding's construct."""
  glo, ghi = got.bounds()
  wlo, whi = want.bounds()
  kinds = []
  wg = want.as_grid()
  gg = got.as_grid()
  if wg.g:
    off = False
    if got.kind == "fin":
      off = any(((v - wg.o) / wg.g).denominator != 1 for v in got.vals)
    elif not gg.g or (gg.g / wg.g).denominator != 1 or \
        ((gg.o - wg.o) / wg.g).denominator != 1:
      off = True
    if off:
      kinds.append("off-grid")
  if whi is not None and (ghi is None or ghi > whi):
    kinds.append("above-max-code")
  if wlo is not None and (glo is None or glo < wlo):
    kinds.append("below-min-code")
  if not kinds:
    kinds.append("not-contained")
  return "+".join(kinds)


def eval_reporter(repo, cls, kw, name):
  pe, obj = quant.construct(repo, cls, kw)
  v = quant.call_method((pe, obj), name)
  if isinstance(v, Tensor):
    if v.term[0] == "c":
      return v.term[1]
    nf = Fwd()(v.term)
    c = nf.const_value()
    if c is None:
      raise AnalysisError("unsupported-construct %s.%s() is not a constant "
                          "of the configuration: %s" % (cls, name, show(nf)))
    return c
  return F(v)


FLAG_OPTIONS = ("keep_negative", "symmetric", "use_sigmoid",
                "use_stochastic_rounding", "use_real_tanh",
                "use_real_sigmoid", "is_quantized_clip", "use_ste",
                "use_01")


def run(rep, repo, tier):
  mod = repo.module(quant.QMOD)
  rep.trusted.append("semantics table of TF/Keras primitives in "
                     "qkstat/prims.py; exact real arithmetic (no float32 "
                     "rounding)")
  rep.assumptions.append("inputs are finite reals; float32 effects (ties "
                         "+-1 ulp, >2^24 steps) are outside the model")
  for c in CLASSES:
    if c not in mod.classes:
      raise AnalysisError("anchor-missing class %s.%s" % (quant.QMOD, c))
    rep.unit("%s::%s.__call__" % (mod.relpath, c))
  npoints = 0
  rejected = 0
  for cls, kw, want, txt, bits in oracle.lattice_fixed_point(
      tier, relu_bound=True):
    cfg = "%s(%s)" % (cls, oracle.show_kwargs(kw))
    unit = "%s::%s.__call__" % (mod.relpath, cls)
    try:
      b = quant.build(repo, cls, kw)
    except ConfigRejected:
      rejected += 1
      continue
    npoints += 1
    f = b.fwd("infer")
    got = value_set(f)
    ok = got.subset_of(want)
    if ok:
      rep.ok("R1")
    else:
      rep.fail("R1", unit, "codes:" + diagnose(got, want),
               "output value set %r is not contained in the declared code "
               "set %r (%s); forward normal form %s" %
               (got, want, txt, show(f, 300)),
               loc=b.pe.loc_of(b.term), instance=cfg, observed=repr(got),
               facts={"config": cfg, "got": repr(got), "want": repr(want),
                      "forward": show(f, 600)})
    card_ok = oracle.card_bound(got, bits) or (ok and oracle.card_bound(
        want, bits))
    rep.check(card_ok, "R1-card", unit, "cardinality>2^bits",
              "more than 2**bits distinct output values: %r" % (got,),
              instance=cfg)
    if npoints % 97 == 1:
      rep.sample({"config": cfg, "forward_nf": show(f, 200),
                  "value_set": repr(got), "declared": txt})
    # R5 flag spellings: qkeras writes its boolean options both as bool and
    # as 0/1 (its own printers emit 0/1); both spellings must select the
    # same format
    for opt, val in sorted(kw.items()):
      if isinstance(val, bool):
        twin = int(val)
      elif isinstance(val, int) and val in (0, 1) and opt in FLAG_OPTIONS:
        twin = bool(val)
      else:
        continue
      kw2 = dict(kw)
      kw2[opt] = twin
      try:
        b2 = quant.build(repo, cls, kw2)
      except ConfigRejected as e:
        rep.fail("R5", unit, "flag-spelling-rejected:" + opt,
                 "%s accepts %s=%r but rejects %s=%r: %s" % (
                     cfg, opt, val, opt, twin, e), instance=cfg)
        continue
      f2 = b2.fwd("infer")
      rep.check(f2 == f or equal_mod_finite(f2, f), "R5", unit,
                "flag-spelling-changes-function:" + opt,
                "%s: with %s=%r instead of %r the forward value is %s "
                "instead of %s" % (cfg, opt, twin, val, show(f2, 200),
                                   show(f, 200)),
                loc=b2.pe.loc_of(b2.term), instance=cfg)
    # R2 reporters (no data-dependent scale)
    if not isinstance(kw.get("alpha", None), str):
      try:
        mn = eval_reporter(repo, cls, kw, "min")
        mx = eval_reporter(repo, cls, kw, "max")
      except ConfigRejected as e:
        rep.fail("R2", "%s::%s.min/max" % (mod.relpath, cls), "raises",
                 "min()/max() raise for an accepted configuration: %s" % e,
                 instance=cfg)
        continue
      lo, hi = got.bounds()
      rep.check(lo is not None and hi is not None and mn <= lo and hi <= mx,
                "R2", "%s::%s.min/max" % (mod.relpath, cls),
                "does-not-enclose",
                "min()=%s max()=%s do not enclose outputs in [%s, %s]" %
                (mn, mx, lo, hi), instance=cfg,
                observed="min()=%s max()=%s outputs [%s, %s]" % (mn, mx, lo,
                                                                 hi),
                facts={"config": cfg, "min": str(mn), "max": str(mx),
                       "out_lo": str(lo), "out_hi": str(hi)})
    # R4 range() enumerates exactly the reachable set
    # (a relu_upper_bound that really clips is outside the property's
    # lattice: range() is not asked to follow it)
    clipping_bound = kw.get("relu_upper_bound") is not None and \
        not kw.get("is_quantized_clip", True) and \
        kw["relu_upper_bound"] < want.bounds()[1]
    if kw.get("alpha", None) is None and mod.classes[cls].find_method(
        "range")[1] is not None and got.kind == "fin" and \
        not clipping_bound:
      runit = "%s::%s.range" % (mod.relpath, cls)
      try:
        pe_r, obj_r = quant.construct(repo, cls, kw)
        rv = pe_r.call(pe_r.getattr(obj_r, "range"), [], {})
      except (PyRaise, ConfigRejected):
        rv = None   # range() does not support this configuration
      if isinstance(rv, list) and rv and all(
          not isinstance(e, Tensor) for e in rv):
        vals = sorted({F(e) for e in rv})
        want_r = sorted(got.vals)
        rep.check(vals == want_r, "R4", runit, "range!=reachable-set",
                  "range() lists %s%s, the quantizer can emit exactly %s%s" %
                  ([str(v) for v in vals[:10]], "..." if len(vals) > 10
                   else "", [str(v) for v in want_r[:10]],
                   "..." if len(want_r) > 10 else ""), instance=cfg,
                  observed="range() = %s" % [str(v) for v in vals],
                  loc=pe_r.repo.module(quant.QMOD).loc(
                      mod.classes[cls].find_method("range")[1]))
  # R6 reporters of a live object: quantized_linear documents alpha as a
  # modifiable attribute; after it was reassigned and the quantizer called,
  # min() / max() / range() describe the codes the object now emits
  nlive = 0
  if "quantized_linear" in mod.classes:
    unit = "%s::quantized_linear.min/max" % mod.relpath
    for bits, integer, kn, sym in ((4, 1, True, 0), (3, 0, True, 1),
                                   (4, 2, False, 0), (2, 0, True, 0)):
      for a0, a1 in ((None, F(2)), (F(2), None), (F(1), F(1, 4)),
                     ("auto", F(2)), (F(2), F(1))):
        kw = dict(bits=bits, integer=integer, keep_negative=kn,
                  symmetric=sym, alpha=a0)
        cfg = "quantized_linear(%s) then q.alpha = %s, called" % (
            oracle.show_kwargs(kw), oracle.show_kwargs({"a": a1})[2:])
        try:
          pe, obj = quant.construct(repo, "quantized_linear", kw)
          if a0 == "auto":
            pe.call(obj, [pe.x_input()], {})   # leaves a data-dependent scale
          pe.setattr(obj, "alpha", a1)
          out = pe.call(obj, [pe.x_input()], {})
          got = value_set(Fwd("infer")(out.term))
          mn = quant.call_method((pe, obj), "min")
          mx = quant.call_method((pe, obj), "max")
          rv = pe.call(pe.getattr(obj, "range"), [], {})
        except (PyRaise, ConfigRejected):
          continue

        def const(v):
          if isinstance(v, Tensor):
            return Fwd()(v.term).const_value()
          return F(v)
        mn, mx = const(mn), const(mx)
        lo, hi = got.bounds()
        nlive += 1
        rep.check(mn is not None and mx is not None and lo is not None and
                  hi is not None and mn <= lo and hi <= mx, "R6", unit,
                  "live-object:does-not-enclose",
                  "%s: outputs lie in [%s, %s] but min()=%s max()=%s" % (
                      cfg, lo, hi, mn, mx), instance=cfg,
                  observed="min()=%s max()=%s outputs [%s, %s]" % (
                      mn, mx, lo, hi))
        if got.kind == "fin" and isinstance(rv, list) and all(
            not isinstance(e, Tensor) for e in rv):
          vals = sorted({F(e) for e in rv})
          rep.check(vals == sorted(got.vals), "R6",
                    "%s::quantized_linear.range" % mod.relpath,
                    "live-object:range!=reachable-set",
                    "%s: range() lists %s..., the quantizer emits %s..." % (
                        cfg, [str(v) for v in vals[:6]],
                        [str(v) for v in sorted(got.vals)[:6]]),
                    instance=cfg, observed="range() = %s" % [
                        str(v) for v in vals])
  # a constant PER-CHANNEL scale (alpha given as an array): min() / max()
  # enclose the outputs of every channel, whichever channel comes first
  from ..pe import NArr
  for alphas in ((F(1, 2), F(1), F(2)), (F(2), F(1), F(1, 2))):
    for bits, integer, kn in ((4, 0, True), (4, 1, False)):
      kw = dict(bits=bits, integer=integer, keep_negative=kn,
                alpha=NArr(list(alphas)))
      cfg = "quantized_linear(%s)" % oracle.show_kwargs(kw)
      try:
        pe, obj = quant.construct(repo, "quantized_linear", kw,
                                  x_shape=(5, 3))
      except (PyRaise, ConfigRejected):
        continue
      try:
        mn = quant.call_method((pe, obj), "min")
        mx = quant.call_method((pe, obj), "max")
      except (PyRaise, ConfigRejected) as e:
        rep.check(False, "R2", "%s::quantized_linear.min/max" % mod.relpath,
                  "reporter-raises", "%s: min() / max() raise %s" % (cfg, e),
                  instance=cfg)
        continue
      step = F(2) ** (integer - bits + int(kn))
      top = (2 ** (bits - int(kn)) - 1) * step
      low = -top if kn else F(0)      # (symmetric by default)

      def per_channel(v, i):
        if isinstance(v, (list, tuple)):
          return F(v[i]) if i < len(v) else None
        if isinstance(v, Tensor):
          c = Fwd()(v.term).const_value()
          return c
        return F(v)
      bad = []
      for i, a in enumerate(alphas):
        gx, gn = per_channel(mx, i), per_channel(mn, i)
        if gx is None or gn is None or gx < top * a or gn > low * a:
          bad.append("channel %d (alpha %s): outputs in [%s, %s], min() / "
                     "max() give [%s, %s]" % (i, a, low * a, top * a, gn, gx))
      rep.check(not bad, "R2", "%s::quantized_linear.min/max" % mod.relpath,
                "per-channel-scale-not-enclosed",
                "%s: %s" % (cfg, "; ".join(bad)), instance=cfg)
  # the same for the options every fixed-point quantizer reads at call time
  # (C09 R8): after bits / integer were reassigned the reporters follow
  for cls, kw0, changes in (
      ("quantized_bits", dict(bits=4, integer=1, alpha=None),
       (("integer", 2), ("bits", 6), ("keep_negative", False),
        ("symmetric", 1))),
      ("quantized_relu", dict(bits=4, integer=1),
       (("integer", 2), ("bits", 6))),
      ("quantized_linear", dict(bits=4, integer=1, alpha=None),
       (("integer", 2), ("bits", 6), ("keep_negative", False),
        ("symmetric", 0)))):
    if cls not in mod.classes:
      continue
    for opt, val in changes:
      cfg = "%s(%s) then q.%s = %s, called" % (
          cls, oracle.show_kwargs(kw0), opt, val)
      try:
        pe, obj = quant.construct(repo, cls, kw0)
        pe.call(obj, [pe.x_input()], {})
        pe.setattr(obj, opt, val)
        out = pe.call(obj, [pe.x_input()], {})
        got = value_set(Fwd("infer")(out.term))
        mn = quant.call_method((pe, obj), "min")
        mx = quant.call_method((pe, obj), "max")
      except (PyRaise, ConfigRejected):
        continue

      def const2(v):
        if isinstance(v, Tensor):
          return Fwd()(v.term).const_value()
        return F(v)
      mn, mx = const2(mn), const2(mx)
      lo, hi = got.bounds()
      nlive += 1
      rep.check(mn is not None and mx is not None and lo is not None and
                hi is not None and mn <= lo and hi <= mx, "R6",
                "%s::%s.min/max" % (mod.relpath, cls),
                "live-object:does-not-enclose",
                "%s: outputs lie in [%s, %s] but min()=%s max()=%s" % (
                    cfg, lo, hi, mn, mx), instance=cfg,
                observed="min()=%s max()=%s outputs [%s, %s]" % (
                    mn, mx, lo, hi))
  rep.extra["live_object_reporter_points"] = nlive
  rep.extra["configuration_points"] = npoints
  rep.extra["configurations_rejected_by_constructor_or_asserts"] = rejected
  # R3
  for c in CLASSES:
    ci = mod.classes[c]
    for mname in ("min", "max", "range"):
      owner, fn = ci.find_method(mname)
      if fn is None:
        continue   # range() is optional (tanh / sigmoid have none)
      for call in ast.walk(fn):
        if not isinstance(call, ast.Call) or \
            not isinstance(call.func, ast.Attribute):
          continue
        recv = call.func.value
        target = None
        if isinstance(recv, ast.Name) and recv.id == "self":
          target = ci.find_method(call.func.attr)[1]
        elif isinstance(recv, ast.Call) and \
            isinstance(recv.func, ast.Name) and recv.func.id == "super":
          target = ci.find_method(call.func.attr, after=owner)[1]
        else:
          continue
        rep.check(target is not None, "R3",
                  "%s::%s.%s" % (mod.relpath, owner.name, mname),
                  "unresolved-method:" + call.func.attr,
                  "call of %s which no class in the MRO defines" %
                  ast.unparse(call.func), loc=owner.module.loc(call))
  rep.require_instances("R1", 400)
  rep.require_instances("R2", 100)
  rep.require_instances("R3", 3)
  rep.require_instances("R4", 60)
  rep.require_instances("R6", 20)

  # R20: construction history (shared with C09 R10): every option
  # alternative of these classes is built and used first in ONE interpreter;
  # each configuration then computes / prints / rebuilds what it does alone
  from . import c09 as _c09
  from .. import qref as _qref
  if _c09.rule_construction_history(
      rep, repo, repo.module(quant.QMOD), ('quantized_bits', 'quantized_relu', 'quantized_linear', 'quantized_tanh', 'quantized_sigmoid', 'quantized_ulaw'), "R20") < 5:
    raise AnalysisError("instance-count construction histories")
