"""C13 - saving, cloning or reloading a quantized model.

R1 custom-object table completeness: the dictionary filled by
   _add_supported_quantized_objects (interpreted) maps every name to the
   class of that name and contains the 14 registered quantizers and every
   public Layer / Constraint / Initializer subclass exported by the package.
R2 layer config completeness: for every layer class of the table each named
   constructor parameter is either forwarded to the parent constructor under
   its own keyword (the parent serialises it) or emitted by the class's own
   get_config; and every key the class emits is accepted by its constructor.
R3 quantizer entries are serialised from the *_internal object that call()
   applies.
R5 interpreted round trip of the quantizer-valued options: every layer
   class of the table is constructed through its own __init__ with quantizer
   *objects* that carry options the text form does not show, get_config() is
   interpreted (Keras serialisers are identity-preserving tokens; their
   fidelity is C09), the layer is rebuilt from that config through the
   class's from_config / constructor, and each applied quantizer of the
   rebuilt layer must compute the same function (normal-form equality) as
   the original's.
R4 the three reload routes (clone_model, quantized_model_from_json,
   load_qmodel) register the library's objects on a private copy of the
   caller's dictionary and hand that copy to the Keras loader.
"""
import ast

from fractions import Fraction as F

from ..loader import AnalysisError
from ..pe import PE, Mock, PyRaise, ClassRef, Func, Obj, Tensor, Unsupported
from ..qir import Fwd, equal_mod_finite
from .. import qref

TECHNIQUE = ("Interpretation of the custom-object table; class-model "
             "comparison of constructor parameters, super().__init__ "
             "keywords and get_config keys; interpreted reload routes with "
             "the Keras loader stubbed.")

UM = "qkeras.utils"
KERAS_BASES = ("Layer", "Dense", "Conv1D", "Conv2D", "Conv2DTranspose",
               "SeparableConv1D", "SeparableConv2D", "DepthwiseConv2D",
               "RNN", "SimpleRNNCell", "LSTMCell", "GRUCell", "Bidirectional",
               "AveragePooling2D", "GlobalAveragePooling2D",
               "BatchNormalization", "Constraint", "Initializer", "Wrapper",
               "PrunableLayer")


def exported_classes(repo):
  init = repo.module("qkeras")
  mods = list(init.star_imports)
  explicit = {}
  for alias, tgt in init.imports.items():
    if tgt.startswith("qkeras."):
      explicit[alias] = tgt
  out = {}
  for mname in mods:
    m = repo.modules.get(mname)
    if m is None:
      continue
    pub = m.public_names()
    for cname, ci in m.classes.items():
      if cname in pub and not cname.startswith("_"):
        out[cname] = ci
  for alias, tgt in explicit.items():
    ci = repo.classes.get(tgt)
    if ci is not None:
      out[alias] = ci
  return out


def is_keras_object(ci):
  for b in ci.external_bases():
    last = b.split(".")[-1]
    if last in KERAS_BASES:
      return True
  return False


def rule_table(rep, repo):
  um = repo.module(UM)
  fn = um.functions.get("_add_supported_quantized_objects")
  if fn is None:
    raise AnalysisError("anchor-missing _add_supported_quantized_objects")
  unit = "%s::_add_supported_quantized_objects" % um.relpath
  rep.unit(unit)
  loc = um.loc(fn)
  pe = PE(repo)
  table = {}
  try:
    pe.call(pe.lookup_global("_add_supported_quantized_objects", um),
            [table], {})
  except PyRaise as e:
    rep.fail("R1", unit, "table-raises", "raises %s" % e, loc=loc)
    return {}
  for k, v in sorted(table.items()):
    ok = isinstance(v, ClassRef) and v.cls.name == k
    rep.check(ok, "R1", unit, "entry-maps-to-other-object:" + str(k),
              "custom_objects[%r] is %r, not the class of that name" % (k, v),
              loc=loc)
  need = {}
  qm = repo.module("qkeras.quantizers")
  for q in qref.ALL_QUANTIZERS:
    need[q] = "registered quantizer"
  for cname, ci in exported_classes(repo).items():
    if is_keras_object(ci):
      need[cname] = "exported %s" % ci.module.relpath
  rep.extra["custom_object_table"] = sorted(table)
  rep.extra["required_entries"] = len(need)
  for name, why in sorted(need.items()):
    rep.check(name in table, "R1", unit, "missing-entry:" + name,
              "%s (%s) is not in the custom-object table: a saved model "
              "using it cannot be reloaded without user-supplied "
              "custom_objects" % (name, why), loc=loc)
  return table


def super_init_keywords(ci):
  """Keyword names passed to super().__init__ by the class's own __init__;
  None when **kwargs-only forwarding cannot be seen."""
  fn = ci.methods.get("__init__")
  if fn is None:
    return None, False
  kws = set()
  star = False
  found = False
  for n in ast.walk(fn):
    if isinstance(n, ast.Call) and isinstance(n.func, ast.Attribute) and \
        n.func.attr == "__init__":
      recv = n.func.value
      is_super = isinstance(recv, ast.Call) and isinstance(
          recv.func, ast.Name) and recv.func.id == "super"
      is_base = isinstance(recv, ast.Name) and recv.id != "self"
      if not (is_super or is_base):
        continue
      found = True
      for k in n.keywords:
        if k.arg is None:
          star = True
        else:
          kws.add(k.arg)
      # positional arguments map to the leading parameters of the same name
      for a in n.args:
        if isinstance(a, ast.Name):
          kws.add(a.id)
  return (kws if found else None), star


def merged_subobject_keys(ci, fn):
  """get_config merges self.X.get_config(): the keywords X was built with in
  __init__ from same-named parameters are serialised through X."""
  out = set()
  subs = set()
  for n in ast.walk(fn):
    if isinstance(n, ast.Call) and isinstance(n.func, ast.Attribute) and \
        n.func.attr == "get_config" and isinstance(n.func.value,
                                                   ast.Attribute) and \
        isinstance(n.func.value.value, ast.Name) and \
        n.func.value.value.id == "self":
      subs.add(n.func.value.attr)
  init = ci.methods.get("__init__")
  if init is None:
    return out
  # local option dictionaries (dict(a=a, ...) or {"a": a, ...}) that are
  # handed on with ** carry their same-named entries
  dictdefs = {}
  for n in ast.walk(init):
    if isinstance(n, ast.Assign) and len(n.targets) == 1 and isinstance(
        n.targets[0], ast.Name):
      v = n.value
      ks = set()
      if isinstance(v, ast.Call) and isinstance(v.func, ast.Name) and \
          v.func.id == "dict":
        ks = {k.arg for k in v.keywords if k.arg and isinstance(
            k.value, ast.Name) and k.value.id == k.arg}
      elif isinstance(v, ast.Dict):
        ks = {k.value for k, x in zip(v.keys, v.values) if isinstance(
            k, ast.Constant) and isinstance(x, ast.Name) and
              x.id == k.value}
      if ks:
        dictdefs.setdefault(n.targets[0].id, set()).update(ks)
  for n in ast.walk(init):
    if isinstance(n, ast.Assign) and isinstance(n.value, ast.Call):
      for t in n.targets:
        if isinstance(t, ast.Attribute) and t.attr in subs:
          for k in n.value.keywords:
            if k.arg and isinstance(k.value, ast.Name) and \
                k.value.id == k.arg:
              out.add(k.arg)
            elif k.arg is None and isinstance(k.value, ast.Name):
              out |= dictdefs.get(k.value.id, set())
  return out


def own_config_keys(ci):
  fn = ci.methods.get("get_config")
  if fn is None:
    return None, {}
  keys = {}
  for k in merged_subobject_keys(ci, fn):
    keys[k] = ast.Constant(value=None)
  for n in ast.walk(fn):
    if isinstance(n, ast.Dict):
      for k, v in zip(n.keys, n.values):
        if isinstance(k, ast.Constant) and isinstance(k.value, str):
          keys[k.value] = v
    if isinstance(n, ast.Assign):
      for t in n.targets:
        if isinstance(t, ast.Subscript) and isinstance(t.slice,
                                                       ast.Constant) and \
            isinstance(t.value, ast.Name) and t.value.id == "config":
          keys[t.slice.value] = n.value
  return fn, keys


def rule_layer_configs(rep, repo, table):
  n = 0
  for name, ref in sorted(table.items()):
    if not isinstance(ref, ClassRef):
      continue
    ci = ref.cls
    if ci.module.name == "qkeras.quantizers" or not is_keras_object(ci):
      continue
    init = ci.methods.get("__init__")
    if init is None:
      continue
    n += 1
    unit = "%s::%s" % (ci.module.relpath, ci.name)
    rep.unit(unit)
    params, _, has_kwargs = ci.init_params()
    pnames = [p for p, _ in params]
    sup, star = super_init_keywords(ci)
    gfn, keys = own_config_keys(ci)
    if gfn is None:
      # inherits get_config: nothing of its own to serialise
      keys = {}
    for p in pnames:
      forwarded = sup is not None and p in sup
      emitted = p in keys
      rep.check(forwarded or emitted, "R2", unit,
                "option-not-serialised:" + p,
                "constructor option %r of %s is neither forwarded to the "
                "parent constructor under its own keyword nor emitted by "
                "get_config: it is lost when the model is saved" %
                (p, ci.name), loc=ci.module.loc(init))
    if gfn is not None:
      # keys emitted by the class itself must be accepted by its constructor
      # (named parameter, or **kwargs reaching the parent)
      for k in sorted(keys):
        rep.check(k in pnames or has_kwargs, "R2", unit,
                  "config-key-not-accepted:" + k,
                  "get_config emits %r which %s.__init__ does not accept" %
                  (k, ci.name), loc=ci.module.loc(gfn))
      # R3 quantizers serialised from the applied *_internal object
      stored = set()
      for cc in ci.mro():
        f2 = cc.methods.get("__init__")
        if f2 is None:
          continue
        for node in ast.walk(f2):
          if isinstance(node, ast.Attribute) and isinstance(
              node.ctx, ast.Store) and isinstance(node.value, ast.Name) and \
              node.value.id == "self":
            stored.add(node.attr)
      for k, v in sorted(keys.items()):
        if not k.endswith("_quantizer") or (k + "_internal") not in stored:
          continue
        attrs = {x.attr for x in ast.walk(v) if isinstance(x, ast.Attribute)
                 and isinstance(x.value, ast.Name) and x.value.id == "self"}
        rep.check((k + "_internal") in attrs, "R3", unit,
                  "serialises-unapplied-quantizer:" + k,
                  "get_config serialises %s from %s, not from self.%s_internal "
                  "which call() applies" % (k, sorted(attrs), k),
                  loc=ci.module.loc(gfn))
  if n < 15:
    raise AnalysisError("instance-count only %d layer classes in the table"
                        % n)
  rep.extra["layer_classes_checked"] = n


def _same_function(pe, q1, q2):
  """Both quantizer objects compute the same forward function (both
  phases)."""
  if q1 is q2:
    return True
  if q1 is None or q2 is None:
    return q1 is None and q2 is None
  if not isinstance(q1, Obj) or not isinstance(q2, Obj):
    return False
  try:
    pe.rand_counter = 0
    o1 = pe.call(q1, [pe.x_input()], {})
    pe.rand_counter = 0
    o2 = pe.call(q2, [pe.x_input()], {})
  except PyRaise:
    return False
  if not isinstance(o1, Tensor) or not isinstance(o2, Tensor):
    return False
  return all(equal_mod_finite(Fwd(ph)(o1.term), Fwd(ph)(o2.term))
             for ph in ("infer", "train"))


SKIP_ROUNDTRIP = {
    # constructed from another layer object
    "QBidirectional": "wraps another layer object",
}


def _mask_text(m):
  flat = getattr(m, "flat", None)
  if flat is None:
    return repr(m)
  return "%s with entries %s" % (tuple(m.shape), [str(e) for e in flat()])


def layer_pe(repo, ci, name, own_constraints=False):
  """An interpreter in which a layer class of the library can be built by
  its OWN constructor: the Keras parent constructor / get_config and the
  Keras (de)serialisers are stand-ins (see `base_init`), an inner
  `layers.BatchNormalization(...)` is an object that remembers and reports
  the options it was given."""
  garci = lambda pe_, a, k: (a[1], a[2])
  # (own_constraints: the repository's own constraint / initializer helper
  # is interpreted instead of the pass-through stand-in)
  pe = PE(repo, module_overrides={} if own_constraints else {
      m: {"get_auto_range_constraint_initializer": garci}
      for m in (ci.module.name, "qkeras.qlayers")})
  pe.opaque_ext = True

  def base_init(pe_, a, k, rank=1 if "1D" in name else 2):
    me = pe_.external_super_self
    k = dict(k)
    k.setdefault("name", name.lower())     # Keras names every layer
    # Keras normalises integer geometry arguments to one entry per
    # spatial dimension (conv_utils.normalize_tuple) and serialises the
    # normalised form; pooling strides default to the pool size
    for kk in ("pool_size", "kernel_size", "strides", "dilation_rate"):
      if isinstance(k.get(kk), int) and not isinstance(k[kk], bool):
        k[kk] = (k[kk],) * rank
    if "pool_size" in k and k.get("strides") is None:
      k["strides"] = k["pool_size"]
    for kk, vv in k.items():
      if kk in ("pool_size", "kernel_size", "strides", "dilation_rate"):
        me.attrs[kk] = vv
      else:
        own, fn_ = me.cls.find_method(kk)
        if fn_ is None or kk not in own.properties:
          me.attrs.setdefault(kk, vv)
    # the Keras parent serialises what it was constructed with
    me.attrs["__base_config__"] = dict(k)
    if a and isinstance(a[0], Obj):
      me.attrs.setdefault("cell", a[0])   # keras RNN(cell, ...)
      me.attrs["__base_config__"]["cell"] = Mock("serialized",
                                                 {"obj": a[0]})
    # defaults the Keras parents give to options they were not handed
    for kk, vv in (("dilation_rate", (1, 1)), ("activation", None),
                   ("data_format", "channels_last"), ("use_bias", True),
                   ("padding", "valid"), ("strides", (1, 1)),
                   ("groups", 1), ("output_padding", None),
                   ("filters", None), ("keepdims", False)):
      own, fn_ = me.cls.find_method(kk)
      if fn_ is not None and kk in own.properties:
        continue     # the class computes it (RNN wrappers ask their cell)
      me.attrs.setdefault(kk, vv)
    # Keras resolves data_format=None against the global image data format
    # at construction and serialises the resolved value
    if "data_format" in k and k["data_format"] is None and \
        me.attrs.get("data_format") is None:
      me.attrs["data_format"] = pe_.image_data_format
      me.attrs["__base_config__"]["data_format"] = pe_.image_data_format

  def base_get_config(pe_, a, k):
    me = pe_.external_super_self
    conf = dict(me.attrs.get("__base_config__", {}))
    if "trainable" in conf and "trainable" in me.attrs:
      conf["trainable"] = me.attrs["trainable"]   # Keras writes the LIVE flag
    return conf

  def ser(pe_, a, k):
    v = a[0]
    if isinstance(v, (Obj, Mock)):
      return Mock("serialized", {"obj": v})
    return v

  def deser(pe_, a, k):
    v = a[0]
    if isinstance(v, Mock) and v.name == "serialized":
      return v.attrs["obj"]
    return v
  eo = {"<external-super>.__init__": base_init,
        "super.get_config": base_get_config}
  eo["*.serialize"] = ser
  eo["*.deserialize"] = deser
  eo["*.serialize_keras_object"] = ser
  eo["*.deserialize_keras_object"] = deser
  pe.ext_overrides = eo
  def inner_bn(pe_, a, k):
    opts = dict(k)
    m = Mock("BatchNormalization", dict(opts))
    m.attrs["__options__"] = opts
    # (Keras reports every core option, the ones it was not handed with
    # their defaults)
    core = dict(axis=-1, momentum=F(99, 100), epsilon=F(1, 1000),
                center=True, scale=True)
    m.attrs["get_config"] = lambda pe__, a_, k_: dict(
        core, **dict(opts, name="batch_normalization", dtype="float32"))
    return m
  eo["*.BatchNormalization"] = inner_bn
  if own_constraints:
    def kget(pe_, a, k):
      v = a[0]
      if isinstance(v, str):
        cname = {"he_normal": "HeNormal", "ones": "Ones", "zeros": "Zeros",
                 "glorot_uniform": "GlorotUniform",
                 "orthogonal": "Orthogonal"}.get(v, v)
        return Mock(cname, {"__class__": Mock("class", {"__name__": cname}),
                            "scale": F(2), "name": v})
      return v
    eo["tf.keras.constraints.get"] = kget
    eo["tf.keras.initializers.get"] = kget
  return pe


def rule_rebuilt_layer_computes_the_same(rep, repo, table, rule="R8"):
  """A pooling layer left at data_format=None while the global image data
  format is channels_first, and the layer rebuilt from its config (which
  carries the RESOLVED format): both compute the same function of the same
  input.  Nothing derived from the raw constructor argument may stand in for
  the resolved option."""
  n = 0
  skipped = {}
  for name in ("QGlobalAveragePooling2D", "QAveragePooling2D"):
    cref = table.get(name)
    ci = getattr(cref, "cls", None)
    if ci is None:
      raise AnalysisError("anchor-missing class %s" % name)
    params = [p for p, _ in ci.init_params()[0]]
    unit = "%s::%s" % (ci.module.relpath, name)
    for fmt in ("channels_first", "channels_last"):
      cfg = "%s(data_format=None) under the global format %s" % (name, fmt)
      pe = layer_pe(repo, ci, name)
      pe.image_data_format = fmt
      kw = dict(average_quantizer="quantized_bits(8,0,1,alpha=1)")
      if "pool_size" in params:
        kw["pool_size"] = (2, 2)
      x = Tensor(("sym", "inputs"), (2, 4, 6, 8))
      try:
        o = pe.call(cref, [], dict(kw))
        conf = pe.call(pe.getattr(o, "get_config"), [], {})
        conf2 = {k: (v.attrs["obj"] if isinstance(v, Mock) and
                     v.name == "serialized" else v) for k, v in conf.items()}
        fowner, ffn = ci.find_method("from_config")
        if ffn is not None:
          o2 = pe.call_func(Func(ffn, fowner.module, [], "from_config", cref,
                                 fowner), [dict(conf2)], {})
        else:
          o2 = pe.call(cref, [], dict(conf2))
        y1 = pe.call(pe.getattr(o, "call"), [x], {})
        y2 = pe.call(pe.getattr(o2, "call"), [x], {})
      except (PyRaise, Unsupported) as e:
        skipped[cfg] = str(e)[:120]
        continue
      if not isinstance(y1, Tensor) or not isinstance(y2, Tensor):
        skipped[cfg] = "call() result is opaque"
        continue
      n += 1
      rep.unit(unit)
      from ..qir import Fwd
      from ..nf import show
      f1, f2 = Fwd()(y1.term), Fwd()(y2.term)
      rep.check(f1 == f2, rule, unit, "rebuilt-layer-computes-another-"
                "function", "%s: the layer computes %s, the layer rebuilt "
                "from its config (data_format=%r) %s" % (
                    cfg, show(f1, 160), conf.get("data_format"),
                    show(f2, 160)), loc=ci.loc(), instance=cfg)
  rep.extra["rebuilt_layers_not_interpretable"] = skipped
  return n


def rule_frozen_then_unfrozen(rep, repo, table, rule="R7"):
  """A layer created frozen (`trainable=False`) and unfrozen afterwards -
  freeze the backbone, train the head, unfreeze - is serialised with its
  LIVE trainable flag: the layer rebuilt from that config applies the
  quantizers the original applies (same class, bits, alpha, symmetric per
  role).  Nothing decided once from the constructor keyword may differ from
  what the rebuilt layer decides."""
  qmod = repo.module("qkeras.quantizers")
  n = 0
  skipped = {}
  fields = ("bits", "integer", "alpha", "symmetric", "keep_negative")
  for name, cref in sorted(table.items()):
    ci = getattr(cref, "cls", None)
    if ci is None or not is_keras_object(ci) or \
        ci.module.name == "qkeras.quantizers" or name in SKIP_ROUNDTRIP:
      continue
    params = [p for p, _ in ci.init_params()[0]]
    qparams = [p for p in params if p.endswith("_quantizer") and
               p != "inverse_quantizer"]
    if not qparams or not ci.init_params()[2]:
      continue
    unit = "%s::%s.__init__" % (ci.module.relpath, ci.name)
    pe = layer_pe(repo, ci, name)
    kw = {p: "quantized_bits(4,0,1)" for p in qparams}
    for p_, v_ in (("units", 4), ("filters", 8), ("kernel_size", 3),
                   ("pool_size", 3)):
      if p_ in params:
        kw[p_] = v_
    kw["trainable"] = False
    try:
      o = pe.call(cref, [], dict(kw))
      pe.setattr(o, "trainable", True)
      cfg = pe.call(pe.getattr(o, "get_config"), [], {})
      # (deserialisation builds NEW quantizer objects: each entry is copied
      # as the original stood when it was serialised)
      from .. import prims as _prims
      cfg2 = {k: (_prims.call(pe, "copy.deepcopy", [v.attrs["obj"]], {},
                              None) if isinstance(v, Mock) and
                  v.name == "serialized" else v) for k, v in cfg.items()}
      snap = {p: tuple(getattr(o.attrs.get(p + "_internal"), "attrs",
                               {}).get(f_) for f_ in fields)
              for p in qparams}
      fowner, ffn = ci.find_method("from_config")
      if ffn is not None:
        o2 = pe.call_func(Func(ffn, fowner.module, [], "from_config", cref,
                               fowner), [dict(cfg2)], {})
      else:
        o2 = pe.call(cref, [], dict(cfg2))
    except (PyRaise, Unsupported) as e:
      skipped[name] = str(e)[:100]
      continue
    if not isinstance(o2, Obj) or not isinstance(cfg, dict) or \
        cfg.get("trainable") is not True:
      skipped[name] = "no live trainable flag in the config"
      continue
    n += 1
    rep.unit(unit)
    diff = []
    for p in qparams:
      a_, b_ = o.attrs.get(p + "_internal"), o2.attrs.get(p + "_internal")
      if not isinstance(a_, Obj) or not isinstance(b_, Obj):
        continue
      va = (a_.cls.name,) + tuple(a_.attrs.get(f_) for f_ in fields)
      vb = (b_.cls.name,) + tuple(b_.attrs.get(f_) for f_ in fields)
      if va != vb:
        diff.append("%s: original %s%r, rebuilt %s%r" % (
            p, va[0], dict(zip(fields, va[1:])), vb[0],
            dict(zip(fields, vb[1:]))))
    rep.check(not diff, rule, unit, "frozen-then-unfrozen-layer-rebuilt-"
              "differently", "%s created with trainable=False, unfrozen, "
              "rebuilt from its config: %s" % (name, "; ".join(diff)),
              loc=ci.loc(), instance=name)
  rep.extra["frozen_layers_not_interpretable"] = skipped
  return n


def rule_layer_roundtrip(rep, repo, table):
  qmod = repo.module("qkeras.quantizers")
  nsparse = [0]
  n = 0
  skipped = {}
  for name, cref in sorted(table.items()):
    ci = getattr(cref, "cls", None)
    if ci is None or not is_keras_object(ci) or \
        ci.module.name == "qkeras.quantizers":
      continue
    params = [p for p, _ in ci.init_params()[0]]
    qparams = [p for p in params if p.endswith("_quantizer")]
    if name == "QBatchNormalization":
      # inverse_quantizer excludes the gamma / variance quantizers (the
      # constructor asserts it); the separate quantizers are exercised
      qparams = [p for p in qparams if p != "inverse_quantizer"]
    if not qparams and name not in ("QActivation", "QAdaptiveActivation"):
      continue
    if name in SKIP_ROUNDTRIP:
      skipped[name] = SKIP_ROUNDTRIP[name]
      continue
    unit = "%s::%s" % (ci.module.relpath, ci.name)
    rep.unit(unit)
    gowner, gfn = ci.find_method("get_config")
    loc = gowner.module.loc(gfn) if gfn is not None else ci.loc()
    pe = layer_pe(repo, ci, name)
    kw = {}
    for i, p in enumerate(qparams):
      kw[p] = pe.call(pe.lookup_global("quantized_bits", qmod), [], dict(
          bits=3 + i, integer=1, alpha=1, qnoise_factor=F(1, 2)))
    if "activation" in params:
      kw["activation"] = pe.call(
          pe.lookup_global("quantized_relu", qmod), [], dict(
              bits=5, integer=2, relu_upper_bound=F(3, 2),
              is_quantized_clip=False))
    # geometry given as bare integers (the common spelling)
    for p_, v_ in (("units", 4), ("filters", 8), ("kernel_size", 3),
                   ("pool_size", 3)):
      if p_ in params:
        kw[p_] = v_
    if name == "QAdaptiveActivation":
      # the quantizer is named, not given; every option non-default
      kw = dict(activation="quantized_relu", total_bits=6, current_step=3,
                symmetric=False, quantization_delay=5, ema_freeze_delay=10,
                ema_decay=F(9, 10), per_channel=True, po2_rounding=True,
                relu_neg_slope=F(1, 4), relu_upper_bound=F(3, 2))
    # the composite (batch-norm folding) layers: non-default options of the
    # inner batch normalisation and of the folding itself
    if name.endswith("Batchnorm"):
      kw.update(momentum=F(9, 10), epsilon=F(1, 100), scale=False,
                ema_freeze_delay=5, folding_mode="batch_stats_folding",
                strides=2, padding="same", dilation_rate=(2, 2))
    # array-valued options: a kernel mask for every kernel shape class
    # (both sides > 1, a unit-length side, 1x1)
    if "mask" in params:
      from ..pe import NDArr, nd_equal
      for mshape, soft in (((3, 3), False), ((2, 3), False), ((1, 3), False),
                           ((3, 1), False), ((1, 1), False), ((3, 3), True),
                           ((1, 3), True)):
        vals = [(i * 7 + 3) % 2 for i in range(mshape[0] * mshape[1])]
        if soft:
          # a weighting mask: entries that are not 0 / 1
          vals = [(F(1, 2), F(1), F(-1, 4), F(0), F(3, 2))[i % 5]
                  for i in range(mshape[0] * mshape[1])]
        mk = NDArr.from_flat(vals, mshape) if mshape != (1, 1) else NDArr(
            [[1]])
        kwm = dict(kw, kernel_size=mshape, mask=mk)
        mcfg = "%s(%smask of shape %s)" % (name, "fractional " if soft
                                           else "", mshape)
        try:
          om = pe.call(cref, [], dict(kwm))
          cfgm = pe.call(pe.getattr(om, "get_config"), [], {})
          cfgm2 = {k: (v.attrs["obj"] if isinstance(v, Mock) and
                       v.name == "serialized" else v)
                   for k, v in cfgm.items()}
          fo_, ff_ = ci.find_method("from_config")
          if ff_ is not None:
            om2 = pe.call_func(Func(ff_, fo_.module, [], "from_config", cref,
                                    fo_), [dict(cfgm2)], {})
          else:
            om2 = pe.call(cref, [], {k: v for k, v in cfgm2.items()
                                     if k in params or ci.init_params()[2]})
        except PyRaise as e:
          rep.fail("R5", unit, "masked-layer-rebuild-raises",
                   "%s rebuilt from its own get_config() raises %s" %
                   (mcfg, e), loc=loc, instance=mcfg)
          continue
        except Unsupported as e:
          skipped[mcfg] = "not interpretable: %s" % str(e)[:120]
          continue
        m1, m2 = om.attrs.get("_mask"), om2.attrs.get("_mask") \
            if isinstance(om2, Obj) else None
        rep.check(isinstance(m1, (NDArr, list)) and isinstance(
            m2, (NDArr, list)) and nd_equal(m1, m2), "R5", unit,
                  "mask-changed-by-config-round-trip",
                  "%s: the mask of the rebuilt layer is %s, the original "
                  "%s" % (mcfg, _mask_text(m2), _mask_text(m1)), loc=loc,
                  instance=mcfg)
    try:
      o = pe.call(cref, [], dict(kw))
      cfg = pe.call(pe.getattr(o, "get_config"), [], {})
    except (PyRaise, Unsupported) as e:
      skipped[name] = "not interpretable: %s" % str(e)[:120]
      continue
    if not isinstance(cfg, dict):
      skipped[name] = "get_config() is not a dictionary"
      continue
    # rebuild: the class's own from_config, else cls(**config)
    fowner, ffn = ci.find_method("from_config")
    cfg2 = {k: (v.attrs["obj"] if isinstance(v, Mock) and
                v.name == "serialized" else v) for k, v in cfg.items()}
    try:
      if ffn is not None:
        f = Func(ffn, fowner.module, [], "from_config", cref, fowner)
        o2 = pe.call_func(f, [dict(cfg2)], {})
      else:
        has_kw = ci.init_params()[2]
        o2 = pe.call(cref, [], {k: v for k, v in cfg2.items()
                                if k in params or has_kw})
    except PyRaise as e:
      rep.fail("R5", unit, "rebuild-from-own-config-raises",
               "%s rebuilt from its own get_config() raises %s" % (name, e),
               loc=loc)
      continue
    except Unsupported as e:
      skipped[name] = "from_config not interpretable: %s" % str(e)[:120]
      continue
    if not isinstance(o2, Obj):
      skipped[name] = "from_config result is opaque"
      continue
    n += 1
    attrs = [p + "_internal" for p in qparams]
    if name in ("QActivation", "QAdaptiveActivation"):
      attrs = ["quantizer"]
    elif "activation" in params:
      attrs.append("activation")
    # everything the constructor derives from its arguments must come out
    # the same when the layer is rebuilt from the (normalised) config
    def plain(v):
      if isinstance(v, (list, tuple)):
        return all(plain(e) for e in v)
      return v is None or isinstance(v, (bool, int, float, str, F))
    diff = sorted(
        a_ for a_ in set(o.attrs) | set(o2.attrs)
        if not a_.startswith("__") and plain(o.attrs.get(a_)) and
        plain(o2.attrs.get(a_)) and a_ in o.attrs and a_ in o2.attrs and
        (list(o.attrs[a_]) if isinstance(o.attrs[a_], (list, tuple))
         else o.attrs[a_]) != (list(o2.attrs[a_]) if isinstance(
             o2.attrs[a_], (list, tuple)) else o2.attrs[a_]))
    rep.check(not diff, "R5", unit, "derived-attribute-changed-by-round-trip",
              "%s rebuilt from its own get_config() differs in %s" % (
                  name, ["%s: %r -> %r" % (a_, o.attrs[a_], o2.attrs[a_])
                         for a_ in diff]), loc=loc)
    if name.endswith("Batchnorm"):
      b1, b2 = o.attrs.get("batchnorm"), o2.attrs.get("batchnorm")
      o1_, o2_ = (getattr(b, "attrs", {}).get("__options__") for b in (b1,
                                                                       b2))
      rep.check(o1_ is not None and o1_ == o2_, "R5", unit,
                "inner-batchnorm-changed-by-round-trip",
                "%s rebuilt from its own get_config() builds its inner "
                "batch normalisation with %r, the original with %r" % (
                    name, o2_, o1_), loc=loc)
    def held_main(o_, a_):
      try:
        return pe.getattr(o_, a_)      # (a property on the RNN wrappers)
      except PyRaise:
        return None
    for a in attrs:
      q1, q2 = held_main(o, a), held_main(o2, a)
      if a == "activation" and not isinstance(q1, Obj):
        continue
      rep.check(_same_function(pe, q1, q2), "R5", unit,
                "quantizer-changed-by-config-round-trip:" + a,
                "%s built with quantizer objects and rebuilt from its own "
                "get_config() applies a different quantizer as %s "
                "(config entry: %r)" % (
                    name, a, cfg.get(a.replace("_internal", ""),
                                     cfg.get("activation"))),
                loc=loc)
    # ONE quantizer object (alpha unset) handed in for every weight role:
    # serialisation writes one entry per role, so the rebuilt layer holds
    # distinct but equal objects - it must apply the same quantizers
    if len(qparams) >= 2:
      from .. import prims as _prims
      pe_s = layer_pe(repo, ci, name)
      shared_q = pe_s.call(pe_s.lookup_global("quantized_bits", qmod), [],
                           dict(bits=4, integer=0, keep_negative=True))
      kw_s = {k_: v_ for k_, v_ in kw.items() if k_ not in qparams and
              k_ != "activation"}
      kw_s.update({p_: shared_q for p_ in qparams})
      scfg = "%s(one quantizer object for %s)" % (name, qparams)
      try:
        o_s = pe_s.call(ClassRef(ci), [], dict(kw_s))
        cfg_s = pe_s.call(pe_s.getattr(o_s, "get_config"), [], {})
        cfg_s2 = {k: (_prims.call(pe_s, "copy.deepcopy", [v.attrs["obj"]],
                                  {}, None) if isinstance(v, Mock) and
                      v.name == "serialized" else v)
                  for k, v in cfg_s.items()}
        if ffn is not None:
          o_s2 = pe_s.call_func(Func(ffn, fowner.module, [], "from_config",
                                     ClassRef(ci), fowner), [dict(cfg_s2)],
                                {})
        else:
          o_s2 = pe_s.call(ClassRef(ci), [], {
              k: v for k, v in cfg_s2.items()
              if k in params or ci.init_params()[2]})
        if isinstance(o_s2, Obj):
          for p_ in qparams:
            try:
              q1 = pe_s.getattr(o_s, p_ + "_internal")
              q2 = pe_s.getattr(o_s2, p_ + "_internal")
            except PyRaise:
              continue
            rep.check(_same_function(pe_s, q1, q2), "R5", unit,
                      "quantizer-changed-by-config-round-trip:" + p_ +
                      "_internal",
                      "%s: rebuilt from its own get_config() the layer "
                      "applies a different quantizer as %s_internal" % (
                          scfg, p_), loc=loc, instance=scfg)
      except (PyRaise, Unsupported):
        pass
    # sparse configurations: each quantizer-bearing option on its own (what
    # one option's serialisation must not make depend on another one)
    if name in ("QActivation", "QAdaptiveActivation"):
      continue
    roles = [p_ for p_ in qparams] + (["activation"] if "activation" in
                                      params else [])
    for only in roles:
      if only not in kw:
        continue
      kw1 = {k_: v_ for k_, v_ in kw.items()
             if k_ == only or (k_ not in roles)}
      scfg = "%s(only %s set)" % (name, only)
      try:
        o_s = pe.call(cref, [], dict(kw1))
        cfg_s = pe.call(pe.getattr(o_s, "get_config"), [], {})
        cfg_s2 = {k: (v.attrs["obj"] if isinstance(v, Mock) and
                      v.name == "serialized" else v)
                  for k, v in cfg_s.items()}
        if ffn is not None:
          o_s2 = pe.call_func(Func(ffn, fowner.module, [], "from_config",
                                   cref, fowner), [dict(cfg_s2)], {})
        else:
          o_s2 = pe.call(cref, [], {k: v for k, v in cfg_s2.items()
                                    if k in params or ci.init_params()[2]})
      except PyRaise as e:
        rep.fail("R5", unit, "rebuild-from-own-config-raises",
                 "%s rebuilt from its own get_config() raises %s" % (scfg, e),
                 loc=loc, instance=scfg)
        continue
      except Unsupported:
        continue
      if not isinstance(o_s2, Obj):
        continue
      nsparse[0] += 1
      a = only + "_internal" if only != "activation" else "activation"
      def held(o_, a_):
        try:
          return pe.getattr(o_, a_)    # (a property on the RNN wrappers)
        except PyRaise:
          return None
      q1, q2 = held(o_s, a), held(o_s2, a)
      rep.check(isinstance(q1, Obj) and _same_function(pe, q1, q2), "R5",
                unit, "quantizer-changed-by-config-round-trip:" + a,
                "%s: rebuilt from its own get_config() the layer applies %r "
                "as %s (config entry: %r)" % (
                    scfg, q2, a, cfg_s.get(only)), loc=loc, instance=scfg)
      others = [r_ + "_internal" if r_ != "activation" else "activation"
                for r_ in roles if r_ != only]
      rep.check(all(not isinstance(held(o_s2, x_), Obj) or
                    isinstance(held(o_s, x_), Obj) for x_ in others),
                "R5", unit,
                "quantizer-appears-after-round-trip",
                "%s: the rebuilt layer applies quantizers the original did "
                "not have" % scfg, loc=loc, instance=scfg)
  rep.extra["layer_roundtrips"] = n
  rep.extra["sparse_layer_roundtrips"] = nsparse[0]
  rep.extra["layer_roundtrips_skipped"] = skipped
  if n < 18:
    raise AnalysisError("instance-count only %d layer classes round-tripped "
                        "(%s)" % (n, skipped))


def rule_routes(rep, repo):
  um = repo.module(UM)
  for fname, loader in (("clone_model", "model_from_json"),
                        ("quantized_model_from_json", "model_from_json"),
                        ("load_qmodel", "tf.keras.models.load_model")):
    fn = um.functions.get(fname)
    if fn is None:
      raise AnalysisError("anchor-missing function utils.%s" % fname)
    unit = "%s::%s" % (um.relpath, fname)
    rep.unit(unit)
    seen = {}

    received = {}
    spec = [("dense", ["dense/kernel", "dense/bias"], 2),
            ("frozen", ["frozen/kernel", "frozen/bias"], 0),
            ("act", [], 0),
            ("bn", ["bn/gamma", "bn/beta", "bn/mean", "bn/var"], 2),
            ("stats_only", ["stats_only/mean", "stats_only/var"], 0)]

    def mk_layers(target):
      layers = []
      for lname, ws, ntrain in spec:
        def setw(pe, a, k, lname=lname):
          received[lname] = list(a[0])
        attrs = {"name": lname, "trainable": ntrain > 0 or not ws,
                 "get_weights": (lambda pe, a, k, ws=ws: list(ws)),
                 "weights": list(ws), "trainable_weights": ws[:ntrain],
                 "non_trainable_weights": ws[ntrain:],
                 "__class__": Mock("class", {"__name__": "Layer"})}
        if target:
          attrs["set_weights"] = setw
        layers.append(Mock("layer:" + lname, attrs))
      return layers

    def load(pe, a, k, seen=seen, received=received):
      seen["custom_objects"] = k.get("custom_objects",
                                     a[1] if len(a) > 1 else None)
      ql = mk_layers(True)

      def set_all(pe, a, k):
        ws = list(a[0])
        for (lname, lws, _) in spec:
          received[lname] = ws[:len(lws)]
          ws = ws[len(lws):]
        if ws:
          received["<extra>"] = ws
      return Mock("qmodel", {
          "set_weights": set_all, "layers": ql,
          "get_layer": lambda pe, a, k: [
              l for l in ql if l.attrs["name"] == (a[0] if a else
                                                   k.get("name"))][0]})
    pe = PE(repo, module_overrides={UM: {"model_from_json": load}})
    pe.ext_overrides = {"tf.keras.models.load_model": load,
                        "tf.keras.models.model_from_json": load}
    user = {"mine": "object"}
    src_layers = mk_layers(False)
    model = Mock("model", {
        "to_json": lambda pe, a, k: Mock("json", {}),
        "layers": src_layers,
        "get_layer": lambda pe, a, k: [
            l for l in src_layers if l.attrs["name"] == (
                a[0] if a else k.get("name"))][0],
        "get_weights": lambda pe, a, k: [w for _, ws, _ in spec
                                         for w in ws]})
    try:
      if fname == "load_qmodel":
        pe.call(pe.lookup_global(fname, um), ["file.h5"],
                {"custom_objects": user})
      elif fname == "clone_model":
        pe.call(pe.lookup_global(fname, um), [model],
                {"custom_objects": user})
      else:
        pe.call(pe.lookup_global(fname, um), [Mock("json", {})],
                {"custom_objects": user})
    except PyRaise as e:
      rep.fail("R4", unit, "route-raises", "raises %s" % e, loc=um.loc(fn))
      continue
    co = seen.get("custom_objects")
    rep.check(isinstance(co, dict) and "QDense" in co and "quantized_bits"
              in co and co.get("mine") == "object", "R4", unit,
              "loader-without-library-objects",
              "the Keras loader is called with custom_objects=%s: the "
              "library's classes (and the caller's) must be in it" %
              (sorted(co) if isinstance(co, dict) else co), loc=um.loc(fn))
    if fname == "clone_model":
      # every layer of the clone receives exactly the source layer's
      # parameters (trainable or not), whichever way they are transferred
      for lname, ws, _ in spec:
        got = received.get(lname, [])
        rep.check(list(got) == list(ws), "R4", unit,
                  "clone-weights-not-transferred:" + lname,
                  "the clone's layer %r receives %s, the source layer holds "
                  "%s" % (lname, got, ws), loc=um.loc(fn))
      rep.check("<extra>" not in received, "R4", unit,
                "clone-weights-misaligned", "weights left over: %s" %
                received.get("<extra>"), loc=um.loc(fn))
    rep.check(user == {"mine": "object"}, "R4", unit,
              "caller-dictionary-modified",
              "the caller's custom_objects dictionary was modified: %s" %
              sorted(user), loc=um.loc(fn))


def rule_wrappers(rep, repo):
  """R6: the constraint and initializer wrappers that end up inside layer
  configs.  `get_auto_range_constraint_initializer`, `get_constraint`,
  `get_initializer`, `Clip` and `QInitializer` are interpreted (Keras'
  `constraints.get` / `initializers.get` pass objects through and build a
  stand-in from a name): the default constraint of a quantized weight clips
  to +-max(1, quantizer.max()); a `Clip` / `QInitializer` rebuilt from the
  dictionary Keras serialises it to ({"class_name", "config": get_config()})
  computes / holds the same; which initializers are wrapped."""
  ql = repo.module("qkeras.qlayers")
  qmod = repo.module("qkeras.quantizers")
  for need in ("Clip", "QInitializer"):
    if need not in ql.classes:
      raise AnalysisError("anchor-missing class qlayers.%s" % need)
  for need in ("get_constraint", "get_initializer",
               "get_auto_range_constraint_initializer"):
    if need not in ql.functions:
      raise AnalysisError("anchor-missing function qlayers.%s" % need)
  unit = "%s::Clip" % ql.relpath
  rep.unit(unit)
  fw = Fwd()

  def new_pe():
    pe = PE(repo)
    pe.opaque_ext = True

    def kget(pe_, a, k):
      v = a[0]
      if isinstance(v, str):
        cname = {"he_normal": "HeNormal", "ones": "Ones", "zeros": "Zeros",
                 "glorot_uniform": "GlorotUniform"}.get(v, v)
        return Mock(cname, {"__class__": Mock("class", {"__name__": cname}),
                            "scale": F(2), "name": v,
                            "__call__": lambda pe__, a_, k_: Tensor(
                                ("sym", "initial_" + v), ())})
      return v
    pe.ext_overrides = {"tf.keras.constraints.get": kget,
                        "tf.keras.initializers.get": kget}
    return pe
  configs = [("quantized_bits", dict(bits=4, integer=0, alpha=1)),
             ("quantized_bits", dict(bits=6, integer=2, alpha=1)),
             ("quantized_po2", dict(bits=4, max_value=4)),
             ("binary", dict(alpha=1)), ("ternary", dict(alpha=1)),
             ("quantized_bits", dict(bits=4, integer=0, alpha="auto"))]
  n = 0
  for qname, qkw in configs:
    cfg = "%s(%s)" % (qname, qref.show_kwargs(qkw))
    pe = new_pe()
    try:
      q = pe.call(pe.lookup_global(qname, qmod), [], dict(qkw))
      qmax = pe.call(pe.getattr(q, "max"), [], {})
      c, ini = pe.call(pe.lookup_global(
          "get_auto_range_constraint_initializer", ql), [q, None,
                                                         "he_normal"], {})
      w = pe.x_input()
      out = pe.call(c, [w], {})
      ccfg = pe.call(pe.getattr(c, "get_config"), [], {})
      c2 = pe.call(pe.lookup_global("get_constraint", ql), [
          {"class_name": "Clip", "config": dict(ccfg)}, q], {})
      out2 = pe.call(c2, [w], {})
    except PyRaise as e:
      rep.fail("R6", unit, "wrapper-raises", "%s: raises %s" % (cfg, e),
               loc=ql.classes["Clip"].loc(), instance=cfg)
      continue
    n += 1
    m = fw(pe.as_term(qmax)).const_value()
    m = max(F(1), F(m)) if m is not None else None
    want = None if m is None else fw(("app", "clip", (), (
        w.term, ("c", -m), ("c", m))))
    rep.check(want is not None and isinstance(out, Tensor) and
              fw(out.term) == want, "R6", unit, "default-constraint",
              "%s: the default constraint of a weight computes %s, expected "
              "a clip to +-max(1, quantizer.max()) = +-%s" % (
                  cfg, show_nf(fw(out.term)) if isinstance(out, Tensor)
                  else out, m), loc=ql.classes["Clip"].loc(), instance=cfg)
    rep.check(isinstance(out2, Tensor) and isinstance(out, Tensor) and
              fw(out2.term) == fw(out.term), "R6", unit,
              "clip-changed-by-config-round-trip",
              "%s: Clip rebuilt from %r computes %s, the original %s" % (
                  cfg, ccfg, show_nf(fw(out2.term)) if isinstance(
                      out2, Tensor) else out2, show_nf(fw(out.term))
                  if isinstance(out, Tensor) else out),
              loc=ql.classes["Clip"].loc(), instance=cfg)
    # initializer wrapping: fixed-scale quantizers get a QInitializer around
    # the Keras initializer, data-dependent scales do not
    wrapped = isinstance(ini, Obj) and ini.cls.name == "QInitializer"
    want_wrapped = not isinstance(qkw.get("alpha"), str)
    iunit = "%s::get_auto_range_constraint_initializer" % ql.relpath
    rep.check(wrapped == want_wrapped, "R6", iunit, "initializer-wrapping",
              "%s: the he_normal initializer is %swrapped in QInitializer" %
              (cfg, "" if wrapped else "not "), loc=ql.loc(ql.functions[
                  "get_auto_range_constraint_initializer"]), instance=cfg)
    if wrapped:
      try:
        icfg = pe.call(pe.getattr(ini, "get_config"), [], {})
        ini2 = pe.call(pe.lookup_global("get_initializer", ql), [
            {"class_name": "QInitializer", "config": dict(icfg)}], {})
      except PyRaise as e:
        rep.fail("R6", "%s::QInitializer" % ql.relpath,
                 "initializer-round-trip-raises", "%s: raises %s" % (cfg, e),
                 loc=ql.classes["QInitializer"].loc(), instance=cfg)
        continue
      ok = isinstance(ini2, Obj) and ini2.cls.name == "QInitializer" and \
          ini2.attrs.get("initializer") is ini.attrs.get("initializer") and \
          ini2.attrs.get("use_scale") == ini.attrs.get("use_scale") and \
          ini2.attrs.get("is_po2") == ini.attrs.get("is_po2") and \
          _same_function(pe, ini2.attrs.get("quantizer"),
                         ini.attrs.get("quantizer")) and \
          ini.attrs.get("quantizer") is q and \
          ini.attrs.get("use_scale") is True and \
          ini.attrs.get("is_po2") == ("po2" in qname)
      rep.check(ok, "R6", "%s::QInitializer" % ql.relpath,
                "initializer-changed-by-config-round-trip",
                "%s: QInitializer holds %r; rebuilt from its config %r" % (
                    cfg, {k: ini.attrs.get(k) for k in (
                        "initializer", "use_scale", "quantizer", "is_po2")},
                    {k: ini2.attrs.get(k) for k in (
                        "initializer", "use_scale", "quantizer", "is_po2")}
                    if isinstance(ini2, Obj) else ini2),
                loc=ql.classes["QInitializer"].loc(), instance=cfg)
  # pass-through cases
  pe = new_pe()
  garci = pe.lookup_global("get_auto_range_constraint_initializer", ql)
  q = pe.call(pe.lookup_global("quantized_bits", qmod), [], dict(
      bits=4, integer=0, alpha=1))
  iunit = "%s::get_auto_range_constraint_initializer" % ql.relpath
  try:
    c0, i0 = pe.call(garci, [None, "CONSTRAINT", "INITIALIZER"], {})
    rep.check(c0 == "CONSTRAINT" and i0 == "INITIALIZER", "R6", iunit,
              "no-quantizer-pass-through",
              "without a quantizer the constraint / initializer become %r / "
              "%r" % (c0, i0))
    for iname in ("ones", "zeros"):
      _, i1 = pe.call(garci, [q, None, iname], {})
      rep.check(isinstance(i1, Mock), "R6", iunit,
                "constant-initializer-wrapped:" + iname,
                "the %s initializer becomes %r" % (iname, i1))
    user = Mock("user constraint", {"__call__": lambda pe_, a, k: a[0]})
    c1, _ = pe.call(garci, [q, user, "ones"], {})
    rep.check(c1 is user, "R6", iunit, "user-constraint-replaced",
              "a constraint given by the user becomes %r" % (c1,))
    # the forms a user constraint arrives in when a model is rebuilt from
    # JSON (model_quantize, clone_model, quantized_model_from_json): the
    # serialised dictionary of a Keras constraint, or its name
    for form, ident in (("serialised dictionary", {
        "class_name": "MaxNorm", "config": {"max_value": 2, "axis": 0}}),
                        ("name", "non_neg")):
      c2, _ = pe.call(garci, [q, ident, "ones"], {})
      wrapped = isinstance(c2, Obj)
      rep.check(not wrapped and (c2 == ident or (
          isinstance(c2, Mock) and c2.attrs.get("name") == ident)), "R6",
                iunit, "user-constraint-replaced:" + form,
                "a user constraint given as a %s (%r) becomes %r instead of "
                "what constraints.get makes of it" % (form, ident, c2))
  except PyRaise as e:
    rep.fail("R6", iunit, "wrapper-raises", "raises %s" % e)
  rep.extra["constraint_initializer_wrappers_checked"] = n


def show_nf(nf):
  from ..nf import show
  return show(nf, 160)


def run(rep, repo, tier):
  rep.trusted.append("Keras model_from_json / load_model resolve class names "
                     "through custom_objects and call cls.from_config")
  rep.assumptions.append("bit-identical predictions and HDF5 I/O are not "
                         "decided")
  table = rule_table(rep, repo)
  rule_layer_configs(rep, repo, table)
  rule_routes(rep, repo)
  rule_layer_roundtrip(rep, repo, table)
  rep.require_instances("R5", 25)
  if rule_rebuilt_layer_computes_the_same(rep, repo, table) < 2:
    raise AnalysisError("instance-count rebuilt pooling layers: %r" %
                        rep.extra.get("rebuilt_layers_not_interpretable"))
  if rule_frozen_then_unfrozen(rep, repo, table) < 8:
    raise AnalysisError("instance-count frozen layers: %r" %
                        rep.extra.get("frozen_layers_not_interpretable"))
  rule_wrappers(rep, repo)
  rep.require_instances("R6", 20)
  rep.sample({"custom_object_table": sorted(table)})
  rep.require_instances("R1", 50)
  rep.require_instances("R2", 150)
  rep.require_instances("R3", 20)
  rep.require_instances("R4", 6)
