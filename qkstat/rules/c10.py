"""C10 - quantizer strings.

R1 no code execution on the text path: no eval/exec/compile/__import__/
   importlib call in the modules that turn quantizer text into objects; the
   string arm of get_quantizer reaches only safe_eval, which resolves the
   callee by dictionary lookup.
R2 GetParams rejects a positional argument after a keyword argument
   (the rejecting raise precedes the return on all paths).
R3 literal dispatch in GetArg: each predicate IsX guards its own converter X,
   in the order Bool, Num, None, list, string.
R4 printer round trip (subsumes positional slots, keywords, completeness,
   totality and printer/parser grammar agreement): for every class and every
   constructor option varied one at a time, str(q) is computed by partially
   evaluating __str__, handed to get_quantizer (safe_eval / GetParams /
   GetArg interpreted on the repository's AST, pyparsing modelled by
   qkstat/gram.py) and the quantizer it builds must compute the same forward
   function as q for all inputs.
"""
import ast
from fractions import Fraction as F

from ..loader import AnalysisError
from ..pe import PE, PyRaise, Tensor, Obj, Func, Mock, NArr, NpFloat, Unsupported
from ..pe import FloatTag
from .. import quant, qref, prims
from ..qir import Fwd, equal_mod_finite
from ..nf import NF, show
from .c09 import ALTS, show_kw, same_value, PTS

TECHNIQUE = ("AST scan for code-execution sinks; structural rules on "
             "GetParams/GetArg; partial evaluation of __str__ composed with "
             "the interpreted parser (safe_eval) and forward normal-form "
             "equality of original and re-parsed quantizer.")

TEXT_PATH_MODULES = (
    "qkeras.safe_eval", "qkeras.quantizers", "qkeras.qlayers",
    "qkeras.qconvolutional", "qkeras.qrecurrent", "qkeras.qpooling",
    "qkeras.qmac", "qkeras.qnormalization", "qkeras.utils",
    "qkeras.autoqkeras.utils", "qkeras.autoqkeras.autoqkeras_internal",
    "qkeras.autoqkeras.quantization_config", "qkeras.qconv2d_batchnorm",
    "qkeras.qdepthwiseconv2d_batchnorm", "qkeras.qdepthwise_conv2d_transpose",
    "qkeras.qseparable_conv2d_transpose", "qkeras.qoctave",
    "qkeras.base_quantizer", "qkeras.quantizer_registry", "qkeras.registry")

SINKS = ("eval", "exec", "compile", "__import__", "execfile")


def rule_no_exec(rep, repo):
  n = 0
  for mname in TEXT_PATH_MODULES:
    m = repo.modules.get(mname)
    if m is None:
      if mname in ("qkeras.safe_eval", "qkeras.quantizers"):
        raise AnalysisError("anchor-missing module %s" % mname)
      continue
    rep.unit(m.relpath)
    n += 1
    hits = []
    for node in ast.walk(m.tree):
      if isinstance(node, ast.Call):
        f = node.func
        name = None
        if isinstance(f, ast.Name) and f.id in SINKS and \
            f.id not in m.functions:
          name = f.id
        elif isinstance(f, ast.Attribute):
          dotted = ast.unparse(f)
          if dotted.startswith("importlib.") or dotted in (
              "builtins.eval", "builtins.exec", "os.system", "os.popen",
              "subprocess.run", "subprocess.call", "subprocess.Popen",
              "pickle.loads", "marshal.loads"):
            name = dotted
        if name:
          hits.append((name, m.loc(node)))
    rep.check(not hits, "R1", m.relpath, "code-execution-sink",
              "call(s) that execute text as code on the quantizer-string "
              "path: %s" % hits, loc=hits[0][1] if hits else None)
  # positive example for the zero-count rule
  probe = ast.parse("def f(s):\n  return eval(s)\n")
  if not any(isinstance(x, ast.Call) and isinstance(x.func, ast.Name) and
             x.func.id in SINKS for x in ast.walk(probe)):
    raise AnalysisError("self-test of the sink scan failed")
  # get_quantizer string arm -> safe_eval only
  qm = repo.module(quant.QMOD)
  gq = qm.functions.get("get_quantizer")
  if gq is None:
    raise AnalysisError("anchor-missing function get_quantizer")
  arm = None
  for node in ast.walk(gq):
    if isinstance(node, ast.If):
      t = ast.unparse(node.test)
      if "string_types" in t or "str)" in t:
        arm = node
  ok = False
  if arm is not None and len(arm.body) == 1 and isinstance(arm.body[0],
                                                            ast.Return):
    v = arm.body[0].value
    ok = isinstance(v, ast.Call) and qm.resolve(ast.unparse(v.func)) == \
        "qkeras.safe_eval.safe_eval" and len(v.args) >= 1 and \
        isinstance(v.args[0], ast.Name)
  rep.check(ok, "R1", "%s::get_quantizer" % qm.relpath,
            "string-arm-not-safe_eval",
            "the string branch of get_quantizer must return safe_eval("
            "identifier, ...) and nothing else", loc=qm.loc(gq))
  # safe_eval resolves the callee by lookup
  sm = repo.module("qkeras.safe_eval")
  se = sm.functions.get("safe_eval")
  if se is None:
    raise AnalysisError("anchor-missing function safe_eval")
  callee_defs = []
  for node in ast.walk(se):
    if isinstance(node, ast.Assign) and len(node.targets) == 1 and \
        isinstance(node.targets[0], ast.Name) and \
        node.targets[0].id == "quantizer":
      callee_defs.append(ast.unparse(node.value))
  allowed = all(d.startswith("op_dict.get(") or
                d.startswith("keras.activations.get(") or
                d.startswith("op_dict[") for d in callee_defs)
  rep.check(bool(callee_defs) and allowed, "R1",
            "%s::safe_eval" % sm.relpath, "callee-not-from-lookup",
            "the callable applied by safe_eval must come from op_dict.get / "
            "keras.activations.get, got %s" % callee_defs, loc=sm.loc(se))
  rep.extra["modules_scanned_for_sinks"] = n


def rule_getparams(rep, repo):
  sm = repo.module("qkeras.safe_eval")
  fn = sm.functions.get("GetParams")
  if fn is None:
    raise AnalysisError("anchor-missing function GetParams")
  unit = "%s::GetParams" % sm.relpath
  rep.unit(unit)
  # the function is interpreted on probes that only exercise the ordering
  # check: a keyword item followed by a positional item must raise, the
  # reverse order must not.  (The probes are the two orderings of the rule,
  # not test inputs for the quantizers.)
  # every arrangement of up to five positional (p) / keyword (k) items: the
  # list is rejected exactly when some positional item follows a keyword
  import itertools
  wrong = []
  n = 0
  for length in range(1, 6):
    for kinds in itertools.product("pk", repeat=length):
      items = []
      for i, kd in enumerate(kinds):
        items.append(str(i + 1) if kd == "p" else "a%d=%d" % (i, i + 1))
      text = "(" + ",".join(items) + ")"
      must_raise = "kp" in "".join(kinds).replace("kk", "k").replace(
          "kk", "k") or any(kd == "p" and "k" in kinds[:i]
                            for i, kd in enumerate(kinds))
      pe = PE(repo)
      f = pe.lookup_global("GetParams", sm)
      try:
        pe.call(f, [text], {})
        raised = False
      except PyRaise:
        raised = True
      n += 1
      if raised != must_raise:
        wrong.append("%s %s" % (text, "rejected" if raised else "accepted"))
  rep.check(not wrong, "R2", unit, "positional-after-keyword-not-rejected",
            "GetParams on %d arrangements of positional / keyword items: %s "
            "(a list must be rejected exactly when a positional item "
            "follows a keyword item)" % (n, wrong[:6]), loc=sm.loc(fn),
            observed="; ".join(wrong[:6]))
  # structural: the raise is inside a loop over items that precedes the
  # return
  raises = [n for n in ast.walk(fn) if isinstance(n, ast.Raise)]
  ret = [n for n in ast.walk(fn) if isinstance(n, ast.Return)]
  rep.check(bool(raises) and bool(ret) and
            max(r.lineno for r in raises) < ret[-1].lineno, "R2", unit,
            "check-after-return",
            "the argument-order check must run before GetParams returns",
            loc=sm.loc(fn))


def rule_parse_is_stateless(rep, repo):
  """R5: what a quantizer string parses to depends on the string only.  One
  interpreter runs safe_eval several times (memoising decorators are
  modelled): a parse with caller overrides, a parse whose list argument is
  modified by the callee, and afterwards plain parses of the same argument
  text - those must receive exactly the arguments written in the text."""
  sm = repo.module("qkeras.safe_eval")
  fn = sm.functions.get("safe_eval")
  if fn is None:
    raise AnalysisError("anchor-missing function safe_eval")
  unit = "%s::safe_eval" % sm.relpath
  rep.unit(unit)
  loc = sm.loc(fn)
  calls = []

  def callee(tag, mutate=False):
    def f(pe, a, k):
      calls.append((tag, [list(v) if isinstance(v, list) else v for v in a],
                    {kk: (list(v) if isinstance(v, list) else v)
                     for kk, v in k.items()}))
      if mutate:
        for v in list(a) + list(k.values()):
          if isinstance(v, list):
            v.append(99)
      return Mock("built by " + tag, {})
    return f
  opd = {"qa": callee("qa"), "qb": callee("qb"), "qm": callee("qm", True)}
  pe = PE(repo)
  pe.opaque_ext = True
  se = pe.lookup_global("safe_eval", sm)
  script = [("qa(4,1)", {"use_stochastic_rounding": True}),
            ("qb(4,1)", {}),
            ("qa(4,1)", {}),
            ("qm(2,axes=[0 1])", {}),
            ("qb(2,axes=[0 1])", {}),
            ("qa(3,alpha=2)", {"alpha": 5}),
            ("qb(3,alpha=2)", {})]
  try:
    for text, extra in script:
      pe.call(se, [text, opd], dict(extra))
  except PyRaise as e:
    rep.fail("R5", unit, "parse-sequence-raises", "safe_eval raises %s in "
             "the sequence %r" % (e, [t for t, _ in script]), loc=loc)
    return
  want = [("qa", [4, 1], {"use_stochastic_rounding": True}),
          ("qb", [4, 1], {}), ("qa", [4, 1], {}),
          ("qm", [2], {"axes": [0, 1]}), ("qb", [2], {"axes": [0, 1]}),
          ("qa", [3], {"alpha": 5}), ("qb", [3], {"alpha": 2})]

  def norm(v):
    if isinstance(v, Tensor) and v.term[0] == "c":
      v = v.term[1]
    if hasattr(v, "value"):
      v = v.value
    if isinstance(v, list):
      return [norm(e) for e in v]
    return int(v) if isinstance(v, F) and v.denominator == 1 else v
  got = [(t, [norm(v) for v in a], {kk: norm(v) for kk, v in k.items()})
         for t, a, k in calls]
  for i, (g, w) in enumerate(zip(got, want)):
    rep.check(g == w, "R5", unit, "parse-depends-on-earlier-parse",
              "call %d, safe_eval(%r%s): the callee receives %r, the text "
              "says %r (earlier calls: %r)" % (
                  i + 1, script[i][0], ", **%r" % script[i][1]
                  if script[i][1] else "", g, w,
                  [t for t, _ in script[:i]]), loc=loc,
              instance=script[i][0], observed=str(g))
  rep.check(len(got) == len(want), "R5", unit, "parse-sequence-length",
            "%d callee invocations for %d parses" % (len(got), len(want)),
            loc=loc)


def rule_getarg(rep, repo):
  sm = repo.module("qkeras.safe_eval")
  fn = sm.functions.get("GetArg")
  if fn is None:
    raise AnalysisError("anchor-missing function GetArg")
  unit = "%s::GetArg" % sm.relpath
  rep.unit(unit)
  chain = []
  node = fn.body[0] if fn.body else None
  # skip a docstring
  body = [s for s in fn.body if not (isinstance(s, ast.Expr) and
                                     isinstance(s.value, ast.Constant))]
  node = body[0] if body else None
  while isinstance(node, ast.If):
    pred = ast.unparse(node.test.func) if isinstance(node.test, ast.Call) \
        else ast.unparse(node.test)
    r = node.body[0]
    conv = None
    if isinstance(r, ast.Return):
      v = r.value
      conv = ast.unparse(v.func) if isinstance(v, ast.Call) else \
          ast.unparse(v)
    chain.append((pred, conv))
    if len(node.orelse) == 1:
      node = node.orelse[0]
    else:
      node = None
  if isinstance(node, ast.Return):
    v = node.value
    chain.append(("else", ast.unparse(v.func) if isinstance(v, ast.Call)
                  else ast.unparse(v)))
  want = [("IsBool", "Bool"), ("IsNum", "Num"), ("IsNone", "None"),
          ("IsListofNums", "ListofNums"), ("else", "Str")]
  rep.extra["GetArg_dispatch"] = chain
  rep.check(chain == want, "R3", unit, "literal-dispatch",
            "GetArg dispatches %s, expected %s" % (chain, want),
            loc=sm.loc(fn))
  for name in ("IsBool", "IsNum", "IsNone", "IsListofNums", "Bool", "Num",
               "ListofNums", "Str"):
    rep.check(name in sm.functions, "R3", unit, "missing-helper:" + name,
              "helper %s is missing" % name, loc=sm.loc(fn))


# One representative per token class of the literal grammar the property
# names (ints, negative and scientific floats, booleans, None, quoted
# strings, number lists), with the value the same token has in Python.
LITERAL_CLASSES = [
    ("int", "12", 12), ("negative int", "-3", -3),
    ("float", "0.5", F(1, 2)), ("negative float", "-2.5", F(-5, 2)),
    ("float without leading digit", ".5", F(1, 2)),
    ("float with trailing dot", "2.", F(2)),
    ("scientific", "1e3", F(1000)), ("scientific capital", "1E3", F(1000)),
    ("scientific negative exponent", "5e-2", F(1, 20)),
    ("scientific signed exponent", "1E+2", F(100)),
    ("scientific repr of a small float", "1e-05", F(1, 100000)),
    ("negative scientific", "-1.5e-05", F(-3, 200000)),
    ("True", "True", True), ("False", "False", False), ("None", "None", None),
    ("single-quoted string", "'auto'", "auto"),
    ("double-quoted string", '"auto_po2"', "auto_po2"),
    ("number list", "[1 2]", [1, 2]),
    # the entries of a list are number tokens of every class above
    ("number list with negative entries", "[-1 -2]", [-1, -2]),
    ("float list", "[0.5 0.25]", [F(1, 2), F(1, 4)]),
    ("float list with a negative entry", "[-0.5 0.25 1 2]",
     [F(-1, 2), F(1, 4), 1, 2]),
    ("list of scientific floats", "[1.e-05 2.e-05]",
     [F(1, 100000), F(2, 100000)]),
    ("list with signed exponents", "[1e+2 -5e-2]", [F(100), F(-1, 20)]),
]


def rule_literals(rep, repo):
  """R3b: the converter chosen by GetArg for each token class yields the
  value the same token has in Python.  (The converters are interpreted on
  one representative per token class of the grammar - a finite table - not
  on sampled inputs.)"""
  sm = repo.module("qkeras.safe_eval")
  fn = sm.functions["GetArg"]
  unit = "%s::GetArg" % sm.relpath
  for name, text, want in LITERAL_CLASSES:
    pe = PE(repo)
    try:
      got = pe.call(pe.lookup_global("GetArg", sm), [text], {})
    except PyRaise as e:
      got = "raises %s" % e.exc_name
    if isinstance(want, bool) or want is None or isinstance(want, str):
      ok = type(got) is type(want) and got == want
    elif isinstance(want, list):
      ok = isinstance(got, list) and len(got) == len(want) and all(
          not isinstance(g, (str, bool)) and g is not None and F(g) == F(w)
          for g, w in zip(got, want))
    else:
      ok = not isinstance(got, (str, bool, list)) and got is not None and \
          F(got) == F(want)
    rep.check(ok, "R3", unit, "literal-class:" + name,
              "the %s literal %r is converted to %r; Python evaluates it to "
              "%r" % (name, text, got, want), loc=sm.loc(fn))


# float-valued options are also printed with values whose repr() uses
# exponent notation
EXPONENT_ALTS = {
    "ternary": [dict(alpha=F(1), threshold=F(1, 100000))],
    "bernoulli": [dict(temperature=F(1, 100000))],
    "stochastic_binary": [dict(temperature=F(1, 100000))],
    "quantized_ulaw": [dict(u=F(10) ** 16)],
    "binary": [dict(alpha=F(1, 100000))],
}


NUMPY_SCALAR_ALTS = {
    "quantized_bits": [("alpha", F(2))],
    "quantized_linear": [("alpha", F(2))],
    "binary": [("alpha", F(2))],
    "ternary": [("alpha", F(2)), ("threshold", F(1, 2))],
    "stochastic_binary": [("alpha", F(2)), ("temperature", F(4))],
    "stochastic_ternary": [("temperature", F(4))],
    "bernoulli": [("alpha", F(2)), ("temperature", F(4))],
    "quantized_relu": [("negative_slope", F(1, 4))],
    "quantized_ulaw": [("u", F(100))],
    "quantized_po2": [("max_value", F(2))],
    "quantized_relu_po2": [("max_value", F(2)), ("negative_slope", F(1, 4))],
    "quantized_hswish": [("alpha", F(2))],
}


_NOCONST = object()
SIBLING_DEFAULTS = {}


def _const_default(dexpr):
  import ast as _ast
  if dexpr is None:
    return _NOCONST
  try:
    v = _ast.literal_eval(dexpr)
  except (ValueError, SyntaxError):
    return _NOCONST
  if isinstance(v, bool) or v is None or isinstance(v, str):
    return v
  if isinstance(v, float):
    return FloatTag(F(str(v)))
  if isinstance(v, int):
    return v
  return _NOCONST


def collect_sibling_defaults(mod, classes):
  SIBLING_DEFAULTS.clear()
  for cls in classes:
    ci = mod.classes.get(cls)
    if ci is None:
      continue
    for p, dexpr in ci.init_params()[0]:
      v = _const_default(dexpr)
      if v is not _NOCONST and isinstance(v, (int, F)) and not isinstance(
          v, bool):
        SIBLING_DEFAULTS.setdefault(p, set()).add(F(v))


def printer_roundtrip(rep, repo, mod, cls, kw, varied):
  cfg = "%s(%s)" % (cls, show_kw(kw))
  ci = mod.classes[cls]
  owner, sfn = ci.find_method("__str__")
  unit = "%s::%s.__str__" % (mod.relpath, cls)
  if sfn is None:
    rep.fail("R4", unit, "no-printer", "class has no __str__",
             loc=ci.loc())
    return False
  loc = owner.module.loc(sfn)
  pe = PE(repo)
  cref = pe.lookup_global(cls, mod)
  try:
    q = pe.call(cref, [], dict(kw))
  except PyRaise as e:
    raise AnalysisError("instance-count base configuration %s rejected: %s"
                        % (cfg, e))
  tag = varied or "base"
  try:
    text = prims.call(pe, "str", [q], {}, None)
  except PyRaise as e:
    rep.fail("R4", unit, "printer-raises:%s" % e.exc_name,
             "str(q) raises %s" % e, loc=loc, instance=cfg)
    return False
  if not isinstance(text, str):
    rep.fail("R4", unit, "printer-returns-non-string:" + tag,
             "str(q) is %r" % (text,), loc=loc, instance=cfg)
    return False
  gq = pe.lookup_global("get_quantizer", mod)
  try:
    q2 = pe.call(gq, [text], {})
  except PyRaise as e:
    rep.fail("R4", unit, "printed-text-rejected:%s:%s" % (tag, e.exc_name),
             "str(q) = %r is rejected by get_quantizer: %s" % (text, e),
             loc=loc, instance=cfg, facts={"text": text})
    return False
  if not isinstance(q2, Obj) or q2.cls is not ci:
    rep.fail("R4", unit, "printed-text-builds-other-object:" + tag,
             "str(q) = %r builds %r" % (text, q2), loc=loc, instance=cfg)
    return False
  syms = {"post_training_scale": NF.sym("pts")}
  try:
    pe.rand_counter = 0
    o1 = pe.call(q, [pe.x_input()], {})
  except PyRaise:
    # the configuration itself cannot be called (e.g. ternary with a string
    # alpha and a threshold): not a valid quantizer, outside the quantifier
    rep.extra["uncallable_configurations_skipped"] = rep.extra.get(
        "uncallable_configurations_skipped", 0) + 1
    return True
  try:
    pe.rand_counter = 0
    o2 = pe.call(q2, [pe.x_input()], {})
  except PyRaise as e:
    rep.fail("R4", unit, "call-raises-after-reparse:" + tag,
             "calling the re-parsed quantizer %r raises %s" % (text, e),
             loc=loc, instance=cfg)
    return False
  same = True
  for ph in ("infer", "train"):
    if not equal_mod_finite(Fwd(ph, syms)(o1.term), Fwd(ph, syms)(o2.term)):
      same = False
  if same:
    rep.ok("R4")
    return True
  params = [p for p, _ in ci.init_params()[0]]
  changed = sorted(a for a in set(q.attrs) | set(q2.attrs)
                   if a not in ("built", "scale", "quantization_scale") and
                   not same_value(q.attrs.get(a), q2.attrs.get(a)))
  rep.fail("R4", unit, "reparsed-differs:" + tag,
           "str(q) = %r parses to a quantizer that computes a different "
           "function; attributes that differ: %s" % (text, changed), loc=loc,
           instance=cfg, facts={"text": text, "changed": changed})
  return False


def rule_consumers(rep, repo):
  """R6: the consumers that hand quantizer text on.  Every layer class with
  a get_quantization_config() is built by its own constructor with quantizer
  OBJECTS (c13.layer_pe: Keras parents are stand-ins); each entry that names
  a quantizer / activation must be a string that get_quantizer() parses to
  the function the layer applies (its `*_internal` quantizer, its
  activation); autoqkeras.utils.get_quantization_dictionary collects exactly
  these dictionaries under the layer names."""
  from .c13 import layer_pe, exported_classes, _same_function
  mod = repo.module(quant.QMOD)
  table = exported_classes(repo)
  n = 0
  built = []
  from ..pe import ClassRef
  for name, ci in sorted(table.items()):
    if ci.module.name == quant.QMOD:
      continue
    cref = ClassRef(ci)
    owner, fn = ci.find_method("get_quantization_config")
    if fn is None or name in ("QAdaptiveActivation", "QBidirectional"):
      continue     # (EMA state / wraps other layers)
    params = [p for p, _ in ci.init_params()[0]]
    unit = "%s::%s.get_quantization_config" % (owner.module.relpath,
                                               owner.name)
    rep.unit(unit)
    loc = owner.module.loc(fn)
    pe = layer_pe(repo, ci, name)
    kw = {}
    for i, p in enumerate(q for q in params if q.endswith("_quantizer")):
      kw[p] = pe.call(pe.lookup_global("quantized_bits", mod), [], dict(
          bits=3 + i, integer=1, symmetric=1))
    if "activation" in params:
      kw["activation"] = pe.call(pe.lookup_global("quantized_relu", mod),
                                 [], dict(bits=5, integer=2))
    if "recurrent_activation" in params:
      kw["recurrent_activation"] = pe.call(
          pe.lookup_global("quantized_sigmoid", mod), [], dict(bits=6))
    for p_, v_ in (("units", 4), ("filters", 8), ("kernel_size", 3),
                   ("pool_size", 2)):
      if p_ in params:
        kw[p_] = v_
    if name.endswith("Batchnorm") and "inverse_quantizer" in kw:
      del kw["inverse_quantizer"]
    if name == "QBatchNormalization":
      kw.pop("inverse_quantizer", None)
    try:
      layer = pe.call(cref, [], dict(kw))
      cfg = pe.call(pe.getattr(layer, "get_quantization_config"), [], {})
    except (PyRaise, Unsupported) as e:
      rep.extra.setdefault("consumers_not_interpretable", {})[name] = str(
          e)[:100]
      continue
    entries = cfg if isinstance(cfg, dict) else {"activation": cfg}
    if name == "QActivation" and not isinstance(cfg, dict):
      applied = {"activation": layer.attrs.get("quantizer")}
    else:
      applied = {}
      for k in entries:
        a_ = k + "_internal" if k.endswith("_quantizer") else (
            k if k in ("activation", "recurrent_activation") else None)
        if a_ is None:
          continue
        try:
          applied[k] = pe.getattr(layer, a_)   # (a property on RNN layers)
        except PyRaise:
          applied[k] = None
    built.append((name, layer, cfg))
    for k, q in sorted(applied.items()):
      text = entries.get(k)
      inst = "%s.%s" % (name, k)
      if q is None:
        rep.check(text == "None", "R6", unit, "entry-for-absent-quantizer",
                  "%s: no quantizer is applied but the entry is %r" % (
                      inst, text), loc=loc, instance=inst)
        continue
      if not isinstance(text, str):
        rep.fail("R6", unit, "entry-not-text", "%s is %r" % (inst, text),
                 loc=loc, instance=inst)
        continue
      try:
        q2 = pe.call(pe.lookup_global("get_quantizer", mod), [text], {})
      except PyRaise as e:
        rep.fail("R6", unit, "entry-does-not-parse",
                 "%s = %r is rejected by get_quantizer: %s" % (inst, text, e),
                 loc=loc, instance=inst)
        continue
      n += 1
      rep.check(_same_function(pe, q, q2), "R6", unit,
                "entry-is-not-the-applied-quantizer",
                "%s = %r parses to a quantizer that differs from the one "
                "the layer applies" % (inst, text), loc=loc, instance=inst)
  rep.extra["consumer_entries_reparsed"] = n
  if n < 20 and not rep.findings:
    raise AnalysisError("instance-count only %d quantization-config entries "
                        "could be re-parsed (%s)" % (
                            n, rep.extra.get("consumers_not_interpretable")))
  # get_quantization_dictionary
  au = repo.module("qkeras.autoqkeras.utils")
  fn = au.functions.get("get_quantization_dictionary")
  if fn is None:
    raise AnalysisError("anchor-missing autoqkeras.utils."
                        "get_quantization_dictionary")
  unit = "%s::get_quantization_dictionary" % au.relpath
  rep.unit(unit)
  layers = []
  want = {}
  for i, (name, layer, cfg) in enumerate(built[:6]):
    layer.attrs["name"] = "layer_%d" % i
    layers.append(layer)
    want["layer_%d" % i] = cfg
  layers.insert(2, Mock("plain keras layer", {"name": "plain"}))
  pe = PE(repo)
  try:
    got = pe.call(pe.lookup_global("get_quantization_dictionary", au),
                  [Mock("model", {"layers": layers})], {})
    rep.check(got == want, "R6", unit, "dictionary!=per-layer-configs",
              "get_quantization_dictionary returns %r, expected the "
              "get_quantization_config() of every layer that has one under "
              "the layer's name: %r" % (got, want), loc=au.loc(fn))
  except PyRaise as e:
    rep.fail("R6", unit, "raises", "raises %s" % e, loc=au.loc(fn))


def run(rep, repo, tier):
  mod = repo.module(quant.QMOD)
  rep.trusted.append("pyparsing subset modelled in qkstat/gram.py "
                     "(Suppress, Regex, Group, Optional, delimitedList, '+', "
                     "whitespace skipping); CPython str()/repr() of ints, "
                     "floats, bools, None, lists")
  rep.assumptions.append("the parse direction over arbitrary generated "
                         "argument lists is not decided (pyparsing itself is "
                         "a third-party library); only the repository's own "
                         "dispatch is analysed")
  rule_no_exec(rep, repo)
  rule_getparams(rep, repo)
  rule_parse_is_stateless(rep, repo)
  rep.require_instances("R5", 7)
  rule_getarg(rep, repo)
  rule_literals(rep, repo)
  rule_consumers(rep, repo)
  n = 0
  collect_sibling_defaults(mod, qref.ALL_QUANTIZERS)
  for cls in qref.ALL_QUANTIZERS:
    if cls not in mod.classes:
      raise AnalysisError("anchor-missing class %s" % cls)
    base, alts = ALTS[cls]
    ci = mod.classes[cls]
    params = [p for p, _ in mod.classes[cls].init_params()[0]]
    base_ok = printer_roundtrip(rep, repo, mod, cls, dict(base), None)
    n += 1
    singles = []
    for p, vals in sorted(alts.items()):
      if p not in params or p in ("var_name", "use_variables"):
        continue   # storage-only options do not change the function
      for v in vals:
        ctx = {}
        if isinstance(v, tuple):
          v, ctx = v
        if v is PTS or isinstance(v, NArr):
          continue   # tensor / array valued scales have no text form
        kw = dict(base)
        kw.update(ctx)
        kw[p] = v
        if printer_roundtrip(rep, repo, mod, cls, kw, p):
          singles.append((p, v, ctx))
        n += 1
    if base_ok:
      # two options at a time, among those that round-trip one at a time
      # (a pair that contains an option which already fails alone adds
      # nothing): catches printers whose positional slots or separators
      # depend on which other options are present
      for i in range(len(singles)):
        for j in range(i + 1, len(singles)):
          p1, v1, c1 = singles[i]
          p2, v2, c2 = singles[j]
          if p1 == p2 or p1 in c2 or p2 in c1 or any(
              k in c2 and c2[k] != c1[k] for k in c1):
            continue
          if tier != "thorough" and not any(
              pp == "alpha" and isinstance(vv, str)
              for pp, vv in ((p1, v1), (p2, v2))):
            continue   # quick: the pairs with a data-dependent scale, whose
            #            printers follow conventions of their own
          kw = dict(base)
          kw.update(c1)
          kw.update(c2)
          kw[p1] = v1
          kw[p2] = v2
          pe0 = PE(repo)
          try:
            pe0.call(pe0.lookup_global(cls, mod), [], dict(kw))
          except PyRaise:
            continue   # the constructor rejects the combination
          printer_roundtrip(rep, repo, mod, cls, kw, "%s+%s" % (p1, p2))
          n += 1
    for kw in EXPONENT_ALTS.get(cls, []):
      kw2 = dict(base)
      kw2.update(kw)
      printer_roundtrip(rep, repo, mod, cls, kw2, "exponent-notation")
      n += 1
    # the defaults the SIBLING classes give to an option of the same name
    # (a printer shared between classes omits "the default" - whose?)
    for p, dexpr in ci.init_params()[0]:
      own = _const_default(dexpr)
      for v in sorted(SIBLING_DEFAULTS.get(p, ()), key=repr):
        if own is _NOCONST or v == own or isinstance(v, (bool, str)) or \
            v is None or p in ("bits", "integer"):
          continue
        kw = dict(base)
        kw[p] = FloatTag(v) if isinstance(own, FloatTag) else v
        pe0 = PE(repo)
        try:
          pe0.call(pe0.lookup_global(cls, mod), [], dict(kw))
        except PyRaise:
          continue     # not a legal value for this class
        printer_roundtrip(rep, repo, mod, cls, kw, "sibling-default:" + p)
        n += 1
    # float-valued options given as numpy scalars (a scale computed from
    # data, e.g. alpha=np.max(np.abs(w))): str() prints them like python
    # floats, repr() does not (NumPy >= 2)
    for p, v in NUMPY_SCALAR_ALTS.get(cls, []):
      if p not in params:
        continue
      kw = dict(base)
      kw[p] = NpFloat(v)
      printer_roundtrip(rep, repo, mod, cls, kw, "numpy-scalar:" + p)
      n += 1
    # list-valued options (documented for binary / quantized_bits)
    if "scale_axis" in params and cls in ("binary", "quantized_bits"):
      kw = dict(base)
      kw.update(alpha="auto", scale_axis=[0])
      printer_roundtrip(rep, repo, mod, cls, kw, "scale_axis=list")
      n += 1
  rep.extra["printer_points"] = n
  rep.sample({"example": "quantized_bits(4,1,1,keep_negative=False,alpha="
                         "'auto_po2') is printed by the interpreted __str__, "
                         "re-parsed by the interpreted safe_eval and the "
                         "forward normal forms are compared"})
  rep.require_instances("R1", 10)
  rep.require_instances("R2", 2)
  rep.require_instances("R3", 5)
  rep.require_instances("R4", 100)

  # R20: construction history (shared with C09 R10): every option
  # alternative of these classes is built and used first in ONE interpreter;
  # each configuration then computes / prints / rebuilds what it does alone
  from . import c09 as _c09
  from .. import qref as _qref
  if _c09.rule_construction_history(
      rep, repo, repo.module(quant.QMOD), _qref.ALL_QUANTIZERS, "R20") < 5:
    raise AnalysisError("instance-count construction histories")
