"""C19 - qtools operation counts and energy sums.

R1 count formulas: get_operation_count (qtools_util) and the
   number_of_operations arms of estimate.extract_model_operations are
   partially evaluated on a synthetic layer whose input / output / kernel
   shapes are symbols; the resulting polynomial must equal the true MAC count
   of the layer class (reference below).  Output shapes are symbols, so
   every stride / padding / dilation is covered at once.
R2 writer / reader key agreement between the entries built by
   generate_layer_data_type_map (per class arm) and the keys read by
   energy_estimate / parameter_read_energy for the same classes.
R3 exhaustiveness: every dense / convolution / depthwise / pooling / merge
   class that gets a data-type entry has an op-energy arm.
R4 total = sum of entries: total_energy accumulates exactly the four values
   stored under "energy"; extract_energy_sum / extract_energy_profile sum
   exactly energy[key] for the keys of the class entry or "default".
R5 every OP[...] cost is clamped with max(., 0).
R7 per-layer entries: energy_estimate and parameter_read_energy are
   interpreted on a synthetic data-type map with one layer per class arm
   (operand types, counts, gate factors symbolic; the memory functions - R6 -
   and the OP cost functions uninterpreted).  Each entry must be the
   documented function: inputs = sum of reads of every input tensor with its
   own quantizer's bits and the layer's input flag, outputs = one write of
   the output shape with the output quantizer's bits and the output flag,
   parameters = reads of weight (and bias, when present) with their own
   quantizers' bits from weights_on_memory, op_cost = count x (gate_factor x
   OP[type][mode](gate_bits) + add cost of the accumulator) for MAC layers,
   (n_inputs - 1) x count x ... for merges, count x add cost for pooling,
   0 for activations; total_cost = int(sum of all entries).
R6 memory placement: memory_read_energy / memory_write_energy are partially
   evaluated for every (model-io flag, mode in dram/sram/fixed, rd_wr_on_io)
   with symbolic tensor sizes and opaque cost functions.  Documented rule
   (qtools example, forgiving_energy): rd_wr_on_io decides whether model
   inputs/outputs live in dram (sram acting as a cache) or are "already in
   SRAM"; so an io tensor costs what a non-io tensor costs in mode dram
   (rd_wr_on_io) or sram (otherwise), whatever mode the inner activations
   use; "fixed" costs nothing; dram costs contain the dram transfer and, with
   rd_wr_on_io, the sram side; the read and the write function agree
   (siblings) once rd/wr are swapped.
"""
import ast
from fractions import Fraction as F

from ..loader import AnalysisError
from ..pe import (PE, Tensor, Obj, Mock, PyRaise, Fork, Unsupported, Func,
                  ClassRef)
from ..qir import Fwd
from ..nf import NF, show

TECHNIQUE = ("Partial evaluation of the count functions on a symbolic layer "
             "(polynomial normal-form identity with the reference MAC "
             "count); writer/reader key-set comparison per class arm; "
             "symbolic evaluation of the energy sums.")

QU = "qkeras.qtools.qtools_util"
QE = "qkeras.qtools.qenergy.qenergy"
GM = "qkeras.qtools.generate_layer_data_type_map"
RQ = "qkeras.qtools.run_qtools"
ES = "qkeras.estimate"


CONCRETE_CLASSES = ("Conv2D", "QConv2D", "QConv2DBatchnorm",
                    "DepthwiseConv2D", "QDepthwiseConv2D", "Conv1D",
                    "QConv1D")


def S(name):
  return Tensor(("sym", name), ())


def N(name):
  return NF.sym(name)


def mock_layer(cname, rank, batch=None):
  """(layer mock, input_shape) with symbolic shapes; `batch` is the leading
  dimension (None, or a number for a model built with a fixed batch size)."""
  if rank == 4:
    ishape = (batch, S("Hi"), S("Wi"), S("Ci"))
    oshape = (batch, S("Ho"), S("Wo"), S("Co"))
    kshape = (S("kh"), S("kw"), S("kc"), S("kn"))
  elif rank == 3:
    ishape = (batch, S("Ti"), S("Ci"))
    oshape = (batch, S("To"), S("Co"))
    kshape = (S("k"), S("kc"), S("kn"))
  else:
    ishape = (batch, S("Ci"))
    oshape = (batch, S("Co"))
    kshape = (S("Ci"), S("Co"))
  attrs = {
      "__class__": Mock("class", {"__name__": cname}),
      "name": "layer",
      "compute_output_shape": lambda pe, a, k: oshape,
      "get_weights": lambda pe, a, k: [Mock("weight", {"shape": kshape}),
                                       Mock("bias", {"shape": (oshape[-1],)})],
  }
  if cname in ("AveragePooling2D", "AvgPool2D", "QAveragePooling2D"):
    attrs["pool_size"] = (S("ph"), S("pw"))
  if cname in CONCRETE_CLASSES:
    n = rank - 2
    attrs.update({"kernel_size": tuple(kshape[:n]), "strides": (1,) * n,
                  "padding": "valid", "dilation_rate": (1,) * n,
                  "filters": oshape[-1], "groups": 1, "depth_multiplier": 1,
                  "data_format": "channels_last", "use_bias": True})
  return Mock(cname, attrs), ishape


def reference_count(cname):
  H, W, Co, Ci = N("Ho"), N("Wo"), N("Co"), N("Ci")
  kh, kw = N("kh"), N("kw")
  if cname in ("Conv2D", "QConv2D", "QConv2DBatchnorm"):
    return [H * W * Co * kh * kw * Ci], 4
  if cname in ("Conv1D", "QConv1D"):
    return [N("To") * Co * N("k") * Ci], 3
  if cname in ("DepthwiseConv2D", "QDepthwiseConv2D",
               "QDepthwiseConv2DBatchnorm"):
    # out spatial x kernel spatial x channels (C_in == C_out/multiplier)
    return [H * W * kh * kw * Ci, H * W * kh * kw * Co], 4
  if cname in ("Dense", "QDense"):
    return [Ci * Co], 2
  if cname in ("AveragePooling2D", "QAveragePooling2D"):
    return [H * W * Co * N("ph") * N("pw")], 4
  if cname in ("GlobalAveragePooling2D", "QGlobalAveragePooling2D"):
    return [N("Hi") * N("Wi") * Co, N("Hi") * N("Wi") * Ci], 4
  if cname in ("Add", "Multiply", "Maximum", "Average", "Subtract"):
    return [N("Hi") * N("Wi") * Ci], 4
  return None, None


def out_len(n, k, s, padding, d):
  """Keras' output-size rule (conv_utils.conv_output_length)."""
  if padding in ("same", "causal"):
    return -(-n // s)
  eff = d * (k - 1) + 1
  return -(-(n - eff + 1) // s)


def concrete_layers():
  """(class name, layer stand-in with concrete hyper-parameters and shapes,
  input shape, true MAC count, label) over kernel / stride / padding /
  dilation."""
  import itertools
  H, W, Ci, Co = 9, 8, 2, 3
  geos = []
  for k, s, d in (((3, 2), (1, 1), (1, 1)), ((3, 2), (2, 1), (1, 1)),
                  ((3, 3), (2, 3), (1, 1)), ((3, 2), (1, 1), (2, 3)),
                  ((2, 3), (1, 1), (3, 1)), ((1, 1), (2, 2), (1, 1))):
    for padding in ("same", "valid"):
      geos.append((k, s, d, padding))
  for cname in ("Conv2D", "QConv2D", "QConv2DBatchnorm", "DepthwiseConv2D",
                "QDepthwiseConv2D"):
    dw = "Depthwise" in cname
    for k, s, d, padding in geos:
      for dm in ((1, 2) if dw else (1,)):
        ho = out_len(H, k[0], s[0], padding, d[0])
        wo = out_len(W, k[1], s[1], padding, d[1])
        co = Ci * dm if dw else Co
        kshape = (k[0], k[1], Ci, dm if dw else Co)
        oshape = (None, ho, wo, co)
        attrs = {
            "__class__": Mock("class", {"__name__": cname}), "name": "layer",
            "kernel_size": k, "strides": s, "padding": padding,
            "dilation_rate": d, "filters": co, "depth_multiplier": dm,
            "groups": 1, "data_format": "channels_last", "use_bias": True,
            "compute_output_shape": lambda pe, a, k_, o=oshape: o,
            "get_weights": lambda pe, a, k_, ks=kshape, c=co: [
                Mock("weight", {"shape": ks}), Mock("bias", {"shape": (c,)})]}
        want = ho * wo * k[0] * k[1] * (Ci * dm if dw else Ci * Co)
        cfg = "%s(kernel=%s, strides=%s, padding=%s, dilation=%s%s) on " \
            "%dx%dx%d" % (cname, k, s, padding, d, ", depth_multiplier=%d" %
                          dm if dw else "", H, W, Ci)
        yield cname, Mock(cname, attrs), (None, H, W, Ci), want, cfg
  for cname in ("Conv1D", "QConv1D"):
    for k, s, d, padding in itertools.chain(
        ((g[0][0], g[1][0], g[2][0], g[3]) for g in geos),
        ((3, 1, 2, "causal"), (2, 2, 1, "causal"))):
      to = out_len(H, k, s, padding, d)
      attrs = {
          "__class__": Mock("class", {"__name__": cname}), "name": "layer",
          "kernel_size": (k,), "strides": (s,), "padding": padding,
          "dilation_rate": (d,), "filters": Co, "groups": 1,
          "data_format": "channels_last", "use_bias": True,
          "compute_output_shape": lambda pe, a, k_, o=(None, to, Co): o,
          "get_weights": lambda pe, a, k_, ks=(k, Ci, Co): [
              Mock("weight", {"shape": ks}), Mock("bias", {"shape": (Co,)})]}
      cfg = "%s(kernel=%d, strides=%d, padding=%s, dilation=%d) on %dx%d" % (
          cname, k, s, padding, d, H, Ci)
      yield cname, Mock(cname, attrs), (None, H, Ci), to * k * Ci * Co, cfg


COUNT_CLASSES = ("Dense", "QDense", "Conv1D", "QConv1D", "Conv2D", "QConv2D",
                 "QConv2DBatchnorm", "DepthwiseConv2D", "QDepthwiseConv2D",
                 "QDepthwiseConv2DBatchnorm", "AveragePooling2D",
                 "QAveragePooling2D", "GlobalAveragePooling2D",
                 "QGlobalAveragePooling2D", "Add", "Multiply", "Maximum")
# further merge / pooling classes, checked for batch independence only
BATCH_ONLY_CLASSES = ("Subtract", "Average", "Minimum", "MaxPooling2D")


def rule_counts(rep, repo):
  qu = repo.module(QU)
  fn = qu.functions.get("get_operation_count")
  if fn is None:
    raise AnalysisError("anchor-missing function get_operation_count")
  unit = "%s::get_operation_count" % qu.relpath
  rep.unit(unit)
  fw = Fwd()
  symbolic_skipped = []
  rep.extra["decided_on_concrete_geometries_only"] = symbolic_skipped
  for cname in COUNT_CLASSES + BATCH_ONLY_CLASSES:
    refs, rank = reference_count(cname)
    if cname in BATCH_ONLY_CLASSES:
      refs, rank = None, 4
    layer, ishape = mock_layer(cname, rank)
    pe = PE(repo)
    pe.fork = Fork([])      # asserts on symbolic shapes are assumed to hold
    f = pe.lookup_global("get_operation_count", qu)
    try:
      r = pe.call(f, [layer, ishape], {})
    except (PyRaise, Unsupported) as e:
      if cname in CONCRETE_CLASSES:
        # a count derived from the hyper-parameters may not evaluate on
        # symbolic shapes; the concrete geometries below decide it
        symbolic_skipped.append(cname)
        continue
      rep.fail("R1", unit, "count-raises:" + cname,
               "get_operation_count raises %s for a %s layer" % (e, cname),
               loc=qu.loc(fn))
      continue
    got = fw(r.term) if isinstance(r, Tensor) else NF.const(F(r))
    if cname in CONCRETE_CLASSES and any(
        got.depends_on(("sym", s_)) for s_ in ("Hi", "Wi", "Ti")):
      symbolic_skipped.append(cname)
      continue
    if refs is not None:
      rep.check(any(got == ref for ref in refs), "R1", unit,
                "count:%s:reported %s" % (cname, show(got)),
                "operation count of a %s layer is %s, the layer performs %s "
                "multiply-accumulates per sample" %
                (cname, show(got), " or ".join(show(r_) for r_ in refs)),
                loc=qu.loc(fn), facts={"class": cname, "got": show(got)})
      rep.sample({"class": cname, "operation_count": show(got)})
    # "for one input sample": a model built with a fixed batch size reports
    # the same count
    layer_b, ishape_b = mock_layer(cname, rank, batch=4)
    pe = PE(repo)
    pe.fork = Fork([])
    try:
      rb = pe.call(pe.lookup_global("get_operation_count", qu),
                   [layer_b, ishape_b], {})
      got_b = fw(rb.term) if isinstance(rb, Tensor) else NF.const(F(rb))
    except (PyRaise, Unsupported) as e:
      got_b = None
      rep.fail("R1", unit, "count-raises:" + cname,
               "get_operation_count raises %s for a %s layer of a model "
               "with batch size 4" % (e, cname), loc=qu.loc(fn))
    if got_b is not None:
      rep.check(got_b == got, "R1", unit, "count-depends-on-batch:" + cname,
                "operation count of a %s layer is %s in a model built with "
                "batch size 4 and %s with an unspecified batch size; the "
                "count is per input sample" % (cname, show(got_b),
                                               show(got)),
                loc=qu.loc(fn), facts={"class": cname})
  # siblings agree: every max-pooling class - windowed or global, whatever
  # its rank - is counted the way MaxPooling2D is (one comparison per input
  # element), and never as "no operations"
  fam = {}
  for cname, rank in (("MaxPooling2D", 4), ("GlobalMaxPooling2D", 4),
                      ("MaxPool2D", 4), ("MaxPooling1D", 3),
                      ("GlobalMaxPooling1D", 3)):
    layer, ishape = mock_layer(cname, rank)
    pe = PE(repo)
    pe.fork = Fork([])
    try:
      r = pe.call(pe.lookup_global("get_operation_count", qu),
                  [layer, ishape], {})
      fam[cname] = (rank, fw(r.term) if isinstance(r, Tensor)
                    else NF.const(F(r)))
    except (PyRaise, Unsupported) as e:
      rep.fail("R1", unit, "count-raises:" + cname,
               "get_operation_count raises %s for a %s layer" % (e, cname),
               loc=qu.loc(fn))
  for cname, (rank, got) in sorted(fam.items()):
    ref_name = "MaxPooling2D" if rank == 4 else "MaxPooling1D"
    if ref_name not in fam:
      continue
    rep.check(got == fam[ref_name][1] and not got.is_zero(), "R1", unit,
              "max-pooling-siblings-disagree:" + cname,
              "operation count of a %s layer is %s, of a %s layer on the "
              "same input %s" % (cname, show(got), ref_name,
                                 show(fam[ref_name][1])), loc=qu.loc(fn),
              facts={"class": cname})
  if len(fam) < 5:
    raise AnalysisError("instance-count max-pooling siblings")
  # the same function on concrete geometries: a count that is derived from
  # the layer's hyper-parameters instead of compute_output_shape must agree
  # with Keras' output-size rule for every stride / padding / dilation
  ngeo = 0
  for cname, layer, ishape, want, cfg in concrete_layers():
    pe = PE(repo)
    pe.fork = Fork([])
    try:
      r = pe.call(pe.lookup_global("get_operation_count", qu),
                  [layer, ishape], {})
    except PyRaise as e:
      rep.fail("R1", unit, "count-raises:" + cname,
               "get_operation_count raises %s for %s" % (e, cfg),
               loc=qu.loc(fn), instance=cfg)
      continue
    ngeo += 1
    got = r.term[1] if isinstance(r, Tensor) and r.term[0] == "c" else r
    rep.check(isinstance(got, (int, F)) and got == want, "R1", unit,
              "count-on-geometry:" + cname,
              "%s: operation count %s, the layer performs %d "
              "multiply-accumulates per sample" % (cfg, got, want),
              loc=qu.loc(fn), instance=cfg)
  if ngeo < 100:
    raise AnalysisError("instance-count only %d concrete geometries" % ngeo)
  # ... and in ONE interpreter, one layer after the other (all stand-ins
  # carry the same layer name, as layers of two models analysed in one
  # process do): a count depends on the layer it is asked for, not on the
  # layers counted before
  pe = PE(repo)
  pe.fork = Fork([])
  stale = []
  nseq = 0
  for cname, layer, ishape, want, cfg in concrete_layers():
    nseq += 1
    try:
      r = pe.call(pe.lookup_global("get_operation_count", qu),
                  [layer, ishape], {})
    except (PyRaise, Unsupported) as e:
      stale.append("%s: raises %s (alone: %d)" % (cfg, str(e)[:60], want))
      continue
    got = r.term[1] if isinstance(r, Tensor) and r.term[0] == "c" else r
    if not (isinstance(got, (int, F)) and got == want):
      stale.append("%s: %s (alone: %d)" % (cfg, got, want))
  rep.check(not stale, "R1", unit, "count-depends-on-earlier-layers",
            "get_operation_count asked for %d layers of the same name one "
            "after the other in one process: %d counts differ from the "
            "count of the layer alone, e.g. %s" % (nseq, len(stale),
                                                    "; ".join(stale[:2])),
            loc=qu.loc(fn))
  # estimate.extract_model_operations arms
  es = repo.module(ES)
  efn = es.functions.get("extract_model_operations")
  if efn is None:
    raise AnalysisError("anchor-missing function extract_model_operations")
  unit = "%s::extract_model_operations" % es.relpath
  rep.unit(unit)
  arms = 0
  for node in ast.walk(efn):
    if not isinstance(node, ast.If):
      continue
    t = node.test
    if not (isinstance(t, ast.Compare) and len(t.ops) == 1 and
            isinstance(t.ops[0], ast.In) and
            ast.unparse(t.left) == "layer.__class__.__name__" and
            isinstance(t.comparators[0], ast.List)):
      continue
    names = [e.value for e in t.comparators[0].elts
             if isinstance(e, ast.Constant)]
    if not any(isinstance(s, ast.Assign) and any(
        isinstance(tt, ast.Name) and tt.id == "number_of_operations"
        for tt in s.targets) for s in node.body):
      continue
    for cname in names:
      refs, rank = reference_count(cname)
      if cname in ("QSeparableConv1D", "QSeparableConv2D"):
        # depthwise + pointwise
        if cname == "QSeparableConv2D":
          refs = [N("kh") * N("kw") * N("Ho") * N("Wo") * N("Ci") +
                  N("Ho") * N("Wo") * N("Co") * N("Ci")]
          rank = 4
        else:
          refs = [N("k") * N("To") * N("Ci") + N("To") * N("Co") * N("Ci")]
          rank = 3
      if refs is None:
        continue
      layer, ishape = mock_layer(cname, rank)
      pe = PE(repo)
      pe.fork = Fork([])
      frame = {"layer": layer, "input_shape": ishape,
               "output_shape": layer.attrs["compute_output_shape"](pe, [],
                                                                   {})}
      for st in node.body:
        try:
          pe.exec_stmt(st, [frame], es)
        except (PyRaise, Unsupported):
          pass
        if "number_of_operations" in frame:
          break
      v = frame.get("number_of_operations")
      arms += 1
      if v is None:
        rep.fail("R1", unit, "count-not-evaluable:" + cname,
                 "number_of_operations of the %s arm could not be evaluated"
                 % cname, loc=es.loc(node))
        continue
      got = fw(v.term) if isinstance(v, Tensor) else NF.const(F(v))
      rep.check(any(got == ref for ref in refs), "R1", unit,
                "count:%s:reported %s" % (cname, show(got)),
                "number_of_operations of a %s layer is %s, the layer "
                "performs %s multiply-accumulates per sample" %
                (cname, show(got), " or ".join(show(r_) for r_ in refs)),
                loc=es.loc(node), facts={"class": cname, "got": show(got)})
      # the same arm on concrete geometries (depth multiplier, dilation)
      for cn2, layer2, ishape2, want2, cfg2 in concrete_layers():
        if cn2 != cname:
          continue
        pe2 = PE(repo)
        pe2.fork = Fork([])
        frame2 = {"layer": layer2, "input_shape": ishape2,
                  "output_shape": layer2.attrs["compute_output_shape"](
                      pe2, [], {})}
        for st in node.body:
          try:
            pe2.exec_stmt(st, [frame2], es)
          except (PyRaise, Unsupported):
            pass
          if "number_of_operations" in frame2:
            break
        v2 = frame2.get("number_of_operations")
        if isinstance(v2, Tensor) and v2.term[0] == "c":
          v2 = v2.term[1]
        rep.check(isinstance(v2, (int, F)) and v2 == want2, "R1", unit,
                  "count-on-geometry:" + cname,
                  "%s: number_of_operations %s, the layer performs %d "
                  "multiply-accumulates per sample" % (cfg2, v2, want2),
                  loc=es.loc(node), instance=cfg2)
  if arms < 5:
    raise AnalysisError("instance-count only %d number_of_operations arms "
                        "found in extract_model_operations" % arms)


# ---------------------------------------------------------------------------
# class arms of if/elif chains

def module_list(module, name):
  e = module.assigns.get(name)
  if isinstance(e, (ast.List, ast.Tuple)):
    return [x.value for x in e.elts if isinstance(x, ast.Constant)]
  return None


def classes_of_test(test, module, repo):
  """Set of class names for which the test is true, or None (unknown /
  catch-all)."""
  if isinstance(test, ast.BoolOp) and isinstance(test.op, ast.Or):
    out = set()
    for v in test.values:
      c = classes_of_test(v, module, repo)
      if c is None:
        return None
      out |= c
    return out
  if isinstance(test, ast.Compare) and len(test.ops) == 1 and \
      isinstance(test.ops[0], ast.In):
    left = ast.unparse(test.left)
    if left in ("node_type", "layer.__class__.__name__"):
      c = test.comparators[0]
      if isinstance(c, (ast.List, ast.Tuple)):
        return {x.value for x in c.elts if isinstance(x, ast.Constant)}
      if isinstance(c, ast.Name):
        l = module_list(module, c.id)
        if l is None:
          tgt = module.imports.get(c.id)
          if tgt:
            mod, _, nm = tgt.rpartition(".")
            m2 = repo.modules.get(mod)
            if m2:
              l = module_list(m2, nm)
        return set(l) if l is not None else None
  if isinstance(test, ast.Call):
    fname = ast.unparse(test.func).split(".")[-1]
    qu = repo.module(QU)
    f = qu.functions.get(fname)
    if f is not None:
      for n in ast.walk(f):
        if isinstance(n, ast.Compare) and isinstance(n.ops[0], ast.In) and \
            isinstance(n.comparators[0], ast.List):
          return {x.value for x in n.comparators[0].elts
                  if isinstance(x, ast.Constant)}
  return None


def chain_arms(first_if, module, repo):
  """[(class set or None, body)] of an if/elif/else chain."""
  arms = []
  node = first_if
  while True:
    arms.append((classes_of_test(node.test, module, repo), node.body,
                 node))
    if len(node.orelse) == 1 and isinstance(node.orelse[0], ast.If):
      node = node.orelse[0]
    else:
      if node.orelse:
        arms.append(("else", node.orelse, node))
      break
  return arms


def arm_for(arms, cname):
  for cs, body, node in arms:
    if cs == "else":
      return "else", body, node
    if cs is None:
      continue
    if cname in cs:
      return cs, body, node
  return None, None, None


def keys_written(body, gm):
  """Keys of the entries stored into layer_data_type_map[layer] in body."""
  fields = None
  e = gm.assigns.get("LayerDataType")
  if isinstance(e, ast.Call) and len(e.args) >= 2 and \
      isinstance(e.args[1], (ast.List, ast.Tuple)):
    fields = {x.value for x in e.args[1].elts if isinstance(x, ast.Constant)}
  out = []
  for st in body:
    for n in ast.walk(st):
      if isinstance(n, ast.Assign) and any(
          isinstance(t, ast.Subscript) and
          ast.unparse(t.value) == "layer_data_type_map" for t in n.targets):
        v = n.value
        if isinstance(v, ast.Dict):
          out.append({k.value for k in v.keys
                      if isinstance(k, ast.Constant)})
        elif isinstance(v, ast.Call) and ast.unparse(v.func) == \
            "LayerDataType" and fields is not None:
          out.append(set(fields))
  return out


def keys_read(stmts):
  """Keys read from layer_item via get_val(layer_item, k) / layer_item[k]."""
  out = set()
  for st in stmts:
    for n in ast.walk(st):
      if isinstance(n, ast.Call) and ast.unparse(n.func).endswith("get_val") \
          and len(n.args) >= 2 and ast.unparse(n.args[0]) == "layer_item" \
          and isinstance(n.args[1], ast.Constant):
        out.add(n.args[1].value)
      if isinstance(n, ast.Subscript) and \
          ast.unparse(n.value) == "layer_item" and \
          isinstance(n.slice, ast.Constant):
        out.add(n.slice.value)
  return out


def rule_keys(rep, repo):
  gm = repo.module(GM)
  qe = repo.module(QE)
  gfn = gm.functions.get("generate_layer_data_type_map")
  efn = qe.functions.get("energy_estimate")
  pfn = qe.functions.get("parameter_read_energy")
  if gfn is None or efn is None or pfn is None:
    raise AnalysisError("anchor-missing generate_layer_data_type_map / "
                        "energy_estimate / parameter_read_energy")
  # writer chain: the longest if-chain in the per-layer loop
  w_first = None
  best = 0
  for n in ast.walk(gfn):
    if isinstance(n, ast.If):
      arms = chain_arms(n, gm, repo)
      if len(arms) > best and any(keys_written(b, gm) for _, b, _ in arms):
        best, w_first = len(arms), n
  if w_first is None or best < 6:
    raise AnalysisError("anchor-missing class dispatch in "
                        "generate_layer_data_type_map")
  w_arms = chain_arms(w_first, gm, repo)
  # reader chain in energy_estimate
  r_first = None
  best = 0
  for n in ast.walk(efn):
    if isinstance(n, ast.If):
      arms = chain_arms(n, qe, repo)
      if len(arms) > best:
        best, r_first = len(arms), n
  if r_first is None or best < 4:
    raise AnalysisError("anchor-missing class dispatch in energy_estimate")
  r_arms = chain_arms(r_first, qe, repo)
  p_first = None
  for n in ast.walk(pfn):
    if isinstance(n, ast.If) and classes_of_test(n.test, qe, repo):
      p_first = n
      break
  p_arms = chain_arms(p_first, qe, repo) if p_first is not None else []
  # keys every layer needs (read before the dispatch)
  common = set()
  for st in efn.body:
    for n in ast.walk(st):
      if isinstance(n, ast.For):
        for s2 in n.body:
          if s2 is r_first:
            break
          common |= keys_read([s2])
  universe = set()
  for cs, _, _ in w_arms + r_arms + p_arms:
    if isinstance(cs, set):
      universe |= cs
  unit = "%s::energy_estimate" % qe.relpath
  rep.unit(unit)
  rep.unit("%s::generate_layer_data_type_map" % gm.relpath)
  rep.extra["classes_in_dispatch"] = sorted(universe)
  rep.extra["keys_read_for_every_layer"] = sorted(common)
  n_checked = 0
  for cname in sorted(universe):
    wcs, wbody, wnode = arm_for(w_arms, cname)
    if wbody is None or wcs == "else":
      continue     # class gets no dedicated data-type entry
    wkeys = keys_written(wbody, gm)
    if not wkeys:
      continue
    need = set(common)
    rcs, rbody, rnode = arm_for(r_arms, cname)
    if rbody is not None and rcs != "else":
      need |= keys_read(rbody)
    pcs, pbody, _ = arm_for(p_arms, cname)
    if pbody is not None and pcs != "else":
      need |= keys_read(pbody)
    n_checked += 1
    for wk in wkeys:
      missing = sorted(need - wk)
      rep.check(not missing, "R2", unit,
                "key-not-written:%s:%s" % (cname, ",".join(missing)),
                "for %s layers the energy model reads the entry key(s) %s, "
                "which generate_layer_data_type_map does not store (it "
                "stores %s)" % (cname, missing, sorted(wk)),
                loc=qe.loc(rnode) if rnode is not None else None)
    # R3 exhaustiveness of the op-energy dispatch
    if cname in COUNT_CLASSES and cname not in ("Maximum",):
      has_arm = rbody is not None and rcs != "else" and not all(
          isinstance(s, ast.Pass) for s in rbody)
      rep.check(has_arm, "R3", unit, "no-op-energy-arm:" + cname,
                "%s layers get a data-type entry but energy_estimate has no "
                "arm for them: their op_cost is always 0" % cname,
                loc=qe.loc(efn))
  if n_checked < 10:
    raise AnalysisError("instance-count only %d classes with entries" %
                        n_checked)


def rule_totals(rep, repo):
  qe = repo.module(QE)
  efn = qe.functions["energy_estimate"]
  unit = "%s::energy_estimate" % qe.relpath
  # extract_energy_sum / extract_energy_profile evaluated symbolically
  rq = repo.module(RQ)
  qt = rq.classes.get("QTools")
  if qt is None:
    raise AnalysisError("anchor-missing class run_qtools.QTools")
  fw = Fwd()
  energy_dict = {
      "l1": {"class_name": "QDense",
             "energy": {"inputs": S("a1"), "outputs": S("b1"),
                        "parameters": S("c1"), "op_cost": S("d1")}},
      "l2": {"class_name": "QActivation",
             "energy": {"inputs": S("a2"), "outputs": S("b2"),
                        "parameters": S("c2"), "op_cost": S("d2")}},
      "l3": {"class_name": "QBatchNormalization",
             "energy": {"inputs": S("a3"), "outputs": S("b3"),
                        "parameters": S("c3"), "op_cost": S("d3")}},
      "total_cost": S("T"),
  }
  # a class rule that is present but empty excludes the class (it must not
  # fall through to "default")
  setting = {"QDense": ["inputs", "op_cost"], "QBatchNormalization": [],
             "default": ["outputs"]}
  # without a "default" rule unlisted classes contribute nothing
  setting_nd = {"QDense": ["inputs", "op_cost"]}
  for mname, want, st in (
      ("extract_energy_sum", N("a1") + N("d1") + N("b2"), setting),
      ("extract_energy_sum", N("a1") + N("d1"), setting_nd),
      ("extract_energy_sum", NF.const(0), {})):
    setting_used = st
    m = qt.methods.get(mname)
    munit = "%s::QTools.%s" % (rq.relpath, mname)
    rep.unit(munit)
    if m is None:
      rep.fail("R4", munit, "missing", "method missing")
      continue
    pe = PE(repo)
    obj = Obj(qt)
    try:
      r = pe.call_func(Func(m, rq, [], mname, obj, qt),
                       [setting_used, energy_dict], {})
      got = fw(r.term) if isinstance(r, Tensor) else NF.const(F(r))
    except PyRaise as e:
      got = None
      rep.fail("R4", munit, "raises", "%s raises %s" % (mname, e),
               loc=rq.loc(m))
      continue
    rep.check(got == want, "R4", munit, "sum!=selected-entries",
              "%s returns %s for the setting %s, which selects %s" %
              (mname, show(got), setting_used, show(want)), loc=rq.loc(m))
  m = qt.methods.get("extract_energy_profile")
  munit = "%s::QTools.extract_energy_profile" % rq.relpath
  rep.unit(munit)
  if m is not None:
    pe = PE(repo)
    try:
      r = pe.call_func(Func(m, rq, [], "extract_energy_profile", Obj(qt), qt),
                       [setting, energy_dict], {})
      t1 = fw(r["l1"]["total"].term)
      t2 = fw(r["l2"]["total"].term)
      t3v = r["l3"]["total"] if "l3" in r else 0
      t3 = fw(t3v.term) if isinstance(t3v, Tensor) else NF.const(F(t3v))
      rep.check(t1 == N("a1") + N("d1") and t2 == N("b2") and
                t3 == NF.const(0) and
                "total_cost" not in r, "R4", munit,
                "profile-total!=selected-entries",
                "per-layer totals are %s / %s / %s (the third layer's class "
                "is excluded by an empty rule)" % (show(t1), show(t2),
                                                   show(t3)),
                loc=rq.loc(m))
    except (PyRaise, KeyError, AttributeError, TypeError) as e:
      rep.fail("R4", munit, "raises", "extract_energy_profile: %s" % e,
               loc=rq.loc(m))
  # R5 clamps
  op = qe.assigns.get("OP")
  if not isinstance(op, ast.Dict):
    raise AnalysisError("anchor-missing OP table in qenergy")
  nl = 0
  for n in ast.walk(op):
    if isinstance(n, ast.Lambda):
      nl += 1
      b = n.body
      ok = isinstance(b, ast.Call) and isinstance(b.func, ast.Name) and \
          b.func.id == "max" and len(b.args) == 2 and any(
              isinstance(a, ast.Constant) and a.value == 0 for a in b.args)
      rep.check(ok, "R5", "%s::OP" % qe.relpath, "cost-not-clamped",
                "OP cost %s is not clamped with max(., 0)" % ast.unparse(n),
                loc=qe.loc(n))
  if nl < 10:
    raise AnalysisError("instance-count OP table has %d cost lambdas" % nl)


def rule_placement(rep, repo):
  qe = repo.module(QE)
  fw = Fwd()

  def op(name):
    return lambda pe, a, k: Tensor(("app", name, (), (pe.as_term(a[0]),)),
                                   ())
  optable = {
      "sram": {"rd": op("sram_rd"), "wr": op("sram_wr"),
               "mul_factor": S("sram_mf")},
      "dram": {"rd": op("dram_rd"), "wr": op("dram_wr"),
               "mul_factor": S("dram_mf")}}
  table = {}
  for fname in ("memory_read_energy", "memory_write_energy"):
    fn = qe.functions.get(fname)
    if fn is None:
      raise AnalysisError("anchor-missing %s in qenergy" % fname)
    for flag in (True, False):
      for mode in ("dram", "sram", "fixed"):
        for rd in (True, False):
          pe = PE(repo, module_overrides={QE: {"OP": optable}})
          pe.opaque_ext = True
          try:
            r = pe.call(pe.lookup_global(fname, qe),
                        [flag, (None, S("n"), S("c")), mode, S("minsram"),
                         rd, S("bits")], {})
            table[fname, flag, mode, rd] = fw(r.term) if isinstance(
                r, Tensor) else NF.const(F(r))
          except PyRaise as e:
            table[fname, flag, mode, rd] = "raises %s" % e.exc_name

  def apps(nf):
    if isinstance(nf, str):
      return set()
    return {a[1] for a in nf.atoms() if a[0] == "app" and
            a[1].startswith(("sram_", "dram_"))}

  for fname, other, io, dev in (
      ("memory_read_energy", "memory_write_energy", "input", "rd"),
      ("memory_write_energy", "memory_read_energy", "output", "wr")):
    fn = qe.functions[fname]
    unit = "%s::%s" % (qe.relpath, fname)
    rep.unit(unit)
    for mode in ("dram", "sram", "fixed"):
      for rd in (True, False):
        cfg = "mode=%s,rd_wr_on_io=%s" % (mode, rd)
        got = table[fname, True, mode, rd]
        eff = "dram" if rd else "sram"
        want = table[fname, False, eff, rd]
        rep.check(got == want, "R6", unit, "io-tensor-placement",
                  "%s: a model %s tensor costs %s; with rd_wr_on_io=%s it "
                  "lives in %s and should cost %s" % (
                      cfg, io, got if isinstance(got, str) else show(got),
                      rd, eff,
                      want if isinstance(want, str) else show(want)),
                  loc=qe.loc(fn), instance=cfg)
        inner = table[fname, False, mode, rd]
        used = apps(inner)
        if mode == "fixed":
          ok = not isinstance(inner, str) and inner == NF.const(F(0))
          exp = "0"
        elif mode == "sram":
          exp = {"sram_" + dev}
          ok = used == exp
        else:
          exp = {"dram_" + dev} | (
              {"sram_" + ("wr" if dev == "rd" else "rd")} if rd else set())
          ok = used == exp
        rep.check(ok, "R6", unit, "placement-cost-terms",
                  "%s: inner tensor cost uses %s, documented transfers are "
                  "%s" % (cfg, sorted(used) if used else show(inner)
                          if not isinstance(inner, str) else inner, exp),
                  loc=qe.loc(fn), instance=cfg)
        # siblings: swapping rd<->wr in the cost atoms maps one function's
        # table onto the other's
        mine = sorted(x.replace("_rd", "_X").replace("_wr", "_rd")
                      .replace("_X", "_wr") for x in used)
        theirs = sorted(apps(table[other, False, mode, rd]))
        rep.check(mine == theirs, "R6", unit, "read/write-siblings-disagree",
                  "%s: %s uses %s but %s uses %s" % (
                      cfg, fname, sorted(used), other, theirs),
                  loc=qe.loc(fn), instance=cfg)


def rule_entries(rep, repo):
  from .. import typearith as ta
  qe = repo.module(QE)
  efn = qe.functions["energy_estimate"]
  unit = "%s::energy_estimate" % qe.relpath
  loc = qe.loc(efn)
  fw = Fwd()

  def op(name):
    return lambda pe, a, k: Tensor(("app", name, (), (pe.as_term(a[0]),)),
                                   ())
  optable = {k: {m: op("%s_%s" % (k, m))
                 for m in ("add", "mul", "mux", "xor", "and", "or",
                           "shifter")} for k in ("fpm", "fp32", "fp16")}

  def rd(pe, a, k):
    is_tensor = k.get("is_tensor", a[6] if len(a) > 6 else True)
    return Tensor(("app", "RD", (("flag", bool(a[0])), ("shape", str(a[1])),
                                 ("mem", a[2]), ("tensor", bool(is_tensor)),
                                 ("rdwr", a[4])),
                   (pe.as_term(a[5]), pe.as_term(a[3]))), ())

  def wr(pe, a, k):
    return Tensor(("app", "WR", (("flag", bool(a[0])), ("shape", str(a[1])),
                                 ("mem", a[2]), ("rdwr", a[4])),
                   (pe.as_term(a[5]), pe.as_term(a[3]))), ())
  pe = PE(repo, module_overrides={QE: {
      "OP": optable, "memory_read_energy": rd, "memory_write_energy": wr}})
  pe.opaque_ext = True

  def q(tag):
    return ta.make_operand(pe, repo, "fixed_s", tag)

  def L(cls, name, ishape):
    return Mock(name, {"name": name, "input_shape": ishape,
                       "__class__": Mock("class", {"__name__": cls}),
                       "get_weights": lambda pe, a, k: [
                           Mock("w", {"shape": (4,)}) for _ in range(4)]})

  def impl(tag, mode):
    return Mock(tag, {"gate_factor": S("gf_" + tag), "gate_bits":
                      S("gb_" + tag), "output": q("o_" + tag),
                      "implemented_as": lambda pe, a, k, mode=mode: mode})
  layers, lm = [], {}

  def add(cls, name, ishape, n_in=1, **item):
    lyr = L(cls, name, ishape)
    ent = {"input_quantizer_list": [q("in%d_%s" % (i, name))
                                    for i in range(n_in)],
           "operation_count": S("cnt_" + name),
           "output_shapes": (None, 7, name),
           "output_quantizer": q("out_" + name)}
    ent.update(item)
    layers.append(lyr)
    lm[lyr] = ent
    return lyr
  d = add("QDense", "dense", (None, 16), multiplier=impl("m_dense", "mul"),
          accumulator=Mock("acc", {"output": q("acc_dense")}),
          weight_quantizer=q("w_dense"), w_shapes=(16, 8),
          bias_quantizer=q("b_dense"), b_shapes=(8,))
  c = add("QConv2D", "conv", (None, 8, 8, 4),
          multiplier=impl("m_conv", "shifter"),
          accumulator=Mock("acc", {"output": q("acc_conv")}),
          weight_quantizer=q("w_conv"), w_shapes=(3, 3, 4, 8),
          bias_quantizer=None, b_shapes=None)
  # mixed arithmetic families: fixed-point products accumulated in floating
  # point (an unquantized bias with a float intermediate type), and the
  # other way round
  def qf(tag, bits):
    o = ta.make_operand(pe, repo, "float", tag)
    o.attrs["bits"] = bits
    return o
  add("QDense", "dense_facc", (None, 16),
      multiplier=impl("m_dense_facc", "mul"),
      accumulator=Mock("acc", {"output": qf("acc_dense_facc", 32)}),
      weight_quantizer=q("w_dense_facc"), w_shapes=(16, 8),
      bias_quantizer=None, b_shapes=None)
  fm = impl("m_conv_fmul", "mul")
  fm.attrs["output"] = qf("o_m_conv_fmul", 16)
  add("QConv1D", "conv_fmul", (None, 8, 4), multiplier=fm,
      accumulator=Mock("acc", {"output": q("acc_conv_fmul")}),
      weight_quantizer=q("w_conv_fmul"), w_shapes=(3, 4, 8),
      bias_quantizer=None, b_shapes=None)
  a_ = add("QActivation", "act", (None, 8))
  m_ = add("Add", "merge", [(None, 8), (None, 8), (None, 8)], n_in=3,
           multiplier=impl("m_merge", "add"))
  p_ = add("AveragePooling2D", "pool", (None, 8, 8, 4),
           pool_sum_accumulator=Mock("pacc", {"output": q("acc_pool")}))
  # batch normalisation: every statistic quantized / no gamma (scale=False:
  # a divider but no multiplier) / neither operator
  def bn(name, with_mul, with_div):
    lyr = add("QBatchNormalization", name, (None, 8),
              gamma_quantizer=q("g_" + name) if with_mul else None,
              beta_quantizer=q("be_" + name), mean_quantizer=q("m_" + name),
              variance_quantizer=q("v_" + name),
              internal_divide_quantizer=impl("div_" + name, "shifter")
              if with_div else None,
              internal_multiplier=impl("mul_" + name, "mul")
              if with_mul else None)
    lyr.attrs["get_weights"] = lambda pe, a, k: [[1, 2, 3, 4, 5]] * 4
    return lyr
  bn("bn", True, True)
  bn("bn_noscale", False, True)
  bn("bn_plain", False, False)
  layer_map = {"output_layers": [p_], "input_layers": [d],
               "layer_data_type_map": lm}
  model = Mock("model", {"layers": layers + [L("Flatten", "not_in_map",
                                               (None, 8))]})
  try:
    r = pe.call(pe.lookup_global("energy_estimate", qe),
                [model, layer_map, "sram", "dram", S("minsram"), True], {})
  except PyRaise as e:
    rep.fail("R7", unit, "energy_estimate-raises",
             "raises %s on the synthetic data-type map" % e, loc=loc)
    return
  N = NF.sym

  def g(v):
    return fw(v.term) if isinstance(v, Tensor) else NF.const(F(v))

  def RD(flag, shape, mem, bits, tensor=True):
    return mk("RD", (("flag", flag), ("shape", str(shape)), ("mem", mem),
                     ("tensor", tensor), ("rdwr", True)),
              [N(bits), N("minsram")])

  def WR(flag, shape, mem, bits):
    return mk("WR", (("flag", flag), ("shape", str(shape)), ("mem", mem),
                     ("rdwr", True)), [N(bits), N("minsram")])

  def mk(name, attrs, args):
    from ..qir import mk_app
    return mk_app(name, args, attrs)

  def OPc(name, arg):
    return mk(name, (), [N(arg)])
  want = {
      "dense": {
          "inputs": RD(True, (None, 16), "dram", "bin0_dense"),
          "outputs": WR(False, (None, 7, "dense"), "dram", "bout_dense"),
          "parameters": RD(False, (16, 8), "sram", "bw_dense", False) +
                        RD(False, (8,), "sram", "bb_dense", False),
          "op_cost": N("cnt_dense") * (N("gf_m_dense") * OPc(
              "fpm_mul", "gb_m_dense") + OPc("fpm_add", "bacc_dense"))},
      "conv": {
          "inputs": RD(False, (None, 8, 8, 4), "dram", "bin0_conv"),
          "outputs": WR(False, (None, 7, "conv"), "dram", "bout_conv"),
          "parameters": RD(False, (3, 3, 4, 8), "sram", "bw_conv", False),
          "op_cost": N("cnt_conv") * (N("gf_m_conv") * OPc(
              "fpm_shifter", "gb_m_conv") + OPc("fpm_add", "bacc_conv"))},
      "dense_facc": {
          "inputs": RD(False, (None, 16), "dram", "bin0_dense_facc"),
          "outputs": WR(False, (None, 7, "dense_facc"), "dram",
                        "bout_dense_facc"),
          "parameters": RD(False, (16, 8), "sram", "bw_dense_facc", False),
          "op_cost": N("cnt_dense_facc") * (N("gf_m_dense_facc") * OPc(
              "fpm_mul", "gb_m_dense_facc") + mk("fp32_add", (),
                                                 [NF.const(32)]))},
      "conv_fmul": {
          "inputs": RD(False, (None, 8, 4), "dram", "bin0_conv_fmul"),
          "outputs": WR(False, (None, 7, "conv_fmul"), "dram",
                        "bout_conv_fmul"),
          "parameters": RD(False, (3, 4, 8), "sram", "bw_conv_fmul", False),
          "op_cost": N("cnt_conv_fmul") * (N("gf_m_conv_fmul") * OPc(
              "fp16_mul", "gb_m_conv_fmul") + OPc("fpm_add",
                                                  "bacc_conv_fmul"))},
      "act": {
          "inputs": RD(False, (None, 8), "dram", "bin0_act"),
          "outputs": WR(False, (None, 7, "act"), "dram", "bout_act"),
          "parameters": None, "op_cost": NF.const(0)},
      "merge": {
          "inputs": RD(False, (None, 8), "dram", "bin0_merge") +
                    RD(False, (None, 8), "dram", "bin1_merge") +
                    RD(False, (None, 8), "dram", "bin2_merge"),
          "outputs": WR(False, (None, 7, "merge"), "dram", "bout_merge"),
          "parameters": None,
          "op_cost": 2 * N("cnt_merge") * N("gf_m_merge") * OPc(
              "fpm_add", "gb_m_merge")},
      "bn": {
          "inputs": RD(False, (None, 8), "dram", "bin0_bn"),
          "outputs": WR(False, (None, 7, "bn"), "dram", "bout_bn"),
          "parameters": RD(False, 5, "sram", "bg_bn", False) +
                        RD(False, 5, "sram", "bbe_bn", False) +
                        RD(False, 5, "sram", "bm_bn", False) +
                        RD(False, 5, "sram", "bv_bn", False),
          "op_cost": N("cnt_bn") * (
              N("gf_div_bn") * OPc("fpm_shifter", "gb_div_bn") +
              N("gf_mul_bn") * OPc("fpm_mul", "gb_mul_bn"))},
      "bn_noscale": {
          "inputs": RD(False, (None, 8), "dram", "bin0_bn_noscale"),
          "outputs": WR(False, (None, 7, "bn_noscale"), "dram",
                        "bout_bn_noscale"),
          "parameters": RD(False, 5, "sram", "bbe_bn_noscale", False) +
                        RD(False, 5, "sram", "bm_bn_noscale", False) +
                        RD(False, 5, "sram", "bv_bn_noscale", False),
          "op_cost": N("cnt_bn_noscale") * N("gf_div_bn_noscale") * OPc(
              "fpm_shifter", "gb_div_bn_noscale")},
      "bn_plain": {
          "inputs": RD(False, (None, 8), "dram", "bin0_bn_plain"),
          "outputs": WR(False, (None, 7, "bn_plain"), "dram",
                        "bout_bn_plain"),
          "parameters": RD(False, 5, "sram", "bbe_bn_plain", False) +
                        RD(False, 5, "sram", "bm_bn_plain", False) +
                        RD(False, 5, "sram", "bv_bn_plain", False),
          "op_cost": NF.const(0)},
      "pool": {
          "inputs": RD(False, (None, 8, 8, 4), "dram", "bin0_pool"),
          "outputs": WR(True, (None, 7, "pool"), "dram", "bout_pool"),
          "parameters": None,
          "op_cost": N("cnt_pool") * OPc("fpm_add", "bacc_pool")},
  }
  rep.check("not_in_map" not in r, "R7", unit, "layer-outside-map-reported",
            "a layer without a data-type entry is in the energy report",
            loc=loc)
  total = NF.const(0)
  for lname, ents in sorted(want.items()):
    got = r.get(lname)
    if not isinstance(got, dict) or "energy" not in got:
      rep.fail("R7", unit, "entry-missing:" + lname,
               "no energy entry for the %s layer" % lname, loc=loc)
      continue
    for key, w in sorted(ents.items()):
      gv = g(got["energy"][key])
      total = total + gv
      if w is None:
        continue   # parameter entry of parameter-less classes: see below
      rep.check(gv == w, "R7", unit, "entry:%s:%s" % (lname, key),
                "%s.%s is %s, the documented function gives %s" %
                (lname, key, show(gv, 260), show(w, 260)), loc=loc)
  for lname in ("act", "merge", "pool"):
    gv = g(r[lname]["energy"]["parameters"]) if lname in r else None
    rep.check(gv is not None and not [a for a in gv.atoms()
                                      if a[0] == "app" and a[1] == "WR"],
              "R7", unit, "entry:%s:parameters" % lname,
              "%s.parameters is %s" % (lname, show(gv, 200) if gv is not None
                                       else None), loc=loc)
  tc = r.get("total_cost")
  rep.check(isinstance(tc, Tensor) and (
      g(tc) == total or g(tc) == mk("floor", (), [total])), "R4", unit,
            "total!=sum-of-entries",
            "total_cost is %s, the entries add up to %s" %
            (show(g(tc), 200) if isinstance(tc, Tensor) else tc,
             show(total, 200)), loc=loc)
  # a second estimate in the same interpreter, for a model that has only
  # two of these layers: its report lists those layers only and its total is
  # the sum of ITS entries (nothing is carried over between estimates)
  sub = [l_ for l_ in layers if l_.attrs.get("name") in ("dense", "act")]
  if len(sub) == 2:
    try:
      r2 = pe.call(pe.lookup_global("energy_estimate", qe), [
          Mock("model", {"layers": sub}),
          {"output_layers": [sub[-1]], "input_layers": [sub[0]],
           "layer_data_type_map": lm}, "sram", "dram", S("minsram"), True],
                   {})
      names2 = sorted(k for k, v in r2.items() if isinstance(v, dict))
      t2 = NF.const(0)
      for k in names2:
        for v in r2[k]["energy"].values():
          t2 = t2 + g(v)
      tc2 = r2.get("total_cost")
      rep.check(names2 == ["act", "dense"] and isinstance(tc2, Tensor) and (
          g(tc2) == t2 or g(tc2) == mk("floor", (), [t2])), "R4", unit,
                "second-estimate-carries-earlier-layers",
                "a second energy_estimate in the same process, for a model "
                "with the layers ['act', 'dense'], reports %s; total_cost "
                "%s, its entries add up to %s" % (
                    names2, show(g(tc2), 120) if isinstance(tc2, Tensor)
                    else tc2, show(t2, 120)), loc=loc)
    except PyRaise as e:
      rep.fail("R4", unit, "second-estimate-raises",
               "a second energy_estimate raises %s" % e, loc=loc)


SETTINGS = "qkeras.qtools.settings"
PROCESS_COSTS = ("fpm_add", "fpm_mul", "fp16_add", "fp16_mul", "fp32_add",
                 "fp32_mul", "sram_rd", "dram_rd")


def rule_process_settings(rep, repo):
  """R9: the cost polynomials every energy entry is priced with are the
  ones of the selected process.  ConfigClass.update is interpreted (np.poly1d
  a stand-in that keeps its coefficients) with process entries that define
  all, one, or some of the eight cost polynomials: afterwards every
  polynomial the process defines has the process's coefficients and every
  other one still has its default; default_*_quantizer and include_energy
  entries (a "Q" class also sets the Keras class) are taken over."""
  sm = repo.module(SETTINGS)
  ci = sm.classes.get("ConfigClass")
  if ci is None or ci.find_method("update")[1] is None:
    raise AnalysisError("anchor-missing settings.ConfigClass.update")
  unit = "%s::ConfigClass.update" % sm.relpath
  rep.unit(unit)
  loc = sm.loc(ci.find_method("update")[1])

  def new_pe():
    pe = PE(repo)
    pe.ext_overrides = {"np.poly1d": lambda pe_, a, k: Mock(
        "poly1d", {"coeffs": list(a[0])})}
    return pe

  def coeffs(c, name):
    v = c.attrs.get(name)
    return [F(e) for e in v.attrs["coeffs"]] if isinstance(v, Mock) else v
  pe = new_pe()
  base = pe.call(pe.lookup_global("ConfigClass", sm), [], {})
  defaults = {k: coeffs(base, k) for k in PROCESS_COSTS}
  rep.check(all(isinstance(v, list) for v in defaults.values()), "R9", unit,
            "default-cost-polynomials",
            "ConfigClass() does not define the eight cost polynomials: %r" %
            defaults, loc=loc)
  subsets = [tuple(PROCESS_COSTS), ()] + [(k,) for k in PROCESS_COSTS] + [
      ("sram_rd", "dram_rd"), ("fpm_mul", "fp32_mul", "dram_rd"),
      ("fp16_add", "sram_rd"), ("fpm_add", "dram_rd")]
  for sub in subsets:
    given = {k: [F(PROCESS_COSTS.index(k) + 2), F(1, 2)] for k in sub}
    cfg = "process defines %s" % (list(sub) or "nothing")
    pe = new_pe()
    try:
      c = pe.call(pe.lookup_global("ConfigClass", sm), [], {})
      pe.call(pe.getattr(c, "update"), ["p", {
          "p": {k: list(v) for k, v in given.items()},
          "other": {k: [F(99)] for k in PROCESS_COSTS}}], {})
    except PyRaise as e:
      rep.fail("R9", unit, "update-raises", "%s: update raises %s" % (cfg, e),
               loc=loc, instance=cfg)
      continue
    wrong = ["%s=%s (expected %s)" % (k, coeffs(c, k), given.get(
        k, defaults[k])) for k in PROCESS_COSTS
             if coeffs(c, k) != given.get(k, defaults[k])]
    rep.check(not wrong, "R9", unit, "process-costs-not-applied",
              "%s: after update('p', settings) %s" % (cfg, wrong), loc=loc,
              instance=cfg)
  # a process the settings do not know, the other entries
  pe = new_pe()
  c = pe.call(pe.lookup_global("ConfigClass", sm), [], {})
  try:
    pe.call(pe.getattr(c, "update"), ["unknown", {
        "default_source_quantizer": "SRC", "default_interm_quantizer": "INT",
        "include_energy": {"QDense": ["outputs"], "MaxPooling2D": ["inputs"]},
        "p": {"fpm_add": [F(7)]}}], {})
    inc = c.attrs.get("include_energy", {})
    ok = all(coeffs(c, k) == defaults[k] for k in PROCESS_COSTS) and \
        c.attrs.get("default_source_quantizer") == "SRC" and \
        c.attrs.get("default_interm_quantizer") == "INT" and \
        inc.get("QDense") == ["outputs"] and inc.get("Dense") == [
            "outputs"] and inc.get("MaxPooling2D") == ["inputs"] and \
        inc.get("default") == ["inputs", "parameters", "op_cost"]
    rep.check(ok, "R9", unit, "other-settings-not-applied",
              "update('unknown', settings): costs %r, source %r, interm %r, "
              "include_energy %r" % (
                  {k: coeffs(c, k) for k in PROCESS_COSTS if coeffs(c, k) !=
                   defaults[k]}, c.attrs.get("default_source_quantizer"),
                  c.attrs.get("default_interm_quantizer"), inc), loc=loc)
  except PyRaise as e:
    rep.fail("R9", unit, "update-raises", "update('unknown', ...) raises %s"
             % e, loc=loc)
  # the energy tables read the module-level configuration object when an
  # entry is priced (not a copy made at import time)
  qe = repo.module(QE)
  rep.check(qe.imports.get("cfg") == SETTINGS + ".cfg", "R9",
            "%s::OP" % qe.relpath, "energy-table-configuration-object",
            "qenergy does not price with settings.cfg (imports: %r)" %
            qe.imports.get("cfg"))


def rule_op_table(rep, repo):
  """R12: the operator cost table as the module builds it (module-level code
  interpreted, the configuration object a stand-in whose polynomials are
  symbols): every OP[family][operation] called on a symbolic bit count is
  max(p(bits), 0) with p a polynomial OF THAT FAMILY (`<family>_...`), a
  multiplier entry priced with the family's `_mul` polynomial and an adder
  entry with its `_add` polynomial; the five families the energy model
  looks up are present with their multiply / add (read / write) entries."""
  qe = repo.module(QE)
  unit = "%s::OP" % qe.relpath
  rep.unit(unit)
  loc = qe.loc(qe.assigns["OP"]) if "OP" in qe.assigns else None

  def poly(name):
    return lambda pe, a, k: Tensor(("app", name, (), (pe.as_term(a[0]),)),
                                   ())
  cfgm = Mock("cfg", dict([(n_, poly(n_)) for n_ in PROCESS_COSTS] + [
      ("sram_mul_factor", S("sram_mf")), ("dram_mul_factor", S("dram_mf"))]))
  pe = PE(repo, module_overrides={QE: {"cfg": cfgm}})
  pe.opaque_ext = True
  try:
    table = pe.lookup_global("OP", qe)
  except (PyRaise, Unsupported) as e:
    rep.fail("R12", unit, "table-not-built", "building OP raises %s" % e,
             loc=loc)
    return
  if not isinstance(table, dict):
    raise AnalysisError("unsupported-construct OP is %r" % (table,))
  need = {"fp32": ("add", "mul"), "fp16": ("add", "mul"),
          "fpm": ("add", "mul"), "sram": ("rd", "wr", "mul_factor"),
          "dram": ("rd", "wr", "mul_factor")}
  fw = Fwd()
  for fam, ops in sorted(need.items()):
    ent = table.get(fam)
    missing = [o for o in ops if not isinstance(ent, dict) or o not in ent]
    rep.check(not missing, "R12", unit, "entry-missing:%s" % fam,
              "OP[%r] lacks %s" % (fam, missing), loc=loc)
  for fam, ent in sorted(table.items()):
    if not isinstance(ent, dict):
      continue
    for opn, f in sorted(ent.items()):
      if opn == "mul_factor":
        continue       # a number of the configuration (decided by R9)
      try:
        r = pe.call(f, [S("nbits")], {})
      except (PyRaise, Unsupported) as e:
        rep.fail("R12", unit, "cost-raises:%s.%s" % (fam, opn),
                 "OP[%r][%r](bits) raises %s" % (fam, opn, e), loc=loc)
        continue
      got = fw(r.term) if isinstance(r, Tensor) else None
      at = got.single_atom() if got is not None else None
      inner = None
      if at is not None and at[0] == "app" and at[1] == "maximum":
        args = [a for a in at[3] if isinstance(a, NF)]
        rest = [a for a in args if not a.is_zero()]
        if len(args) == 2 and len(rest) == 1:
          ia = rest[0].single_atom()
          if ia is not None and ia[0] == "app" and ia[3] == (N("nbits"),):
            inner = ia[1]
      want_suffix = {"mul": "_mul", "rd": "_rd", "wr": "_rd"}.get(opn,
                                                                  "_add")
      ok = inner is not None and inner.startswith(fam + "_") and \
          inner.endswith(want_suffix)
      rep.check(ok, "R12", unit, "cost-of-another-family:%s.%s" % (fam, opn),
                "OP[%r][%r](bits) = %s; expected max(cfg.%s*%s(bits), 0)" %
                (fam, opn, show(got) if got is not None else r, fam + "_",
                 want_suffix), loc=loc)


def rule_io_layers(rep, repo):
  """R13: the writer and the reader of the model's input / output layer
  lists agree on what the entries are.  The head of
  generate_layer_data_type_map (everything before its traversal loop) is
  interpreted on a two-layer graph; the lists it builds are then handed to
  the statements of energy_estimate that decide is_input_layer /
  is_output_layer, executed for the input and for the output layer: the
  input layer must be recognised as input (and not as output) and vice
  versa - otherwise the read / write placement of the model's inputs and
  outputs (rd_wr_on_io) never applies."""
  gm = repo.module("qkeras.qtools.generate_layer_data_type_map")
  qe = repo.module(QE)
  gfn = gm.functions.get("generate_layer_data_type_map")
  efn = qe.functions.get("energy_estimate")
  if gfn is None or efn is None:
    raise AnalysisError("anchor-missing generate_layer_data_type_map / "
                        "energy_estimate")
  unit = "%s::energy_estimate" % qe.relpath
  rep.unit(unit)
  loc = qe.loc(efn)
  l_in = Mock("l_in", {"name": "dense_in",
                       "__class__": Mock("class", {"__name__": "QDense"})})
  l_out = Mock("l_out", {"name": "dense_out",
                         "__class__": Mock("class", {"__name__": "QDense"})})
  nodes = {1: {"layer": [l_in], "type": ["QDense"]},
           2: {"layer": [l_out], "type": ["QDense"]},
           -1: {"layer": [None], "type": ["Source"]},
           -2: {"layer": [None], "type": ["Sink"]}}
  graph = Mock("graph", {
      "nodes": nodes,
      "predecessors": lambda pe, a, k: [2] if a[0] == -2 else [],
      "successors": lambda pe, a, k: [1] if a[0] == -1 else []})
  pe = PE(repo)
  pe.opaque_ext = True
  frame = {"graph": graph, "source_quantizer_list": [], "is_inference": False,
           "debug": False}
  for p_, d_ in function_defaults(gfn).items():
    frame.setdefault(p_, d_)
  for st in gfn.body:
    if isinstance(st, ast.For) and "topological_sort" in ast.unparse(
        st.iter):
      break
    try:
      pe.exec_stmt(st, [frame], gm)
    except (PyRaise, Unsupported) as e:
      raise AnalysisError("unsupported-construct head of "
                          "generate_layer_data_type_map: %s" % e)
  ins, outs = frame.get("input_layers"), frame.get("output_layers")
  if not isinstance(ins, list) or not isinstance(outs, list):
    raise AnalysisError("anchor-missing input_layers / output_layers in "
                        "generate_layer_data_type_map")
  tests = [st for st in ast.walk(efn) if isinstance(st, ast.Assign) and any(
      isinstance(t, ast.Name) and t.id in ("is_input_layer",
                                           "is_output_layer")
      for t in st.targets)]
  if len(tests) < 2:
    raise AnalysisError("anchor-missing is_input_layer / is_output_layer in "
                        "energy_estimate")
  for lyr, want in ((l_in, (True, False)), (l_out, (False, True))):
    fr2 = {"layer": lyr, "input_layers": ins, "output_layers": outs,
           "layer_map": {"input_layers": ins, "output_layers": outs}}
    pe2 = PE(repo)
    pe2.opaque_ext = True
    try:
      for st in tests:
        pe2.exec_stmt(st, [fr2], qe)
      got = (bool(fr2.get("is_input_layer")),
             bool(fr2.get("is_output_layer")))
    except (PyRaise, Unsupported) as e:
      got = "raises %s" % e
    rep.check(got == want, "R13", unit, "io-layer-not-recognised",
              "the data-type map lists the input layers as %r and the "
              "output layers as %r; for layer %s energy_estimate decides "
              "(is_input_layer, is_output_layer) = %s, expected %s" % (
                  [getattr(x, "name", x) if not isinstance(x, str) else
                   "name %r" % x for x in ins],
                  [getattr(x, "name", x) if not isinstance(x, str) else
                   "name %r" % x for x in outs],
                  lyr.attrs["name"], got, want), loc=loc,
              instance=lyr.attrs["name"])


def function_defaults(fn):
  out = {}
  a = fn.args
  pos = list(a.posonlyargs) + list(a.args)
  for p_, d_ in zip(pos[len(pos) - len(a.defaults):], a.defaults):
    try:
      out[p_.arg] = ast.literal_eval(d_)
    except (ValueError, SyntaxError):
      pass
  return out


def rule_qtools_wiring(rep, repo):
  """R10: QTools.__init__ and QTools.pe interpreted with the sub-systems as
  recording stand-ins: the selected process is applied to the configuration
  before anything reads it (the default source quantizer handed to the graph
  builder is the configured one), activations are propagated to the edges
  before the data-type map is generated from that graph, the map is what
  `pe` prices, and `pe` hands its placement options to energy_estimate in
  the callee's order."""
  rq = repo.module(RQ)
  qt = rq.classes.get("QTools")
  if qt is None or "pe" not in qt.methods or "__init__" not in qt.methods:
    raise AnalysisError("anchor-missing QTools.__init__ / QTools.pe")
  unit = "%s::QTools" % rq.relpath
  rep.unit(unit)
  loc = rq.loc(qt.methods["__init__"])
  log = []
  cfgm = Mock("cfg", {"default_source_quantizer": "DEFAULT_SRC"})

  def upd(pe, a, k):
    log.append(("cfg.update", a[0], a[1]))
    cfgm.attrs["default_source_quantizer"] = "CONFIGURED_SRC"
  cfgm.attrs["update"] = upd
  graph = Mock("graph", {})

  def create(pe, a, k):
    log.append(("CreateGraph", a[0], a[1], a[2]))
    return (graph, ["SQ"])

  def gen(pe, a, k):
    log.append(("generate_layer_data_type_map", a[0], a[1], a[2], dict(k),
                list(a[3:])))
    return "LAYER_MAP"

  def energy(pe, a, k):
    log.append(("energy_estimate", list(a), dict(k)))
    return {"total_cost": 0}
  model = Mock("model", {})
  pe = PE(repo, module_overrides={RQ: {
      "cfg": cfgm, "config_settings": "SETTINGS",
      "qgraph": Mock("qgraph", {
          "CreateGraph": create,
          "GraphPropagateActivationsToEdges": lambda pe_, a, k: log.append(
              ("propagate", a[0]))}),
      "generate_layer_data_type_map": Mock("gen", {
          "generate_layer_data_type_map": gen}),
      "interface": Mock("interface", {
          "map_to_json": lambda pe_, a, k: ("JSON", a[0])}),
      "qenergy": Mock("qenergy", {"energy_estimate": energy})}})
  try:
    q = pe.call(ClassRef(qt), [model, "my_process"], {
        "source_quantizers": "SRC", "is_inference": True,
        "keras_quantizer": "KQ", "keras_accumulator": "KA",
        "for_reference": "REF", "hw_weight_dict": "HW",
        "model_weights_already_quantized": "MWAQ"})
    pe.call(pe.getattr(q, "pe"), [], {
        "weights_on_memory": "sram", "activations_on_memory": "fixed",
        "min_sram_size": 77, "rd_wr_on_io": "RDWR"})
  except PyRaise as e:
    rep.fail("R10", unit, "raises", "QTools(...) / pe(...) raises %s" % e,
             loc=loc)
    return
  names = [e[0] for e in log]
  rep.check(names == ["cfg.update", "CreateGraph", "propagate",
                      "generate_layer_data_type_map", "energy_estimate"],
            "R10", unit, "construction-order",
            "QTools.__init__ + pe call %s" % names, loc=loc)
  if names[:1] == ["cfg.update"]:
    rep.check(log[0][1:] == ("my_process", "SETTINGS"), "R10", unit,
              "process-not-applied",
              "cfg.update receives %r, expected the selected process and "
              "the settings" % (log[0][1:],), loc=loc)
  by = {e[0]: e for e in log}
  if "CreateGraph" in by:
    rep.check(by["CreateGraph"][1] is model and by["CreateGraph"][2] == "SRC"
              and by["CreateGraph"][3] == "CONFIGURED_SRC", "R10", unit,
              "graph-built-with-stale-configuration",
              "CreateGraph receives (%r, %r, %r); expected the model, the "
              "given source quantizers and the default source quantizer of "
              "the configuration after the process was applied" %
              by["CreateGraph"][1:], loc=loc)
  if "propagate" in by:
    rep.check(by["propagate"][1] is graph, "R10", unit, "propagate-graph",
              "activations are propagated on %r" % (by["propagate"][1],),
              loc=loc)
  if "generate_layer_data_type_map" in by:
    g = by["generate_layer_data_type_map"]
    rep.check(g[1] is graph and g[2] == ["SQ"] and g[3] is True and
              g[5] == ["KQ", "KA", "REF"] and g[4] == {
                  "model_weights_already_quantized": "MWAQ",
                  "hw_weight_dict": "HW"}, "R10", unit, "map-arguments",
              "generate_layer_data_type_map receives %r" % (g[1:],), loc=loc)
  if "energy_estimate" in by:
    a, k = by["energy_estimate"][1:]
    rep.check(a[:2] == [model, "LAYER_MAP"] and a[2:] == [
        "sram", "fixed", 77, "RDWR"] and not k, "R10", unit,
              "energy-arguments",
              "pe(weights_on_memory='sram', activations_on_memory='fixed', "
              "min_sram_size=77, rd_wr_on_io='RDWR') calls energy_estimate "
              "with %r %r" % (a, k), loc=rq.loc(qt.methods["pe"]))
  # the callee's parameter order
  qe = repo.module(QE)
  efn = qe.functions["energy_estimate"]
  params = [a.arg for a in efn.args.args]
  rep.check(params[:6] == ["model", "layer_map", "weights_on_memory",
                           "activations_on_memory", "min_sram_size",
                           "rd_wr_on_io"], "R10",
            "%s::energy_estimate" % qe.relpath, "parameter-order",
            "energy_estimate takes %r" % params, loc=qe.loc(efn))


GMAP = "qkeras.qtools.generate_layer_data_type_map"


def rule_count_input(rep, repo):
  """R11: which input shape the operation count is computed from.  The
  statement of generate_layer_data_type_map that derives `operation_count`
  for a node is executed (with qtools_util interpreted) for merge layers
  whose inputs are broadcast - the largest operand first, in the middle,
  last - and for equal shapes: an element-wise merge performs one operation
  per element of its largest input, whatever position that input has."""
  gm = repo.module(GMAP)
  fn = gm.functions.get("generate_layer_data_type_map")
  if fn is None:
    raise AnalysisError("anchor-missing generate_layer_data_type_map")
  stmt = None
  for n in ast.walk(fn):
    if isinstance(n, ast.If) and any(
        isinstance(x, ast.Assign) and any(
            isinstance(t, ast.Name) and t.id == "operation_count"
            for t in x.targets) for x in ast.walk(n)) and stmt is None \
        and "input_qe_list" in ast.unparse(n.test):
      stmt = n
  unit = "%s::generate_layer_data_type_map" % gm.relpath
  rep.unit(unit)
  if stmt is None:
    raise AnalysisError("anchor-missing the statement that computes "
                        "operation_count from input_qe_list")
  loc = gm.loc(stmt)
  big, mid, small = (None, 6, 5, 8), (None, 1, 5, 8), (None, 1, 1, 8)
  cases = [("largest first", [big, small]), ("largest last", [small, big]),
           ("largest in the middle", [small, big, mid]),
           ("largest first of three", [big, mid, small]),
           ("equal shapes", [big, big]), ("single input", [big])]
  for cname in ("Multiply", "Add", "Subtract", "Average", "Maximum"):
    for label, shapes in cases:
      if label == "single input" and cname != "Add":
        continue
      layer = Mock(cname, {"name": "m", "__class__": Mock(
          "class", {"__name__": cname})})
      frame = {"input_qe_list": [(Mock("q%d" % i, {}), {"shape": sh})
                                 for i, sh in enumerate(shapes)],
               "node_id": 3, "layer": layer, "debug": False}
      pe = PE(repo)
      pe.opaque_ext = True
      cfg = "%s with input shapes %s (%s)" % (cname, shapes, label)
      try:
        pe.exec_block([stmt], [frame], gm)
      except PyRaise as e:
        rep.fail("R11", unit, "count-raises", "%s: raises %s" % (cfg, e),
                 loc=loc, instance=cfg)
        continue
      got = frame.get("operation_count")
      if isinstance(got, Tensor):
        got = Fwd()(got.term).const_value()
      rep.check(got is not None and F(got) == 6 * 5 * 8, "R11", unit,
                "count-from-wrong-input",
                "%s: operation_count = %r, one operation per element of the "
                "largest input is %d" % (cfg, got, 6 * 5 * 8), loc=loc,
                instance=cfg, observed=repr(got))


def run(rep, repo, tier):
  rep.trusted.append("Keras compute_output_shape (output shapes are symbols)")
  rep.assumptions.append("the energy constants themselves and the rounding "
                         "of entries to two decimals are not decided")
  rule_counts(rep, repo)
  rule_keys(rep, repo)
  rule_totals(rep, repo)
  rule_placement(rep, repo)
  rule_entries(rep, repo)
  rule_process_settings(rep, repo)
  rule_qtools_wiring(rep, repo)
  rep.require_instances("R10", 6)
  rule_count_input(rep, repo)
  rep.require_instances("R11", 20)
  rule_io_layers(rep, repo)
  rep.require_instances("R13", 2)
  rule_op_table(rep, repo)
  rep.require_instances("R12", 16)
  rep.require_instances("R9", 15)
  rep.require_instances("R7", 18)
  rep.require_instances("R6", 36)
  rep.require_instances("R1", 20)
  rep.require_instances("R2", 10)
  rep.require_instances("R3", 8)
  rep.require_instances("R4", 4)
  rep.require_instances("R5", 10)
