"""C06 - quantizers stay trainable: straight-through gradients.

The derivative of each return value with respect to the input is computed
symbolically on the IR (stop_gradient subtrees and zero-gradient primitives
contribute 0), piecewise over the regions of x delimited by the kinks of the
piecewise primitives, for every configuration point.

R1 no dead gradient: the derivative is not identically zero on the unclipped
   range (use_ste=True, or use_ste=False where it is (1-f) times a live
   surrogate derivative).
R2 surrogate: the derivative equals that of the documented surrogate
   (identity; bounded/leaky ReLU; tanh; hard-swish; zero outside the clip
   range of quantized_linear; p' gated by the output clip for
   quantized_tanh/sigmoid), times (1-f) when use_ste=False.
R3 the *_through helpers have forward value op(x) and derivative 1.
R4 data-dependent scales are detached (no d_reduce_* atom in a derivative).
"""
import itertools
from fractions import Fraction as F

from ..loader import AnalysisError
from ..pe import ConfigRejected, PE, Tensor, PyRaise
from .. import qref, quant
from ..qir import (Fwd, piecewise_derivative, mk_app, simplify_app)
from ..nf import NF, show

TECHNIQUE = ("Symbolic differentiation of the partially evaluated IR "
             "(stop_gradient = 0), piecewise over x, compared region by "
             "region with the derivative of the documented surrogate.")

FS = NF.sym("f")


def segs_lookup(segs, lo, hi):
  for (sl, sh, d, unk) in segs:
    if (sl is None or (lo is not None and lo >= sl)) and \
        (sh is None or (hi is not None and hi <= sh)):
      return d, unk
  return None, None


def merged_regions(*seglists):
  pts = set()
  for segs in seglists:
    for s in segs:
      for v in s[:2]:
        if v is not None:
          pts.add(v)
  pts = sorted(pts)
  b = [None] + pts + [None]
  return [(b[i], b[i + 1]) for i in range(len(b) - 1)]


def expected_linear(kw):
  """quantized_linear: x + f*(clip(x, lo, hi) - x) with the rounding erased;
  data-dependent scales: identity inside an unknown range -> only R1."""
  if isinstance(kw.get("alpha"), str):
    return None
  a = F(1) if kw.get("alpha") is None else F(kw["alpha"])
  kn = int(bool(kw["keep_negative"]))
  bits = kw["bits"]
  qs = F(2) ** (kw["integer"] - bits + kn) * a
  if bits == 1 and kn:
    lo, hi = -qs / 2, qs / 2
  else:
    ub = bits - kn
    lo = kn * (-(2 ** ub) + int(bool(kw["symmetric"]))) * qs
    hi = (2 ** ub - 1) * qs
  X = qref.X
  clipped = ("app", "clip", (), (X, qref.c(lo), qref.c(hi)))
  f = kw.get("qnoise_factor", F(1))
  f_term = qref.c(F(f)) if isinstance(f, (int, F)) else qref.FSYM
  return ("add", X, ("mul", f_term, ("add", clipped, ("neg", X))))


def check_config(rep, repo, mod, cls, kw, phase):
  cfg = "%s(%s)" % (cls, qref.show_kwargs(kw))
  if phase == "train":
    cfg += "@train"
  unit = "%s::%s.__call__" % (mod.relpath, cls)
  try:
    b = quant.build(repo, cls, kw)
  except ConfigRejected:
    return False
  term = b.term
  loc = b.pe.loc_of(term)
  try:
    segs = piecewise_derivative(term, phase=phase)
  except ZeroDivisionError:
    raise AnalysisError("unsupported-construct division by zero in the "
                        "derivative of %s" % cfg)
  ste = kw.get("use_ste", True)
  facts = {"config": cfg,
           "derivative": ["(%s,%s): %s" % (lo, hi, show(d, 160))
                          for lo, hi, d, _ in segs[:8]]}
  # R4: scales detached
  leaked = False
  for _, _, d, _ in segs:
    for a in d.atoms():
      if a[0] == "app" and a[1].startswith("d_reduce"):
        leaked = True
  rep.check(not leaked, "R4", unit, "scale-not-detached",
            "the derivative contains the derivative of a data-dependent "
            "reduction: the scale is not under stop_gradient", loc=loc,
            instance=cfg, facts=facts)
  # R1: not identically zero
  alive = any(not d.is_zero() for _, _, d, _ in segs)
  if ste or cls == "quantized_linear":
    rep.check(alive, "R1", unit, "dead-gradient",
              "d(output)/dx is identically zero: nothing differentiable "
              "connects the input to the output", loc=loc, instance=cfg,
              facts=facts)
  # R2: surrogate
  if cls == "quantized_linear":
    ref = expected_linear(kw)
    factor = NF.const(1)
  elif cls in ("quantized_tanh", "quantized_sigmoid", "quantized_ulaw"):
    ref = None
    factor = NF.const(1)
    if cls != "quantized_ulaw":
      check_gated(rep, cls, kw, segs, unit, cfg, loc, facts)
  else:
    ref = qref.surrogate_term(cls, kw)
    factor = NF.const(1) if ste or "use_ste" not in kw else NF.const(1) - FS
    if "qnoise_factor" not in kw:
      factor = NF.const(1)
    elif isinstance(kw["qnoise_factor"], (int, F)):
      factor = NF.const(1) if ste or "use_ste" not in kw else \
          NF.const(1 - F(kw["qnoise_factor"]))
  if ref is None:
    return True
  rsegs = piecewise_derivative(ref, phase=phase)
  for lo, hi in merged_regions(segs, rsegs):
    d, unk = segs_lookup(segs, lo, hi)
    dr, _ = segs_lookup(rsegs, lo, hi)
    if d is None or dr is None:
      continue
    want = dr * factor
    rep.check(d == want, "R2", unit, "gradient!=surrogate",
              "on (%s, %s) d(output)/dx = %s but the documented surrogate "
              "gives %s" % (lo, hi, show(d, 200), show(want, 200)), loc=loc,
              instance=cfg, facts=facts)
  return True


def check_gated(rep, cls, kw, segs, unit, cfg, loc, facts):
  """quantized_tanh / quantized_sigmoid: derivative = p'(x) gated by the
  output clip (0 where clipped)."""
  X = qref.X
  if cls == "quantized_tanh":
    if kw.get("use_real_tanh"):
      p = ("app", "tanh", (), (X,))
    else:
      hs = ("app", "clip", (), (("add", ("mul", qref.c(F(1, 2)), X),
                                 qref.c(F(1, 2))), qref.c(0), qref.c(1)))
      p = ("add", ("mul", qref.c(2), hs), qref.c(-1))
  else:
    if kw.get("use_real_sigmoid"):
      p = ("app", "sigmoid", (), (X,))
    else:
      p = ("app", "clip", (), (("add", ("mul", qref.c(F(1, 2)), X),
                                qref.c(F(1, 2))), qref.c(0), qref.c(1)))
  psegs = piecewise_derivative(p)
  for lo, hi in merged_regions(segs, psegs):
    d, unk = segs_lookup(segs, lo, hi)
    dp, _ = segs_lookup(psegs, lo, hi)
    if d is None or dp is None:
      continue
    ok = d.is_zero() or d == dp
    if not ok:
      # d == gate * dp with gate a clipgrad atom
      gates = [a for a in d.atoms(deep=False)
               if a[0] == "app" and a[1] == "clipgrad"]
      if len(gates) == 1:
        ok = d == NF.atom(gates[0]) * dp
    rep.check(ok, "R2", unit, "gradient!=gated-surrogate",
              "on (%s, %s) d(output)/dx = %s is neither 0 nor p'(x) = %s "
              "(optionally gated by the output clip)" %
              (lo, hi, show(d, 200), show(dp, 200)), loc=loc, instance=cfg,
              facts=facts)


def rule_live_use_ste(rep, repo, mod):
  """R5: `use_ste` is a live option (QNoiseScheduler.set_quantizers assigns
  it on existing quantizers): a quantizer whose use_ste is assigned after
  construction has the derivative of a quantizer constructed with that
  value - the forward values of the two forms are equal, so only the
  gradient shows a decision that was frozen at construction."""
  fs = qref.f_tensor()
  n = 0
  for cls in qref.ALL_QUANTIZERS:
    ci = mod.classes.get(cls)
    params = [p for p, _ in ci.init_params()[0]] if ci else []
    if "use_ste" not in params or "qnoise_factor" not in params:
      continue
    unit = "%s::%s.__call__" % (mod.relpath, cls)
    for start in (True, False):
      kw = dict(use_ste=start, qnoise_factor=fs)
      cfg = "%s(use_ste=%s) then q.use_ste = %s" % (cls, start, not start)
      try:
        pe, q = quant.construct(repo, cls, kw)
        pe.setattr(q, "use_ste", not start)
        out = pe.call(q, [pe.x_input()], {})
        ref = quant.build(repo, cls, dict(kw, use_ste=not start))
      except (ConfigRejected, PyRaise):
        continue
      n += 1
      segs = piecewise_derivative(out.term, phase="infer")
      rsegs = piecewise_derivative(ref.term, phase="infer")
      bad = None
      for lo, hi in merged_regions(segs, rsegs):
        d, _ = segs_lookup(segs, lo, hi)
        dr, _ = segs_lookup(rsegs, lo, hi)
        if d is not None and dr is not None and d != dr and bad is None:
          bad = "on (%s, %s) d(output)/dx = %s, constructed that way %s" % (
              lo, hi, show(d, 120), show(dr, 120))
      rep.check(bad is None, "R5", unit, "use_ste-read-at-construction",
                "%s: %s" % (cfg, bad), loc=pe.loc_of(out.term), instance=cfg)
  return n


def check_through_helpers(rep, repo, mod):
  ops = {"_round_through": "round", "_sign_through": "sign",
         "_ceil_through": "ceil", "_floor_through": "floor"}
  for fname, op in ops.items():
    if fname not in mod.functions:
      raise AnalysisError("anchor-missing function %s.%s" %
                          (mod.name, fname))
    unit = "%s::%s" % (mod.relpath, fname)
    rep.unit(unit)
    pe = PE(repo)
    f = pe.lookup_global(fname, mod)
    out = pe.call(f, [pe.x_input()], {})
    fw = Fwd("infer")(out.term)
    want = mk_app(op, [NF.x()])
    rep.check(fw == want, "R3", unit, "forward!=" + op,
              "forward value is %s, expected %s" % (show(fw), show(want)),
              loc=mod.loc(mod.functions[fname]))
    segs = piecewise_derivative(out.term)
    rep.check(all(d == NF.const(1) for _, _, d, _ in segs), "R3", unit,
              "gradient!=identity",
              "derivative is %s, expected 1 (straight-through)" %
              [show(d) for _, _, d, _ in segs],
              loc=mod.loc(mod.functions[fname]))


def run(rep, repo, tier):
  mod = repo.module(quant.QMOD)
  rep.trusted.append("gradient semantics of the primitives in qkstat/qir.py "
                     "(Deriv): stop_gradient, round/floor/ceil/sign have zero "
                     "gradient; clip_by_value passes the gradient on "
                     "lo<=u<=hi")
  rep.assumptions.append("numerical finiteness of tanh'/sigmoid' is "
                         "mathematics, not checked")
  for c in qref.ALL_QUANTIZERS:
    if c not in mod.classes:
      raise AnalysisError("anchor-missing class %s.%s" % (mod.name, c))
  check_through_helpers(rep, repo, mod)
  n = 0
  seen_cls = set()
  def steep_slopes():
    # leaky slopes the constructors accept beyond the usual 2**-k < 1
    fs = qref.f_tensor()
    for slope, ste in itertools.product((F(2), F(4), F(1), F(1, 2)),
                                        (True, False)):
      for clipmode in ("qclip", "ub", "none"):
        kw = dict(bits=4, integer=1, negative_slope=slope, use_ste=ste,
                  qnoise_factor=fs)
        if clipmode == "ub":
          kw.update(is_quantized_clip=False, relu_upper_bound=F(3, 2))
        elif clipmode == "none":
          kw.update(is_quantized_clip=False, relu_upper_bound=None)
        yield "quantized_relu", kw
      # (a bound below 1 too: min() / max() of the po2 classes floor their
      # answer at 1, the bounded relu does not)
      for mv in (None, F(4), F(1, 2)):
        yield "quantized_relu_po2", dict(
            bits=4, max_value=mv, negative_slope=slope, use_ste=ste,
            qnoise_factor=fs)
  def number_kinds():
    # the noise factor as a NUMBER of every kind the constructors accept (the
    # default python float, an int, a float below 1) instead of a tensor:
    # the gradient clause does not depend on how the factor is spelled
    from ..pe import FloatTag
    kinds = (("default", None), ("float 1.0", FloatTag(1)), ("int 1", 1),
             ("float 0.5", FloatTag(F(1, 2))), ("float 0.0", FloatTag(0)))
    for _, f in kinds:
      fk = {} if f is None else dict(qnoise_factor=f)
      for slope, clipmode in itertools.product((F(0), F(1, 4)),
                                               ("qclip", "ub", "none")):
        kw = dict(bits=4, integer=1, negative_slope=slope, **fk)
        if clipmode == "ub":
          kw.update(is_quantized_clip=False, relu_upper_bound=F(3, 2))
        elif clipmode == "none":
          kw.update(is_quantized_clip=False, relu_upper_bound=None)
        yield "quantized_relu", kw
      for kn, alpha in itertools.product((True, False), (None, F(2))):
        yield "quantized_bits", dict(bits=4, integer=1, keep_negative=kn,
                                     alpha=alpha, **fk)
      yield "quantized_bits", dict(bits=1, integer=0, **fk)
      yield "quantized_linear", dict(bits=4, integer=1, keep_negative=True,
                                     symmetric=True, **fk)
      for mv in (None, F(4)):
        yield "quantized_po2", dict(bits=4, max_value=mv, **fk)
        yield "quantized_relu_po2", dict(bits=4, max_value=mv, **fk)
        yield "quantized_relu_po2", dict(bits=4, max_value=mv,
                                         negative_slope=F(1, 4), **fk)
    # ... and the straight-through switch spelled as the integer 1 (the
    # spelling quantizer strings use for every boolean option)
    fs_ = qref.f_tensor()
    for cls_ in ("quantized_bits", "quantized_relu", "quantized_po2",
                 "quantized_relu_po2", "quantized_hswish"):
      yield cls_, dict(bits=4, use_ste=1, qnoise_factor=fs_)
      yield cls_, dict(bits=4, use_ste=1)
    yield "quantized_bits", dict(bits=4, integer=1, alpha="auto_po2",
                                 use_ste=1, qnoise_factor=fs_)
  for cls, kw in itertools.chain(qref.lattice_all(tier), steep_slopes(),
                                 number_kinds()):
    phases = ["infer"]
    if cls == "bernoulli":
      # always random (training and inference alike): only the gradient
      # clause applies - the draw sits inside the stop_gradient, so the
      # derivative is that of the surrogate (identity) whatever the scale
      phases = ["train"]
    if kw.get("use_stochastic_rounding") or cls.startswith("stochastic_"):
      phases.append("train")
    for ph in phases:
      if ph == "train" and cls.startswith("stochastic_"):
        continue   # documented always-random training arm
      if check_config(rep, repo, mod, cls, kw, ph):
        n += 1
        seen_cls.add(cls)
        rep.unit("%s::%s.__call__" % (mod.relpath, cls))
        if n % 211 == 1:
          b = quant.build(repo, cls, kw)
          rep.sample({"config": "%s(%s)" % (cls, qref.show_kwargs(kw)),
                      "phase": ph,
                      "derivative": ["(%s,%s): %s" % (lo, hi, show(d, 120))
                                     for lo, hi, d, _ in
                                     piecewise_derivative(b.term, phase=ph)]})
  rep.extra["configuration_points"] = n
  rep.extra["classes"] = sorted(seen_cls)
  if len(seen_cls) < 13:
    raise AnalysisError("instance-count only %d quantizer classes analysed"
                        % len(seen_cls))
  if rule_live_use_ste(rep, repo, mod) < 6:
    raise AnalysisError("instance-count live use_ste assignments")
  rep.require_instances("R1", 1000)
  rep.require_instances("R2", 1000)
  rep.require_instances("R3", 8)
