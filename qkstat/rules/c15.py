"""C15 - batch-norm folding and unfolding.

QConv2DBatchnorm / QDepthwiseConv2DBatchnorm are partially evaluated in
inference mode (training False) with symbolic kernel, bias and batch-norm
parameters and opaque quantizers, for both folding modes, gamma present /
absent and use_bias on / off.

R1 folded formulas (normal-form identity): the value handed to the kernel
   quantizer is kernel*gamma*rsqrt(moving_var+eps); the value handed to the
   bias quantizer is (bias-moving_mean)*gamma*rsqrt(moving_var+eps)+beta; the
   same for get_folded_weights().
R2 what is applied: the output is activation(bias_add(conv(x, Q_k(folded
   kernel)), Q_b(folded bias))) with the layer's own geometry; without
   quantizers the raw folded values; constructor options are not dropped.
R3 sibling agreement: both classes satisfy R1/R2 with the same instances.
R4 unfolding: the replacement layer's config takes every shared key from the
   folded layer, use_bias is forced on, and its weights are
   get_folded_weights().
R5 the classes convert_to_folded_model folds are the ones model_quantize has
   a folding arm for, and the arm's target class exists.
R8 the network convert_to_folded_model rebuilds is the original one without
   the folded batch-normalisations (operator layers keep their own constants).
"""
import ast
from fractions import Fraction as F

from ..loader import AnalysisError
from ..pe import show_term, PE, Mock, Obj, PyRaise, Tensor, Fork, Func
from ..pe import Unsupported
from ..pe import make_var as P_make_var
from ..qir import Fwd, mk_app
from ..nf import NF, show
from .c11 import qm, find_apps, leaves_with_parent

TECHNIQUE = ("Partial evaluation of the folded layers' call() / "
             "get_folded_weights() in inference mode with symbolic "
             "parameters; polynomial normal-form identity with the "
             "documented folding formulas; interpreted unfolding with Keras "
             "stubbed.")

CLASSES = {
    "qkeras.qconv2d_batchnorm.QConv2DBatchnorm":
        dict(kernel="kernel", op="K.conv2d", qattr="kernel_quantizer"),
    "qkeras.qdepthwiseconv2d_batchnorm.QDepthwiseConv2DBatchnorm":
        dict(kernel="depthwise_kernel", op="K.depthwise_conv2d",
             qattr="depthwise_quantizer"),
}


def S(n):
  return Tensor(("sym", n), (3, 3, 4, 8))


def make(ci, spec, mode, has_gamma, use_bias, quantized, delay=None):
  o = Obj(ci)
  bn = Mock("batchnorm", {
      "_get_training_value": lambda pe, a, k: False,
      "gamma": S("gamma") if has_gamma else None,
      "beta": S("beta"), "moving_mean": S("mean"),
      "moving_variance": S("var"), "epsilon": Tensor(("sym", "eps"), ()),
      "axis": [3], "_param_dtype": "float32",
      "_moments": lambda pe, a, k: (S("batch_mean"), S("batch_var")),
      "__call__": lambda pe, a, k: Tensor(("sym", "bn_out"), None)})
  o.attrs.update({
      "batchnorm": bn, "ema_freeze_delay": delay, "folding_mode": mode,
      spec["kernel"]: S("kernel"), "bias": S("bias") if use_bias else None,
      "use_bias": use_bias, "strides": (3, 4), "padding": "same",
      "data_format": "channels_last", "dilation_rate": (5, 6),
      "activation": qm("act"),
      # the step counter: opaque when unused, a symbolic variable when the
      # freeze delay compares against it
      "_iteration": Mock("iteration", {
          "assign_add": lambda pe, a, k: None,
          "numpy": lambda pe, a, k: -1, "value": lambda pe, a, k: -1})
      if delay is None else P_make_var(("sym", "iteration")),
      spec["qattr"]: "q" if quantized else None,
      spec["qattr"] + "_internal": qm("kernel") if quantized else None,
      "bias_quantizer": "q" if quantized else None,
      "bias_quantizer_internal": qm("bias") if quantized else None,
  })
  # plain attributes the class's own __init__ / build() initialise with a
  # constant (bookkeeping fields): the hand-built object has them too
  for mname in ("__init__", "build"):
    _, fn_ = ci.find_method(mname)
    if fn_ is None:
      continue
    for n_ in ast.walk(fn_):
      if isinstance(n_, ast.Assign) and isinstance(n_.value, ast.Constant):
        for t_ in n_.targets:
          if isinstance(t_, ast.Attribute) and isinstance(
              t_.value, ast.Name) and t_.value.id == "self":
            o.attrs.setdefault(t_.attr, n_.value.value)
  return o


def formulas(has_gamma, use_bias):
  k, g, b, be, m, v, e = (NF.sym(n) for n in ("kernel", "gamma", "bias",
                                              "beta", "mean", "var", "eps"))
  inv = mk_app("rsqrt", [v + e])
  if has_gamma:
    inv = inv * g
  bias = b if use_bias else NF.const(0)
  return inv * k, inv * (bias - m) + be


def rule_call(rep, repo):
  fw = Fwd()
  for qual, spec in sorted(CLASSES.items()):
    ci = repo.classes.get(qual)
    if ci is None:
      raise AnalysisError("anchor-missing class %s" % qual)
    owner, fn = ci.find_method("call")
    gowner, gfn = ci.find_method("get_folded_weights")
    if fn is None or gfn is None:
      raise AnalysisError("anchor-missing %s.call/get_folded_weights" %
                          ci.name)
    unit = "%s::%s.call" % (ci.module.relpath, ci.name)
    rep.unit(unit)
    loc = owner.module.loc(fn)
    for mode in ("ema_stats_folding", "batch_stats_folding"):
      for has_gamma in (True, False):
        for use_bias in (True, False):
          for quantized, delay in ((True, None), (False, None), (True, 3),
                                   (False, 0)):
            # with a freeze delay the step counter is a symbol: inference
            # must not depend on it
            cfg = "%s(folding_mode=%s,scale=%s,use_bias=%s,%s%s)" % (
                ci.name, mode, has_gamma, use_bias,
                "quantized" if quantized else "no quantizers",
                "" if delay is None else ",ema_freeze_delay=%d" % delay)
            pe = PE(repo)
            pe.opaque_ext = True
            pe.fork = Fork([])
            o = make(ci, spec, mode, has_gamma, use_bias, quantized, delay)
            x = Tensor(("sym", "inputs"), (2, 8, 8, 4))
            try:
              out = pe.call_func(Func(fn, owner.module, [], "call", o, owner),
                                 [x], {"training": False})
            except PyRaise as e:
              rep.fail("R2", unit, "call-raises", "%s: call() raises %s" %
                       (cfg, e), loc=loc, instance=cfg)
              continue
            term = out.term
            want_k, want_b = formulas(has_gamma, use_bias)
            # structure: Q_act(bias_add(conv(x, K), B))
            ok = term[0] == "app" and term[1] == "Q_act"
            rep.check(ok, "R2", unit, "activation-not-last",
                      "%s: outermost operation is %s" %
                      (cfg, term[1] if term[0] == "app" else term[0]),
                      loc=loc, instance=cfg)
            adds = find_apps(term, "K.bias_add")
            convs = find_apps(term, spec["op"])
            # the convolution / bias_add that feed the output are the ones
            # applied to the folded values (the un-folded conv only feeds the
            # batch-norm statistics)
            out_convs = [c for c in convs if not _is_raw_kernel(c)]
            rep.check(len(out_convs) == 1, "R2", unit, "folded-conv-count",
                      "%s: %d convolutions on a folded kernel" %
                      (cfg, len(out_convs)), loc=loc, instance=cfg)
            if len(out_convs) != 1 or not ok:
              continue
            conv = out_convs[0]
            attrs = dict(conv[2])
            for kk, vv in (("strides", (3, 4)), ("padding", "same"),
                           ("data_format", "channels_last"),
                           ("dilation_rate", (5, 6))):
              rep.check(attrs.get(kk, "<absent>") == vv, "R2", unit,
                        "geometry-not-forwarded:" + kk,
                        "%s: the folded convolution receives %s=%r" %
                        (cfg, kk, attrs.get(kk, "<absent>")), loc=loc,
                        instance=cfg)
            karg = conv[3][1]
            badd = term[3][0]
            okb = badd[0] == "app" and badd[1] == "K.bias_add" and \
                badd[3][0] is conv or (badd[0] == "app" and
                                       badd[1] == "K.bias_add" and
                                       badd[3][0] == conv)
            rep.check(okb, "R2", unit, "bias-not-added-to-folded-conv",
                      "%s: the activation's argument is not bias_add("
                      "folded convolution, folded bias)" % cfg, loc=loc,
                      instance=cfg)
            if not okb:
              continue
            barg = badd[3][1]

            def unwrap(t, q):
              if quantized:
                if t[0] == "app" and t[1] == q:
                  return t[3][0]
                return None
              return t
            kin = unwrap(karg, "Q_kernel")
            bin_ = unwrap(barg, "Q_bias")
            rep.check(kin is not None and bin_ is not None, "R2", unit,
                      "quantizer-not-applied-to-folded-value",
                      "%s: the convolution / bias_add do not take "
                      "Q(folded value)" % cfg, loc=loc, instance=cfg)
            if kin is None or bin_ is None:
              continue
            gk, gb = fw(kin), fw(bin_)
            rep.check(gk == want_k, "R1", unit, "folded-kernel-formula",
                      "%s: folded kernel = %s, expected %s" %
                      (cfg, show(gk, 200), show(want_k, 200)), loc=loc,
                      instance=cfg)
            rep.check(gb == want_b, "R1", unit, "folded-bias-formula",
                      "%s: folded bias = %s, expected %s" %
                      (cfg, show(gb, 200), show(want_b, 200)), loc=loc,
                      instance=cfg)
            if len(rep.samples) < 4:
              rep.sample({"config": cfg, "folded_kernel": show(gk, 120),
                          "folded_bias": show(gb, 160)})
    # get_folded_weights
    gunit = "%s::%s.get_folded_weights" % (ci.module.relpath, ci.name)
    rep.unit(gunit)
    for has_gamma in (True, False):
      for use_bias in (True, False):
        cfg = "%s(scale=%s,use_bias=%s)" % (ci.name, has_gamma, use_bias)
        pe = PE(repo)
        pe.opaque_ext = True
        o = make(ci, spec, "ema_stats_folding", has_gamma, use_bias, False)
        try:
          r = pe.call_func(Func(gfn, gowner.module, [], "get_folded_weights",
                                o, gowner), [], {})
        except PyRaise as e:
          rep.fail("R1", gunit, "raises", "%s raises %s" % (cfg, e),
                   instance=cfg)
          continue
        want_k, want_b = formulas(has_gamma, use_bias)
        okk = isinstance(r, (list, tuple)) and len(r) == 2 and \
            isinstance(r[0], Tensor) and isinstance(r[1], Tensor)
        rep.check(okk and fw(r[0].term) == want_k, "R1", gunit,
                  "folded-kernel-formula",
                  "%s: get_folded_weights()[0] = %s, expected %s" %
                  (cfg, show(fw(r[0].term), 200) if okk else r,
                   show(want_k, 200)), loc=gowner.module.loc(gfn),
                  instance=cfg)
        rep.check(okk and fw(r[1].term) == want_b, "R1", gunit,
                  "folded-bias-formula",
                  "%s: get_folded_weights()[1] = %s, expected %s" %
                  (cfg, show(fw(r[1].term), 200) if okk else r,
                   show(want_b, 200)), loc=gowner.module.loc(gfn),
                  instance=cfg)
        # the folded weights follow the layer's CURRENT parameters: asked
        # again after the kernel and the moving statistics were replaced
        # (set_weights / load_weights: no training step in between) the
        # answer is the formula on the new values
        if okk:
          k2 = Tensor(("sym", "kernel_new"), (3, 3, 4, 8))
          o.attrs[spec["kernel"]] = k2
          o.attrs["batchnorm"].attrs["moving_mean"] = Tensor(
              ("sym", "mean_new"), (3, 3, 4, 8))
          try:
            r2 = pe.call_func(Func(gfn, gowner.module, [],
                                   "get_folded_weights", o, gowner), [], {})
            sub = {("sym", "kernel"): NF.sym("kernel_new"),
                   ("sym", "mean"): NF.sym("mean_new")}
            from ..qir import simplify_app as _sa
            ok2 = isinstance(r2, (list, tuple)) and len(r2) == 2 and \
                fw(r2[0].term) == want_k.subst(sub, _sa) and \
                fw(r2[1].term) == want_b.subst(sub, _sa)
            got2 = [show(fw(t_.term), 120) for t_ in r2] if isinstance(
                r2, (list, tuple)) else r2
          except PyRaise as e:
            ok2, got2 = False, "raises %s" % e
          rep.check(ok2, "R1", gunit, "folded-weights-stale",
                    "%s: after the kernel and the moving mean were replaced "
                    "get_folded_weights() returns %s" % (cfg, got2),
                    loc=gowner.module.loc(gfn), instance=cfg)
    # constructor options dropped
    init = ci.methods.get("__init__")
    if init is not None:
      params, _, _ = ci.init_params()
      reads = {n.id for n in ast.walk(init) if isinstance(n, ast.Name) and
               isinstance(n.ctx, ast.Load)}
      for p, _ in params:
        rep.check(p in reads, "R2", "%s::%s.__init__" % (ci.module.relpath,
                                                         ci.name),
                  "dead-option:" + p,
                  "constructor option %r of %s is never read" % (p, ci.name),
                  loc=ci.module.loc(init))


def _is_raw_kernel(conv):
  k = conv[3][1] if len(conv[3]) > 1 else None
  return k is not None and k[0] == "sym"


def rule_unfold_layers(rep, repo, bm, fn, unit):
  """R4 (layer level): a composite layer built by its OWN constructor (Keras
  parent and inner batch normalisation are stand-ins, see c13.layer_pe) is
  handed to the interpreted convert_folded_layer_to_unfolded; the replacement
  - built by the target class's own constructor - must have the composite
  layer's geometry, name, activation and quantizers, and a bias."""
  from .c13 import layer_pe, _same_function
  qmod = repo.module("qkeras.quantizers")
  geometry = ("filters", "kernel_size", "strides", "padding", "data_format",
              "dilation_rate", "depth_multiplier", "groups", "name")
  n = 0
  for src, tgt, qattr in (
      ("QConv2DBatchnorm", "QConv2D", "kernel_quantizer"),
      ("QDepthwiseConv2DBatchnorm", "QDepthwiseConv2D",
       "depthwise_quantizer")):
    smod = [m for m in repo.modules.values() if src in m.classes]
    tmod = [m for m in repo.modules.values() if tgt in m.classes]
    if not smod or not tmod:
      raise AnalysisError("anchor-missing class %s / %s" % (src, tgt))
    ci = smod[0].classes[src]
    for label, geo in (
        ("default geometry", dict(kernel_size=(3, 3))),
        ("strided, dilated, same padding",
         dict(kernel_size=(3, 2), strides=(2, 2), padding="same",
              dilation_rate=(2, 3))),
        ("channels_first, no bias",
         dict(kernel_size=(1, 1), data_format="channels_first",
              use_bias=False)),
        ("quantizers and activation", dict(kernel_size=(2, 2), q=True))):
      geo = dict(geo)
      cfg = "%s(%s)" % (src, label)
      pe = layer_pe(repo, ci, src)

      def external_from_config(pe_, a, k):
        # keras.Layer.from_config(config) == cls(**config)
        return pe_.call(pe_.external_super_self, [], dict(a[0]))
      pe.ext_overrides["<external-super>.from_config"] = external_from_config

      # Keras serialises an object to a dictionary that get_quantizer /
      # deserialize_keras_object turn back into an equivalent object
      def ser(pe_, a, k):
        v = a[0]
        if isinstance(v, (Obj, Mock)):
          return {"class_name": getattr(getattr(v, "cls", None), "name",
                                        "object"), "config": {},
                  "__object__": v}
        return v

      def deser(pe_, a, k):
        v = a[0]
        if isinstance(v, dict) and "__object__" in v:
          return v["__object__"]
        return v
      for key in ("*.serialize", "*.serialize_keras_object"):
        pe.ext_overrides[key] = ser
      for key in ("*.deserialize", "*.deserialize_keras_object"):
        pe.ext_overrides[key] = deser
      kw = dict(geo)
      quantized = kw.pop("q", False)
      if src == "QConv2DBatchnorm":
        kw["filters"] = 8
        if label.startswith("strided"):
          pass
      else:
        kw["depth_multiplier"] = 2 if label.startswith("strided") else 1
      if quantized:
        kw[qattr] = pe.call(pe.lookup_global("quantized_bits", qmod), [],
                            dict(bits=5, integer=1, alpha=1))
        kw["bias_quantizer"] = pe.call(
            pe.lookup_global("quantized_bits", qmod), [],
            dict(bits=7, integer=2, alpha=1))
        kw["activation"] = pe.call(
            pe.lookup_global("quantized_relu", qmod), [],
            dict(bits=6, integer=2))
      kw.update(name="folded_%d" % n, momentum=F(9, 10),
                folding_mode="batch_stats_folding")
      try:
        folded = pe.call(pe.lookup_global(src, smod[0]), [], dict(kw))
        new = pe.call(pe.lookup_global(
            "convert_folded_layer_to_unfolded", bm), [folded], {})
      except PyRaise as e:
        rep.fail("R4", unit, "raises:" + src, "%s: raises %s" % (cfg, e),
                 loc=bm.loc(fn), instance=cfg)
        continue
      n += 1
      ok_cls = isinstance(new, Obj) and new.cls.name == tgt
      rep.check(ok_cls, "R4", unit, "unfolded-class:" + src,
                "%s is replaced by %r, expected a %s" % (cfg, new, tgt),
                loc=bm.loc(fn), instance=cfg)
      if not ok_cls:
        continue

      def val(o, a_):
        v = o.attrs.get(a_, "<absent>")
        return list(v) if isinstance(v, (list, tuple)) else v
      diff = ["%s: %r -> %r" % (a_, val(folded, a_), val(new, a_))
              for a_ in geometry if a_ in folded.attrs and
              val(folded, a_) != val(new, a_)]
      rep.check(not diff, "R4", unit, "unfolded-config:" + src,
                "%s: the replacement %s differs from the composite layer "
                "in %s" % (cfg, tgt, diff), loc=bm.loc(fn), instance=cfg,
                observed=str(diff))
      rep.check(new.attrs.get("use_bias") is True, "R4", unit,
                "unfolded-without-bias:" + src,
                "%s: the replacement has use_bias=%r; the folded bias needs "
                "a bias" % (cfg, new.attrs.get("use_bias")), loc=bm.loc(fn),
                instance=cfg)
      for a_ in (qattr + "_internal", "bias_quantizer_internal",
                 "activation"):
        rep.check(_same_function(pe, folded.attrs.get(a_),
                                 new.attrs.get(a_)), "R4", unit,
                  "unfolded-quantizer:%s:%s" % (src, a_),
                  "%s: the replacement applies %r as %s, the composite "
                  "layer %r" % (cfg, new.attrs.get(a_), a_,
                                folded.attrs.get(a_)), loc=bm.loc(fn),
                  instance=cfg)
  rep.extra["composite_layers_unfolded"] = n
  if n < 8 and not any(f.rule == "R4" for f in rep.findings):
    raise AnalysisError("instance-count only %d composite layers could be "
                        "built and unfolded" % n)


def rule_unfold(rep, repo):
  bm = repo.module("qkeras.bn_folding_utils")
  fn = bm.functions.get("convert_folded_layer_to_unfolded")
  un = bm.functions.get("unfold_model")
  if fn is None or un is None:
    raise AnalysisError("anchor-missing bn_folding_utils functions")
  unit = "%s::convert_folded_layer_to_unfolded" % bm.relpath
  rep.unit(unit)
  rule_unfold_layers(rep, repo, bm, fn, unit)
  # unfold_model: weights of the replacement come from get_folded_weights
  unit = "%s::unfold_model" % bm.relpath
  rep.unit(unit)
  sets = {}

  def layer(cls, name, folded):
    return Mock(name, {
        "__class__": Mock("class", {"__name__": cls,
                                    "from_config": lambda pe, a, k:
                                    new_layer(cls, name)}),
        "name": name, "input_shape": (None, 8, 8, 3),
        "get_config": lambda pe, a, k: {},
        "get_weights": lambda pe, a, k: ["W_" + name],
        # the replacement layer carries the same quantizers and applies them
        # in its own call(): the transferred weights must be the unquantized
        # folded ones
        "get_quantizers": lambda pe, a, k: [qstub("k_" + name),
                                            qstub("b_" + name)],
        "quantizers": [qstub("k_" + name), qstub("b_" + name)],
        "kernel_quantizer_internal": qstub("k_" + name),
        "depthwise_quantizer_internal": qstub("k_" + name),
        "bias_quantizer_internal": qstub("b_" + name),
        "get_folded_weights": lambda pe, a, k: [
            Tensor(("sym", "FK_" + name), None),
            Tensor(("sym", "FB_" + name), None)]})

  def qstub(tag):
    return Mock("q_" + tag, {"__call__": lambda pe, a, k: Tensor(
        ("app", "Q_" + tag, (), (pe.as_term(a[0]),)), None)})

  def new_layer(cls, name):
    return Mock("new_" + name, {
        "__class__": Mock("class", {"__name__": cls}),
        "build": lambda pe, a, k: None,
        "set_weights": lambda pe, a, k: sets.setdefault(name, a[0])})
  src_layers = [layer("QConv2DBatchnorm", "a", True),
                layer("QDepthwiseConv2DBatchnorm", "b", True),
                layer("QDense", "c", False)]
  model = Mock("model", {"layers": src_layers,
                         "input_shape": (None, 8, 8, 3)})

  def clone(pe, a, k):
    f = k["clone_function"]
    return Mock("cloned", {"layers": [pe.call(f, [l], {})
                                      for l in src_layers]})
  pe = PE(repo, module_overrides={bm.name: {
      "convert_folded_layer_to_unfolded":
          lambda pe, a, k: new_layer(
              {"QConv2DBatchnorm": "QConv2D",
               "QDepthwiseConv2DBatchnorm": "QDepthwiseConv2D"}[
                   a[0].attrs["__class__"].attrs["__name__"]],
              a[0].attrs["name"]),
      "clone_model": clone,
      "Input": lambda pe, a, k: Mock("input", {})}})
  try:
    pe.call(pe.lookup_global("unfold_model", bm), [model], {})
    def nm(v):
      return [(x.term[1] if x.term[0] == "sym" else show_term(x.term))
              if isinstance(x, Tensor) else x for x in v]
    rep.check(nm(sets.get("a", [])) == ["FK_a", "FB_a"] and
              nm(sets.get("b", [])) == ["FK_b", "FB_b"] and
              sets.get("c") == ["W_c"], "R4", unit, "unfolded-weights",
              "replacement layers receive %s; expected the folded kernel and "
              "bias of each folded layer and the plain weights otherwise" %
              {k: nm(v) for k, v in sets.items()}, loc=bm.loc(un))
  except PyRaise as e:
    rep.fail("R4", unit, "raises", "unfold_model raises %s" % e,
             loc=bm.loc(un))


def rule_lists(rep, repo):
  um = repo.module("qkeras.utils")
  cf = um.functions.get("convert_to_folded_model")
  mq = um.functions.get("model_quantize")
  if cf is None or mq is None:
    raise AnalysisError("anchor-missing utils.convert_to_folded_model")
  unit = "%s::convert_to_folded_model" % um.relpath
  rep.unit(unit)
  # which layer classes the selection loop folds: decided by interpreting
  # it on a chain  probe -> BatchNormalization -> probe -> ...  with one
  # probe layer per class (stand-ins that declare the classes they derive
  # from, so a name test and an isinstance test are read alike)
  from ..graphmock import probe_chain
  PROBES = ("Conv2D", "DepthwiseConv2D", "Conv1D", "Dense",
            "SeparableConv2D", "Conv2DTranspose", "QConv2D",
            "QDepthwiseConv2D", "QConv1D", "QDense", "QConv2DTranspose",
            "QSeparableConv2D")
  G, graph, qg, removed, topo = probe_chain(PROBES)
  model = Mock("model", {"get_config": lambda pe, a, k: {"layers": []},
                         "inputs": ["in"]})
  pe = PE(repo, module_overrides={um.name: {
      "clone_model": lambda pe, a, k: model, "qgraph": qg,
      "Model": lambda pe, a, k: Mock("new_model", {})}})
  pe.opaque_ext = True
  pe.ext_overrides = {"*.topological_sort": topo}
  try:
    r = pe.call(pe.lookup_global("convert_to_folded_model", um), [model], {})
    foldable = [n_[len("probe_"):] for n_ in r[1]]
  except (PyRaise, Unsupported) as e:
    raise AnalysisError("unsupported-construct convert_to_folded_model on "
                        "the probe chain: %s" % e)
  if not foldable:
    rep.fail("R5", unit, "nothing-folded",
             "convert_to_folded_model folds none of %s" % (PROBES,),
             loc=um.loc(cf))
  rep.extra["foldable_classes"] = foldable
  # folding arms of model_quantize: conditions mentioning enable_bn_folding
  arms = {}
  for n in ast.walk(mq):
    if isinstance(n, ast.If) and "enable_bn_folding" in ast.unparse(n.test):
      names = []
      for x in ast.walk(n.test):
        if isinstance(x, ast.List):
          names += [e.value for e in x.elts if isinstance(e, ast.Constant)]
      tgt = None
      for s in n.body:
        if isinstance(s, ast.Assign) and any(
            isinstance(t, ast.Name) and t.id == "q_name"
            for t in s.targets):
          tgt = s.value
      if not names:
        # enclosing arm decides the class (DepthwiseConv2D)
        names = ["DepthwiseConv2D"]
      for nm in names:
        arms[nm] = tgt
  for c in foldable:
    rep.check(c in arms, "R5", unit, "foldable-without-arm:" + c,
              "%s layers are folded by convert_to_folded_model but "
              "model_quantize has no folding arm for them" % c,
              loc=um.loc(cf))
    if c in arms and arms[c] is not None:
      t = arms[c]
      if isinstance(t, ast.Constant):
        qn = t.value
      else:
        qn = "Q" + c + "Batchnorm"
      exists = any(ci.name == qn for ci in repo.classes.values())
      rep.check(exists, "R5", unit, "fold-target-missing:" + qn,
                "the folding arm turns %s into %s, which is not a class of "
                "the package" % (c, qn), loc=um.loc(mq))


def rule_fold_selection(rep, repo):
  """R6: convert_to_folded_model is interpreted on a synthetic layer graph
  (the graph library and the Keras model rebuild are stand-ins): a
  convolution may be folded - and its BatchNormalization removed - only when
  that BatchNormalization is its sole consumer; otherwise the other consumer
  would receive the normalised instead of the raw convolution output."""
  um = repo.module("qkeras.utils")
  cf = um.functions.get("convert_to_folded_model")
  unit = "%s::convert_to_folded_model" % um.relpath
  loc = um.loc(cf)

  from ..graphmock import harness
  G, graph, qg, removed, topo = harness("Conv2D", "DepthwiseConv2D",
                                        "BatchNormalization")
  model = Mock("model", {"get_config": lambda pe, a, k: {},
                         "inputs": ["in"]})
  pe = PE(repo, module_overrides={um.name: {
      "clone_model": lambda pe, a, k: model, "qgraph": qg,
      "Model": lambda pe, a, k: Mock("new_model", {})}})
  pe.opaque_ext = True
  pe.ext_overrides = {"*.topological_sort": topo}
  try:
    r = pe.call(pe.lookup_global("convert_to_folded_model", um), [model], {})
    folded = list(r[1])
  except PyRaise as e:
    rep.fail("R6", unit, "fold-selection-raises",
             "convert_to_folded_model raises %s on the synthetic graph" % e,
             loc=loc)
    return
  want_f = ["c2_only_bn", "dw3_only_bn"]
  want_r = [5, 7]
  rep.check(sorted(folded) == sorted(want_f), "R6", unit, "folded-layers",
            "layers selected for folding: %s; only convolutions whose sole "
            "consumer is a BatchNormalization may be folded: %s" %
            (folded, want_f), loc=loc)
  rep.check(sorted(removed) == want_r, "R6", unit, "removed-batchnorm-nodes",
            "BatchNormalization nodes removed: %s (%s); expected %s" %
            (removed, [G[i][0].attrs["name"] for i in removed if i in G],
             want_r), loc=loc)


def _canon(e):
  if isinstance(e, tuple) and len(e) == 3 and isinstance(e[1], tuple):
    return (e[0], tuple(sorted((_canon(i) for i in e[1]), key=repr)), e[2])
  return e


def _first_difference(got, want):
  """(layer, what) of the innermost layer application where the rebuilt and
  the original network differ."""
  if not (isinstance(got, tuple) and isinstance(want, tuple) and
          len(got) == 3 and len(want) == 3):
    return None, "%r instead of %r" % (got, want)
  if got[0] != want[0]:
    return want[0], "layer %s applied where the original has %s" % (got[0],
                                                                  want[0])
  if len(got[1]) == len(want[1]):
    for g, w in zip(got[1], want[1]):
      if g != w:
        inner = _first_difference(g, w)
        if inner[0] is not None:
          return inner
  if got[2] != want[2]:
    return got[0], "constant operand %r, the original model has %r" % (
        got[2], want[2])
  return got[0], "inputs %s, the original model has %s" % (
      [i[0] for i in got[1]], [i[0] for i in want[1]])


def rule_fold_rebuild(rep, repo):
  """R8: the second half of convert_to_folded_model - the network is rebuilt
  from the graph without the folded batch-normalisation nodes - is
  interpreted on a synthetic network with several constant-operand operator
  layers of the same kind (tf.math.multiply, tf.math.multiply_1,
  tf.math.multiply_10, tf.__operators__.add, tf.__operators__.add_1, each
  with its own constant in the model config): the rebuilt output has to be
  the original network with exactly the two foldable batch-normalisations
  left out - every layer applied once, to the outputs of its own
  predecessors, every operator layer with the constant the model config
  records for THAT layer."""
  um = repo.module("qkeras.utils")
  cf = um.functions.get("convert_to_folded_model")
  unit = "%s::convert_to_folded_model" % um.relpath
  loc = um.loc(cf)
  from ..graphmock import rebuild_harness
  model, qg, topo, model_ctor, st = rebuild_harness()
  pe = PE(repo, module_overrides={um.name: {
      "clone_model": lambda pe, a, k: model, "qgraph": qg,
      "Model": model_ctor}})
  pe.opaque_ext = True
  pe.ext_overrides = {"*.topological_sort": topo}
  try:
    pe.call(pe.lookup_global("convert_to_folded_model", um), [model], {})
  except PyRaise as e:
    rep.fail("R8", unit, "fold-rebuild-raises",
             "convert_to_folded_model raises %s on the synthetic network "
             "with operator layers" % e, loc=loc)
    return
  got = st["outputs"]
  want = st["expected"]
  ok = got is not None and len(got) == len(want) and all(
      _canon(g) == _canon(w) for g, w in zip(got, want))
  if ok:
    rep.check(True, "R8", unit, "rebuilt-network", "", loc=loc)
  elif got is None or len(got) != len(want):
    rep.fail("R8", unit, "rebuilt-network",
             "the rebuilt model has outputs %r, expected one output" % (got,),
             loc=loc)
  else:
    lay, what = _first_difference(_canon(got[0]), _canon(want[0]))
    rep.fail("R8", unit, "rebuilt-network:%s" % lay,
             "the network rebuilt without the folded batch-normalisations "
             "differs from the original at layer %s: %s" % (lay, what),
             loc=loc, facts={"rebuilt": repr(got[0])[:600],
                             "expected": repr(want[0])[:600]})
  calls = [c for c, _ in st["calls"]]
  rep.check(len(calls) == len(set(calls)) and
            set(calls) == set(st["constants"]) - {"bn", "bn_1"}, "R8", unit,
            "layers-applied-once",
            "layers applied while rebuilding: %s; expected every layer "
            "except the folded batch-normalisations exactly once" % calls,
            loc=loc)


def rule_populate(rep, repo):
  """R7: populate_bias_quantizer_from_accumulator gives a folded layer that
  was built without a bias quantizer the accumulator type as bias quantizer;
  afterwards the layer's own inference path must quantize the folded bias
  with it (composition of the interpreted utility with the interpreted
  call()), and get_quantizers() must report it."""
  bm = repo.module("qkeras.bn_folding_utils")
  pf = bm.functions.get("populate_bias_quantizer_from_accumulator")
  if pf is None:
    raise AnalysisError("anchor-missing populate_bias_quantizer_from_"
                        "accumulator")
  unit = "%s::populate_bias_quantizer_from_accumulator" % bm.relpath
  rep.unit(unit)
  loc = bm.loc(pf)
  for qual, spec in sorted(CLASSES.items()):
    ci = repo.classes[qual]
    owner, fn = ci.find_method("call")
    o = make(ci, spec, "ema_stats_folding", True, True, True)
    o.attrs["bias_quantizer"] = None
    o.attrs["bias_quantizer_internal"] = None
    o.attrs["name"] = "folded"
    o.attrs["quantizers"] = [o.attrs[spec["qattr"] + "_internal"], None]
    newq = qm("bias")
    tq = Mock("qtools accumulator type", {
        "int_bits": 3,
        "convert_to_qkeras_quantizer": lambda pe, a, k: newq})
    lmap = {"layer_data_type_map": {o: Mock("entry",
                                            {"bias_quantizer": tq})}}
    qg = Mock("qgraph", {
        "CreateGraph": lambda pe, a, k: (Mock("graph", {}), []),
        "GraphPropagateActivationsToEdges": lambda pe, a, k: None})
    gen = Mock("gen_map", {
        "generate_layer_data_type_map": lambda pe, a, k: lmap})
    model = Mock("model", {"layers": [o]})
    pe = PE(repo, module_overrides={bm.name: {"qgraph": qg,
                                              "gen_map": gen}})
    pe.opaque_ext = True
    pe.fork = Fork([])
    pe.ext_overrides = {"*.is_tensor": lambda pe, a, k: False}
    cfg = ci.name
    try:
      pe.call(pe.lookup_global("populate_bias_quantizer_from_accumulator",
                               bm), [model, None], {})
      out = pe.call_func(Func(fn, owner.module, [], "call", o, owner),
                         [Tensor(("sym", "inputs"), (2, 8, 8, 4))],
                         {"training": False})
    except PyRaise as e:
      rep.fail("R7", unit, "populate-or-call-raises", "%s: raises %s" %
               (cfg, e), loc=loc, instance=cfg)
      continue
    adds = [a for a in find_apps(out.term, "K.bias_add")]
    quantized_bias = [a for a in adds if a[3][1][0] == "app" and
                      a[3][1][1] == "Q_bias"]
    rep.check(len(adds) == 1 and len(quantized_bias) == 1, "R7", unit,
              "populated-bias-quantizer-not-applied",
              "%s: after the utility has given the layer its accumulator "
              "type as bias quantizer, call() adds %s" % (
                  cfg, "the unquantized folded bias" if adds else
                  "no bias"), loc=loc, instance=cfg)
    gq_owner, gq = ci.find_method("get_quantizers")
    rep.check(o.attrs.get("bias_quantizer_internal") is newq and
              isinstance(o.attrs.get("quantizers"), list) and
              o.attrs["quantizers"][-1] is newq, "R7", unit,
              "populated-bias-quantizer-not-reported",
              "%s: bias_quantizer_internal / quantizers do not hold the "
              "populated quantizer" % cfg, loc=loc, instance=cfg)
    # a layer that already has a bias quantizer keeps it
    o2 = make(ci, spec, "ema_stats_folding", True, True, True)
    o2.attrs["name"] = "folded2"
    keep = o2.attrs["bias_quantizer_internal"]
    lmap2 = {"layer_data_type_map": {o2: Mock("entry",
                                              {"bias_quantizer": tq})}}
    gen2 = Mock("gen_map", {
        "generate_layer_data_type_map": lambda pe, a, k: lmap2})
    pe2 = PE(repo, module_overrides={bm.name: {"qgraph": qg,
                                               "gen_map": gen2}})
    pe2.opaque_ext = True
    pe2.ext_overrides = {"*.is_tensor": lambda pe, a, k: False}
    try:
      pe2.call(pe2.lookup_global("populate_bias_quantizer_from_accumulator",
                                 bm), [Mock("model", {"layers": [o2]}),
                                       None], {})
      rep.check(o2.attrs.get("bias_quantizer_internal") is keep, "R7", unit,
                "user-bias-quantizer-overwritten",
                "%s: a bias quantizer given by the user was replaced" % cfg,
                loc=loc, instance=cfg)
    except PyRaise as e:
      rep.fail("R7", unit, "populate-raises", "%s: raises %s" % (cfg, e),
               loc=loc, instance=cfg)


def rule_bn_options_forwarded(rep, repo, rule="R9"):
  """The folded layer normalises with the batch-norm options it was GIVEN:
  each composite class is built by its own constructor with truthy and with
  falsy-but-meaningful option values (epsilon=0, momentum=0, scale=False,
  center=False); the inner BatchNormalization receives each option with that
  value."""
  from .c13 import layer_pe
  n = 0
  for src in ("QConv2DBatchnorm", "QDepthwiseConv2DBatchnorm"):
    smod = [m for m in repo.modules.values() if src in m.classes]
    if not smod:
      raise AnalysisError("anchor-missing class %s" % src)
    ci = smod[0].classes[src]
    params = [p for p, _ in ci.init_params()[0]]
    unit = "%s::%s.__init__" % (ci.module.relpath, src)
    for label, opts in (
        ("truthy options", dict(epsilon=F(1, 100), momentum=F(9, 10),
                                scale=True, center=True)),
        ("falsy options", dict(epsilon=0, momentum=0, scale=False,
                               center=False))):
      opts = {k: v for k, v in opts.items() if k in params}
      kw = dict(opts, kernel_size=(3, 3))
      if "filters" in params:
        kw["filters"] = 8
      cfg = "%s(%s)" % (src, ", ".join("%s=%s" % kv for kv in sorted(
          opts.items())))
      pe = layer_pe(repo, ci, src)
      try:
        layer = pe.call(pe.lookup_global(src, smod[0]), [], dict(kw))
      except PyRaise as e:
        rep.fail(rule, unit, "raises:" + src, "%s raises %s" % (cfg, e),
                 loc=ci.loc(), instance=cfg)
        continue
      bns = [v for v in layer.attrs.values() if isinstance(v, Mock) and
             v.name == "BatchNormalization"]
      if len(bns) != 1:
        continue
      n += 1
      rep.unit(unit)
      got = bns[0].attrs.get("__options__", {})
      bad = ["%s: given %r, the inner batch normalisation gets %s" % (
          k, v, repr(got[k]) if k in got else "nothing (its own default)")
             for k, v in sorted(opts.items())
             if k not in got or got[k] != v or type(got[k]) is not type(v)]
      rep.check(not bad, rule, unit, "bn-option-not-forwarded",
                "%s: %s" % (cfg, "; ".join(bad)), loc=ci.loc(), instance=cfg)
  return n


def run(rep, repo, tier):
  rep.trusted.append("Keras backend convolutions are uninterpreted; "
                     "smart_cond with a python False takes the second arm")
  rep.assumptions.append("numerical equality with conv followed by batch "
                         "normalisation and the training path are not "
                         "decided")
  rule_call(rep, repo)
  rule_unfold(rep, repo)
  rule_lists(rep, repo)
  rule_fold_selection(rep, repo)
  rep.require_instances("R6", 2)
  rule_fold_rebuild(rep, repo)
  rep.require_instances("R8", 2)
  rule_populate(rep, repo)
  if rule_bn_options_forwarded(rep, repo) < 4:
    raise AnalysisError("instance-count composite layers with options")
  rep.require_instances("R7", 6)
  rep.require_instances("R1", 60)
  rep.require_instances("R2", 150)
  rep.require_instances("R4", 3)
  rep.require_instances("R5", 3)
