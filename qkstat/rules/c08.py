"""C08 - stochastic rounding: adjacent code, unbiased in training, exact at
inference.

R1 phase guard: every random draw reachable from a quantizer __call__ lies in
   the training arm of a learning-phase switch (exemption: bernoulli, which
   is documented always-random).  A synthetic positive example must fire.
R2 the inference arm is node-for-node the deterministic configuration:
   forward normal form (phase=infer) of the stochastic configuration equals
   that of the same configuration with stochastic rounding off;
   stochastic_binary / stochastic_ternary equal binary / ternary.
R3 adjacent codes: in training the value set stays inside the declared code
   set of the format (C01 oracle): the stochastic rounding must act on the
   code index with precision 1.
R4 unbiased orientation of stochastic_round / stochastic_round_po2.
R6 inference arm vs deterministic configuration under IEEE arithmetic on
   constant tensors (all-zero channel included).
R8 stochastic_binary with a data-dependent scale: training output / scale of
   the inference arm is a +-1 code, the training scale has no random draw.
R5 every configuration that requests stochastic rounding has a random draw
   in its training arm (a dropped option makes the rounding deterministic
   and therefore biased between two codes).
"""
from fractions import Fraction as F

from ..loader import AnalysisError
from ..pe import ConfigRejected, PE, Tensor, PyRaise
from .. import qref, quant, oracle
from ..qir import (Fwd, value_set, Env, Eval, mk_app, simplify_app,
                   equal_mod_finite)
from ..nf import NF, show
from ..vset import VS
from .c01 import diagnose

TECHNIQUE = ("Dominance check of random-draw nodes by the learning-phase "
             "switch on the IR; normal-form equality of the inference arm "
             "with the deterministic configuration; value-set containment of "
             "the training arm; comparison-orientation table for the "
             "stochastic rounding helpers.")


def unguarded_rands(term):
  """rand nodes not inside the training arm of a phase node."""
  out = []
  seen = set()

  def walk(t, in_train):
    key = (id(t), in_train)
    if key in seen:
      return
    seen.add(key)
    if not isinstance(t, tuple) or not t:
      return
    k = t[0]
    if k == "rand":
      if not in_train:
        out.append(t)
      for s in t[2:]:
        walk(s, in_train)
      return
    if k == "phase":
      walk(t[1], True)
      walk(t[2], in_train)
      return
    for s in t[1:]:
      if isinstance(s, tuple):
        walk(s, in_train)
  walk(term, False)
  return out


def det_config(cls, kw):
  if cls == "stochastic_binary":
    return "binary", dict(alpha=kw.get("alpha"))
  if cls == "stochastic_ternary":
    return "ternary", dict(alpha=kw.get("alpha"),
                           threshold=kw.get("threshold"),
                           number_of_unrolls=kw.get("number_of_unrolls", 5))
  k2 = dict(kw)
  k2["use_stochastic_rounding"] = False
  return cls, k2


def c01_codes(cls, kw):
  if cls == "quantized_bits" and not isinstance(kw.get("alpha"), str):
    return oracle.codes_quantized_bits(kw["bits"], kw["integer"],
                                       kw["keep_negative"], kw["symmetric"],
                                       kw["alpha"])[0]
  if cls == "quantized_linear" and not isinstance(kw.get("alpha"), str):
    return oracle.codes_quantized_linear(kw["bits"], kw["integer"],
                                         kw["keep_negative"],
                                         kw["symmetric"], kw["alpha"])[0]
  if cls == "quantized_relu":
    slope = F(kw["negative_slope"])
    nsb = kw["bits"] - int(slope != 0)
    if slope * 2 ** nsb < 1 and slope != 0:
      return None   # degenerate leaky configurations: C01 known finding
    s = oracle.codes_quantized_relu(kw["bits"], kw["integer"], slope)[0]
    return s
  if cls == "quantized_tanh":
    return oracle.codes_quantized_tanh(kw["bits"], kw["symmetric"])[0]
  if cls == "quantized_sigmoid":
    return oracle.codes_quantized_sigmoid(kw["bits"], kw["symmetric"])[0]
  return None


def rule_helpers(rep, repo, mod):
  # --- stochastic_round
  fn = mod.functions.get("stochastic_round")
  if fn is None:
    raise AnalysisError("anchor-missing function stochastic_round")
  unit = "%s::stochastic_round" % mod.relpath
  rep.unit(unit)
  pe = PE(repo)
  f = pe.lookup_global("stochastic_round", mod)
  out = pe.call(f, [pe.x_input()], {"precision": F(1)})
  nf = Fwd()(out.term)
  a = nf.single_atom()
  loc = mod.loc(fn)
  ok = False
  why = "result is not where(cmp(frac, U), floor(s), ceil(s)): %s" % show(nf)
  if a is not None and a[0] == "app" and a[1] == "where":
    cond, tv, ev_ = a[3]
    ca = cond.single_atom()
    fl = mk_app("floor", [NF.x()])
    ce = mk_app("ceil", [NF.x()])
    frac = NF.x() - fl
    if ca is not None and ca[1] == "cmp" and {tv, ev_} == {fl, ce}:
      op = ca[2][0]
      l, r = ca[3]
      def is_u(n):
        at = n.single_atom()
        return at is not None and at[0] == "app" and at[1] == "rand" and \
            at[3][0] == NF.const(0) and at[3][1] == NF.const(1)
      p_true = None      # probability the condition holds, as 'frac'/'1-frac'
      if l == frac and is_u(r):
        p_true = {"lt": "1-frac", "le": "1-frac", "gt": "frac",
                  "ge": "frac"}.get(op)
      elif r == frac and is_u(l):
        p_true = {"lt": "frac", "le": "frac", "gt": "1-frac",
                  "ge": "1-frac"}.get(op)
      elif l == NF.const(1) - frac and is_u(r):
        p_true = {"lt": "frac", "le": "frac", "gt": "1-frac",
                  "ge": "1-frac"}.get(op)
      elif r == NF.const(1) - frac and is_u(l):
        p_true = {"lt": "1-frac", "le": "1-frac", "gt": "frac",
                  "ge": "frac"}.get(op)
      if p_true is None:
        why = "condition %s is not a comparison of frac(s) with U(0,1)" % \
            show(cond)
      else:
        p_ceil = p_true if tv == ce else ("1-frac" if p_true == "frac"
                                          else "frac")
        ok = p_ceil == "frac"
        why = "P(round up) = %s, must be frac(s) for an unbiased draw" % \
            p_ceil
  construct = "biased-orientation"
  if not (a is not None and a[0] == "app" and a[1] == "where"):
    # not a selection between floor and ceil
    rands = [t for t in nf.atoms() if t[0] == "app" and t[1] == "rand"]
    additive = a is not None and a[0] == "app" and a[1] in (
        "floor", "ceil", "round") and any(
            at[0] == "app" and at[1] == "rand"
            for at in a[3][0].atoms(deep=False))
    if additive:
      construct = "additive-noise-rounding"
      why = ("stochastic_round computes %s: adding the uniform draw to the "
             "value before rounding is exact only in real arithmetic - in "
             "float32 the sum is rounded first, so an input that already is "
             "a code of large magnitude moves to the neighbouring code" %
             show(nf))
    elif rands:
      raise AnalysisError("unsupported-construct unrecognised stochastic "
                          "rounding form %s" % show(nf, 200))
  rep.check(ok, "R4", unit, construct, why, loc=loc,
            facts={"result": show(nf)})
  # precision scales in and out symmetrically
  pe = PE(repo)
  f = pe.lookup_global("stochastic_round", mod)
  out2 = pe.call(f, [pe.x_input()], {"precision": F(1, 4)})
  nf2 = Fwd()(out2.term)
  want = nf.subst({("x",): NF.x() * 4}, simplify_app) * F(1, 4)
  rep.check(nf2 == want, "R4", unit, "precision-scaling",
            "stochastic_round(x, 1/4) is %s, expected round(4x)/4 form %s" %
            (show(nf2, 200), show(want, 200)), loc=loc)
  # --- stochastic_round_po2
  fn = mod.functions.get("stochastic_round_po2")
  if fn is None:
    raise AnalysisError("anchor-missing function stochastic_round_po2")
  unit = "%s::stochastic_round_po2" % mod.relpath
  rep.unit(unit)
  loc = mod.loc(fn)
  pe = PE(repo)
  f = pe.lookup_global("stochastic_round_po2", mod)
  out = pe.call(f, [pe.x_input()], {})
  nf = Fwd()(out.term)
  a = nf.single_atom()
  ok = False
  why = "result is not where(y < val, left, right): %s" % show(nf, 300)
  if a is not None and a[0] == "app" and a[1] == "where":
    cond, tv, ev_ = a[3]
    ca = cond.single_atom()
    if ca is not None and ca[1] == "cmp":
      op = ca[2][0]
      l, r = ca[3]
      y = mk_app("abs", [NF.x()])
      def rand_parts(n):
        at = n.single_atom()
        if at is not None and at[0] == "app" and at[1] == "rand":
          return at[3]
        return None
      lo_hi = None
      pick_low_when_true = None
      if l == y and rand_parts(r) is not None:
        lo_hi = rand_parts(r)
        pick_low_when_true = op in ("lt", "le")
      elif r == y and rand_parts(l) is not None:
        lo_hi = rand_parts(l)
        pick_low_when_true = op in ("gt", "ge")
      if lo_hi is not None:
        low, high = (tv, ev_) if pick_low_when_true else (ev_, tv)
        # val ~ U(2**low, 2**high); P(val > y) = (2^high - y)/(2^high-2^low)
        # picks `low`: E[2^e] = y.  Required: bounds are pow2 of the two
        # candidates and high - low == 1.
        b_ok = lo_hi[0] == mk_app("pow2", [low]) and \
            lo_hi[1] == mk_app("pow2", [high])
        gap = value_set(high - low)
        ok = b_ok and gap.const_value() == 1
        why = ("uniform bounds %s..%s vs candidates 2^(%s), 2^(%s); "
               "high-low in %r" % (show(lo_hi[0], 80), show(lo_hi[1], 80),
                                   show(low, 80), show(high, 80), gap))
  rep.check(ok, "R4", unit, "biased-orientation", why, loc=loc)


def rule_phase_read_at_call_time(rep, repo, mod):
  """R9: the learning phase is read when a quantizer is CALLED.  A function
  compiled once per input signature (`@tf.function`, `tf.function(f)`,
  autograph wrappers) freezes every Python-level decision made while it is
  traced - the branch `smart_cond(K.learning_phase(), ...)` takes, the
  quantizer's option attributes - so no function from which a learning-phase
  read is reachable may be wrapped that way.  Syntax-tree rule over the
  quantizer modules: decorated functions and `tf.function(...)` call sites,
  reachability through the module's own call graph by name."""
  import ast
  mods = [mod]
  bq = repo.modules.get("qkeras.base_quantizer")
  if bq is not None:
    mods.append(bq)
  funcs = {}
  for m in mods:
    for node in ast.walk(m.tree):
      if isinstance(node, (ast.FunctionDef, ast.AsyncFunctionDef)):
        funcs.setdefault(node.name, []).append((m, node))

  def names_called(node):
    out = set()
    for n in ast.walk(node):
      if isinstance(n, ast.Call):
        f = n.func
        if isinstance(f, ast.Name):
          out.add(f.id)
        elif isinstance(f, ast.Attribute):
          out.add(f.attr)
    return out
  reads = set()
  for name, defs in funcs.items():
    for m, node in defs:
      src = ast.unparse(node)
      if "learning_phase" in src or "in_train_phase" in src:
        reads.add(name)
  changed = True
  while changed:
    changed = False
    for name, defs in funcs.items():
      if name in reads:
        continue
      if any(names_called(node) & reads for _, node in defs):
        reads.add(name)
        changed = True
  n = 0
  for name, defs in sorted(funcs.items()):
    for m, node in defs:
      n += 1
      traced = [ast.unparse(d) for d in node.decorator_list
                if "tf.function" in ast.unparse(d) or
                ast.unparse(d).split("(")[0] in ("function", "def_function."
                                                 "function")]
      # quantizers are callables: __call__ reaches whatever the class's
      # helpers reach
      reaches = name in reads or (name == "__call__" and any(
          c in reads for c in names_called(node)))
      rep.check(not (traced and reaches), "R9",
                "%s::%s" % (m.relpath, name), "phase-read-inside-traced-"
                "function",
                "%s is compiled per input signature (%s) and reads the "
                "learning phase (directly or through %s): the stochastic / "
                "deterministic decision is frozen by the first call" % (
                    name, ", ".join(traced), sorted(
                        names_called(node) & reads)[:3]), loc=m.loc(node))
  # tf.function(f) applied to a phase-reading function by call
  for m in mods:
    for node in ast.walk(m.tree):
      if isinstance(node, ast.Call) and ast.unparse(node.func) in (
          "tf.function", "function") and node.args:
        tgt = ast.unparse(node.args[0]).split(".")[-1]
        rep.check(tgt not in reads, "R9", "%s::%s" % (m.relpath, tgt),
                  "phase-read-inside-traced-function",
                  "tf.function(%s) wraps a function that reads the learning "
                  "phase" % tgt, loc=m.loc(node))
  return n


def run(rep, repo, tier):
  mod = repo.module(quant.QMOD)
  rep.trusted.append("smart_cond(K.learning_phase(), a, b) evaluates a in "
                     "training and b otherwise (TensorFlow semantics)")
  rep.assumptions.append("the expectation over many draws itself is not "
                         "computed; R4 decides the orientation that makes it "
                         "unbiased")
  # zero-count rule: the positive example must fire
  synthetic = ("add", ("x",), ("rand", 1, ("c", F(0)), ("c", F(1))))
  if len(unguarded_rands(synthetic)) != 1 or unguarded_rands(
      ("phase", synthetic, ("x",))):
    raise AnalysisError("self-test of the phase-guard rule failed")
  rule_helpers(rep, repo, mod)
  n = 0
  for cls, kw in qref.lattice_all(tier, with_f=False):
    stochastic = kw.get("use_stochastic_rounding") or \
        cls.startswith("stochastic_")
    cfg = "%s(%s)" % (cls, qref.show_kwargs(kw))
    unit = "%s::%s.__call__" % (mod.relpath, cls)
    try:
      b = quant.build(repo, cls, kw)
    except ConfigRejected:
      continue
    rep.unit(unit)
    loc = b.pe.loc_of(b.term)
    n += 1
    # R1 for every configuration (stochastic or not)
    if cls != "bernoulli":
      ur = unguarded_rands(b.term)
      rep.check(not ur, "R1", unit, "random-draw-outside-training-arm",
                "%d random draw(s) are not guarded by the learning-phase "
                "switch (first at %s)" %
                (len(ur), b.pe.loc_of(ur[0]) if ur else None), loc=loc,
                instance=cfg)
    if not stochastic or cls == "bernoulli":
      # a deterministic configuration has no phase dependence at all
      if cls != "bernoulli":
        rep.check(not qref.has_phase(b.term), "R1", unit,
                  "phase-dependence-without-stochastic-option",
                  "the output depends on the learning phase although "
                  "stochastic rounding is off", loc=loc, instance=cfg)
      continue
    # R5 a configuration that asks for stochastic rounding draws in training
    ft5 = b.fwd("train")
    rep.check(qref.has_rand(b.term) or any(
        a[0] == "sym" and str(a[1]).startswith("RAISES")
        for a in ft5.atoms()), "R5", unit,
              "stochastic-option-without-random-draw",
              "stochastic rounding is requested but no random draw reaches "
              "the output in the training phase: the rounding is "
              "deterministic (round to nearest is biased for inputs between "
              "two codes)", loc=loc, instance=cfg)
    # R5 per half line: where the output varies with x, the training arm
    # must still contain a draw once everything that is constant on that
    # half line (relu / where / sign / comparisons with 0) is folded away
    raises5 = any(a[0] == "sym" and str(a[1]).startswith("RAISES")
                  for a in ft5.atoms())
    if qref.has_rand(b.term) and not raises5:
      fi5 = b.fwd("infer")
      for rname, env in (("x>0", Env(x=VS.real(F(0), None), xsign=1)),
                         ("x<0", Env(x=VS.real(None, F(0)), xsign=-1))):
        ev5 = Eval(env)

        def fold(g):
          for _ in range(4):
            mp = {}
            for a in g.atoms():
              if a[0] == "app" and a[1] in ("relu", "where", "sign", "abs",
                                            "cmp", "maximum", "minimum",
                                            "clip"):
                if a[1] == "abs":
                  continue
                try:
                  c = ev5.atom(a).const_value()
                except Exception:   # pylint: disable=broad-except
                  c = None
                if c is not None:
                  mp[a] = NF.const(c)
            if not mp:
              break
            g = g.subst(mp, simplify_app)
          return g
        try:
          gi, gt = fold(fi5), fold(ft5)
        except Exception:   # pylint: disable=broad-except
          continue
        varies = gi.depends_on(("x",)) if hasattr(gi, "depends_on") else True
        if not varies:
          continue
        draws = any(a[0] == "app" and a[1] == "rand" for a in gt.atoms())
        rep.check(draws, "R5", unit,
                  "stochastic-option-without-random-draw:" + rname,
                  "on %s the training output does not depend on any random "
                  "draw although stochastic rounding is requested and the "
                  "output varies with x there" % rname, loc=loc,
                  instance=cfg)
    # R2 inference arm == deterministic configuration
    dcls, dkw = det_config(cls, kw)
    try:
      d = quant.build(repo, dcls, dkw)
    except ConfigRejected as e:
      d = None
    fi = b.fwd("infer")
    if any(a[0] == "sym" and str(a[1]).startswith("RAISES")
           for a in fi.atoms()):
      continue    # the inference arm rejects this configuration itself
    if d is not None:
      fd = d.fwd("infer")
      rep.check(equal_mod_finite(fi, fd), "R2", unit,
                "inference-arm!=deterministic",
                "with the training phase off the forward value is %s, the "
                "deterministic configuration %s gives %s" %
                (show(fi, 240), dcls, show(fd, 240)), loc=loc, instance=cfg,
                facts={"config": cfg})
    # R6 the same at the level of IEEE arithmetic on constant tensors (an
    # all-zero channel, tiny and large values): the inference arm of the
    # stochastic configuration gives the deterministic configuration's value
    # and never NaN / inf where that one is finite (x/f*f is x in the reals
    # but 0/0 on a zero channel)
    if d is not None:
      from ..ieee import ConstEval, Inconclusive, finite
      for xv in (0.0, 1e-6, -1e-6, 0.25, -0.25, 3.0, -3.0):
        try:
          v_s = ConstEval(xv, "infer")(b.term)
          v_d = ConstEval(xv, "infer")(d.term)
        except Inconclusive:
          continue
        if not finite(v_d):
          continue
        rep.check(finite(v_s) and abs(v_s - v_d) <= 1e-9 * max(
            1.0, abs(v_d)), "R6", unit, "inference-value-on-constant-tensor",
                  "on the constant tensor x = %g the inference arm gives %r, "
                  "the deterministic configuration %s gives %r" % (
                      xv, v_s, dcls, v_d), loc=loc, instance=cfg,
                  observed="x=%g -> %r" % (xv, v_s))
    # R3 adjacent codes in training
    codes = c01_codes(cls, kw)
    if codes is not None:
      ft = b.fwd("train")
      if any(a[0] == "sym" and str(a[1]).startswith("RAISES")
             for a in ft.atoms()):
        continue
      got = value_set(ft)
      rep.check(got.subset_of(codes), "R3", unit,
                "training-codes:" + diagnose(got, codes),
                "in the training phase the output value set %r is not "
                "inside the declared code set %r: the stochastic rounding "
                "does not act on the code index with precision 1 "
                "(forward: %s)" % (got, codes, show(ft, 240)), loc=loc,
                instance=cfg, observed=repr(got),
                facts={"config": cfg, "got": repr(got),
                       "want": repr(codes)})
      if n % 97 == 1:
        rep.sample({"config": cfg, "train_value_set": repr(got),
                    "declared": repr(codes)})
  # R7: "with stochastic rounding enabled" is a statement about the object's
  # current options: switching use_stochastic_rounding on a live quantizer
  # gives the stochastic / deterministic quantizer (rule shared with C09 R8)
  from . import c09
  mod9 = repo.module(quant.QMOD)
  rep.extra["late_switches_checked"] = c09.rule_live_options(
      rep, repo, mod9, [c for c in qref.ALL_QUANTIZERS
                        if "use_stochastic_rounding" in c09.ALTS[c][1]],
      rule="R7", only=("use_stochastic_rounding",))
  rep.require_instances("R7", 12)
  # R8: the codes of stochastic_binary with a data-dependent scale are the
  # codes of its deterministic counterpart: the training output divided by
  # the scale of the inference arm (binary's least-squares scale) is a pure
  # +-1 code - the scale itself does not depend on the draw
  for alpha in ("auto", "auto_po2"):
    for shp in ((4, 6), (4, 3, 3, 5)):
      kw = dict(alpha=alpha)
      cfg = "stochastic_binary(alpha=%r)@shape%s" % (alpha, shp)
      unit = "%s::stochastic_binary.__call__" % mod.relpath
      try:
        b = quant.build(repo, "stochastic_binary", kw, x_shape=shp)
      except ConfigRejected:
        continue
      sc = b.obj.attrs.get("scale")
      if not isinstance(sc, Tensor):
        rep.fail("R8", unit, "no-scale-recorded", "%s: self.scale is %r" %
                 (cfg, sc), loc=b.pe.loc_of(b.term), instance=cfg)
        continue
      s_inf = Fwd("infer")(sc.term)
      q = Fwd("train")(b.term) * s_inf.inverse()
      got = value_set(q)
      rands = [a for a in Fwd("train")(sc.term).atoms()
               if a[0] == "app" and a[1] == "rand"]
      rep.check(got.subset_of(VS.fin([-1, 1])) and not rands, "R8", unit,
                "training-codes-not-the-deterministic-codes",
                "%s: training output / scale of the deterministic "
                "counterpart has the value set %r (expected {-1, 1}); "
                "random draws inside the training scale: %d" %
                (cfg, got, len(rands)), loc=b.pe.loc_of(b.term),
                instance=cfg)
  rep.require_instances("R8", 4)
  if rule_phase_read_at_call_time(rep, repo, mod) < 100:
    raise AnalysisError("instance-count functions of the quantizer modules")
  rep.extra["configuration_points"] = n
  rep.require_instances("R1", 1000)
  rep.require_instances("R2", 300)
  rep.require_instances("R3", 200)
  rep.require_instances("R4", 3)
