"""One module per property: rules/cNN.py exposing run(rep, repo, tier)."""
