"""C14 - exported quantized weights.

model_save_quantized_weights and add_bn_fusing_weights are partially
evaluated on synthetic layers whose weights are symbols and whose quantizers
are opaque functions Q_i (plus the attributes the export reads), so that the
exported dictionary and the list handed to set_weights are normal forms in
those symbols.

R1 parallel lists stay aligned: whenever "signs" / "scales" are exported they
   have one entry per weight, so index i describes weight i.
R2 quantize once, write back: set_weights receives [Q_i(w_i)] (w_i where no
   quantizer is configured), in weight order; folded layers are the only
   exception.
R3 pairing by position: for every layer class with get_quantizers, the role
   sequence of the returned list (after the slicing the export applies)
   matches the Keras weight order of the class, optional weights only last.
R4 power-of-two arm: sign = signfix(sign(q)), hw = round(log2|q|).
R5 auto_po2 arm identity: exported scale x exported integer weight == the
   stored (quantized) weight, by normal form.
R6 batch-norm fusing algebra: inv == gamma*rsqrt(var+eps) (then the inverse
   quantizer), fused_bias == inv*bias + beta - inv*mean, for every
   scale/center/use_bias combination.
"""
import ast
import itertools
from fractions import Fraction as F

from ..loader import AnalysisError
from ..pe import PE, Mock, PyRaise, Tensor, Fork, Func, ClassRef, Unsupported
from ..qir import Fwd, mk_app, equal_mod_finite
from ..nf import NF, show

TECHNIQUE = ("Partial evaluation of the export on synthetic layers with "
             "symbolic weights and opaque quantizers; list-shape and "
             "normal-form comparison of the exported dictionary; class-model "
             "comparison of quantizer order with the Keras weight order.")

UM = "qkeras.utils"


def S(n):
  return Tensor(("sym", n), (4,))


def qmock(tag, cls="quantized_bits", **attrs):
  """Opaque quantizer: Q(w) = app Q_tag(w)."""
  a = {"__class__": Mock("class", {"__name__": cls}),
       "__call__": lambda pe, args, k, tag=tag: Tensor(
           ("app", "Q_" + tag, (), (pe.as_term(args[0]),)), (4,)),
       "alpha": None, "bits": 8, "keep_negative": True, "integer": 0,
       "scale": None}
  a.update(attrs)
  return Mock("quantizer_" + tag, a)


# repository classes whose constructor (own or inherited within the
# repository) assigns `self.quantizers`: their stand-ins carry the attribute
# too, the others are reachable through get_quantizers() only
_SETS_QUANTIZERS_ATTR = {}


def _note_quantizer_attributes(repo):
  _SETS_QUANTIZERS_ATTR.clear()
  for ci in repo.classes.values():
    sets = False
    for c in ci.mro():
      for fn in c.methods.values():
        for n in ast.walk(fn):
          if isinstance(n, ast.Attribute) and n.attr == "quantizers" and \
              isinstance(n.ctx, ast.Store) and isinstance(
                  n.value, ast.Name) and n.value.id == "self":
            sets = True
    _SETS_QUANTIZERS_ATTR[ci.name] = sets


def layer_mock(name, classes, quantizers, weights, record, **attrs):
  a = {"name": name, "__classes__": set(classes),
       "__class__": Mock("class", {"__name__": classes[0]}),
       "get_quantizers": lambda pe, ar, k: list(quantizers),
       "get_weights": lambda pe, ar, k: list(weights),
       "get_folded_weights": lambda pe, ar, k: list(weights),
       "set_weights": lambda pe, ar, k: record.setdefault(name, []).append(
           list(ar[0])),
       "use_bias": True}
  if _SETS_QUANTIZERS_ATTR.get(classes[0], True):
    a["quantizers"] = list(quantizers)
  a.update(attrs)
  return Mock(name, a)


def run_export(repo, layers, fusing=None):
  um = repo.module(UM)
  model = Mock("model", {
      "layers": layers,
      "get_layer": lambda pe, a, k: [l for l in layers
                                     if l.attrs["name"] == a[0]][0]})
  fus = fusing or ({}, set())
  pe = PE(repo, module_overrides={UM: {
      "find_bn_fusing_layer_pair": lambda pe, a, k: fus}})
  pe.fork = Fork([])
  out = pe.call(pe.lookup_global("model_save_quantized_weights", um),
                [model], {})
  return out


def nf_of(v, fw):
  if isinstance(v, Tensor):
    return fw(v.term)
  if isinstance(v, (int, F, float)):
    return NF.const(F(v))
  return v


def rule_export(rep, repo):
  um = repo.module(UM)
  fn = um.functions.get("model_save_quantized_weights")
  if fn is None:
    raise AnalysisError("anchor-missing model_save_quantized_weights")
  unit = "%s::model_save_quantized_weights" % um.relpath
  rep.unit(unit)
  loc = um.loc(fn)
  fw = Fwd()
  record = {}
  scale_sym = Tensor(("sym", "qscale"), (4,))
  mixed = layer_mock(
      "mixed", ["QDense"],
      [qmock("po2", "quantized_po2"),
       qmock("auto", "quantized_bits", alpha="auto_po2", bits=4,
             keep_negative=True, integer=1, scale=scale_sym),
       qmock("fix", "quantized_bits"), None],
      [S("w0"), S("w1"), S("w2"), S("w3")], record)
  plain = layer_mock("plain", ["QConv2D"], [qmock("k"), None],
                     [S("k"), S("b")], record)
  folded = layer_mock("folded", ["QConv2DBatchnorm"], [qmock("fk"),
                                                       qmock("fb")],
                      [S("fk"), S("fb")], record)
  unq = Mock("keras", {"name": "keras",
                       "get_weights": lambda pe, a, k: [S("x")],
                       "__class__": Mock("class", {"__name__": "Dense"})})
  try:
    out = run_export(repo, [mixed, plain, folded, unq])
  except PyRaise as e:
    rep.fail("R2", unit, "export-raises", "the export raises %s on the "
             "synthetic model" % e, loc=loc)
    return
  if not isinstance(out, dict) or "mixed" not in out:
    raise AnalysisError("unsupported-construct the export did not return "
                        "the weights dictionary")
  ent = out["mixed"]
  nw = 4
  hw = ent.get("weights", [])
  rep.check(len(hw) == nw, "R1", unit, "weights-list-length",
            "exported 'weights' has %d entries for %d weights" % (len(hw),
                                                                  nw),
            loc=loc)
  for key in ("signs", "scales"):
    if key in ent:
      rep.check(len(ent[key]) == nw, "R1", unit, key + "-list-misaligned",
                "exported %r has %d entries for %d weights: entry i no "
                "longer describes weight i" % (key, len(ent[key]), nw),
                loc=loc, facts={"entries": len(ent[key])})
    else:
      rep.fail("R1", unit, key + "-not-exported",
               "%r is missing although a %s weight is present" %
               (key, "power-of-two" if key == "signs" else "auto_po2"),
               loc=loc)
  # R2 write back
  def Q(tag, w):
    return mk_app("Q_" + tag, [NF.sym(w)])
  want_mixed = [Q("po2", "w0"), Q("auto", "w1"), Q("fix", "w2"),
                NF.sym("w3")]
  got = record.get("mixed", [])
  ok = len(got) == 1 and len(got[0]) == nw and all(
      nf_of(g, fw) == w for g, w in zip(got[0], want_mixed))
  rep.check(ok, "R2", unit, "set_weights!=quantizer(weight)",
            "set_weights receives %s, expected each quantizer applied once "
            "to its weight: %s" %
            ([show(nf_of(g, fw)) for g in (got[0] if got else [])],
             [show(w) for w in want_mixed]), loc=loc)
  gotp = record.get("plain", [])
  rep.check(len(gotp) == 1 and [nf_of(g, fw) for g in gotp[0]] ==
            [Q("k", "k"), NF.sym("b")], "R2", unit,
            "set_weights!=quantizer(weight):plain",
            "QConv2D-like layer: set_weights receives %s" %
            [show(nf_of(g, fw)) for g in (gotp[0] if gotp else [])], loc=loc)
  rep.check("folded" not in record, "R2", unit, "folded-layer-overwritten",
            "a folded conv+batchnorm layer must not get its weights "
            "overwritten with folded weights", loc=loc)
  rep.check("keras" not in out, "R2", unit, "unquantized-layer-exported",
            "a layer without get_quantizers is in the exported dictionary",
            loc=loc)
  # R4 po2 arm
  q0 = Q("po2", "w0")
  sgn = mk_app("sign", [q0])
  want_sign = sgn + 1 - mk_app("abs", [sgn])
  want_hw = mk_app("round", [mk_app("log2", [mk_app("abs", [q0])])])
  if len(hw) == nw:
    rep.check(nf_of(hw[0], fw) == want_hw, "R4", unit, "po2-exponent-form",
              "power-of-two weights are exported as %s, expected "
              "round(log2|q|) = %s" % (show(nf_of(hw[0], fw)),
                                       show(want_hw)), loc=loc)
    rep.check(nf_of(hw[2], fw) == Q("fix", "w2") and
              nf_of(hw[3], fw) == NF.sym("w3"), "R4", unit,
              "fixed-point-weight-form",
              "fixed-point / unquantized weights must be exported as "
              "stored: %s, %s" % (show(nf_of(hw[2], fw)),
                                  show(nf_of(hw[3], fw))), loc=loc)
  if ent.get("signs"):
    rep.check(nf_of(ent["signs"][0], fw) == want_sign, "R4", unit,
              "po2-sign-form",
              "the exported sign is %s, expected sign(q) with 0 mapped to "
              "+1" % show(nf_of(ent["signs"][0], fw)), loc=loc)
  # R5 auto_po2 identity
  if len(hw) == nw and ent.get("scales"):
    sc = None
    for cand in ent["scales"]:
      if isinstance(cand, Tensor):
        sc = cand
    if sc is None:
      rep.fail("R5", unit, "auto_po2-scale-not-exported",
               "no scale tensor was exported for the auto_po2 weight",
               loc=loc)
    else:
      prod = nf_of(sc, fw) * nf_of(hw[1], fw)
      stored = Q("auto", "w1")
      rep.check(prod == stored, "R5", unit, "auto_po2:scale*integer!=weight",
                "exported scale * exported integer weight = %s, the stored "
                "weight is %s" % (show(prod), show(stored)), loc=loc,
                facts={"scale": show(nf_of(sc, fw)),
                       "hw_weight": show(nf_of(hw[1], fw))})
  rep.sample({"exported_mixed_layer": {
      "weights": [show(nf_of(h, fw), 80) for h in hw],
      "signs": len(ent.get("signs", [])), "scales": len(ent.get("scales",
                                                                []))}})


def rule_export_per_layer(rep, repo):
  """R12: a layer's entry in the exported dictionary describes that layer
  only: exported in a model behind layers of other quantizer kinds (po2,
  auto_po2, plain) - in every order - the entry has the same keys and values
  as when the layer is exported alone."""
  um = repo.module(UM)
  fn = um.functions["model_save_quantized_weights"]
  unit = "%s::model_save_quantized_weights" % um.relpath
  loc = um.loc(fn)
  fw = Fwd()

  def build():
    record = {}
    return [
        layer_mock("Lpo2", ["QDense"], [qmock("p", "quantized_po2"), None],
                   [S("p0"), S("p1")], record),
        layer_mock("Lauto", ["QConv2D"], [
            qmock("a", "quantized_bits", alpha="auto_po2", bits=4,
                  keep_negative=True, integer=1,
                  scale=Tensor(("sym", "ascale"), (4,))),
            qmock("ab", "quantized_bits")], [S("a0"), S("a1")], record),
        layer_mock("Lfix", ["QDense"], [qmock("f", "quantized_bits"),
                                        qmock("fb", "quantized_bits")],
                   [S("f0"), S("f1")], record),
        layer_mock("Lbin", ["QDense"], [qmock("b", "binary"), None],
                   [S("b0"), S("b1")], record)]

  def norm(ent):
    out = {}
    for k, v in (ent or {}).items():
      if isinstance(v, list):
        out[k] = [show(fw(e.term)) if isinstance(e, Tensor) else (
            list(e) if isinstance(e, list) else e) for e in v]
      else:
        out[k] = show(fw(v.term)) if isinstance(v, Tensor) else v
    return out
  alone = {}
  try:
    for i in range(4):
      lyr = build()[i]
      alone[lyr.attrs["name"]] = norm(run_export(repo, [lyr]).get(
          lyr.attrs["name"]))
    import itertools as _it
    orders = [(0, 1, 2, 3), (3, 2, 1, 0), (1, 3, 0, 2), (2, 0, 3, 1)]
    for order in orders:
      layers = build()
      seq = [layers[i] for i in order]
      out = run_export(repo, seq)
      for lyr in seq:
        name = lyr.attrs["name"]
        got = norm(out.get(name))
        cfg = "%s in model %s" % (name, "/".join(l.attrs["name"]
                                                 for l in seq))
        rep.check(got == alone[name], "R12", unit,
                  "entry-depends-on-other-layers",
                  "%s: entry keys %s / alone %s; differing keys: %s" % (
                      cfg, sorted(got), sorted(alone[name]),
                      sorted(k for k in set(got) | set(alone[name])
                             if got.get(k) != alone[name].get(k))), loc=loc,
                  instance=cfg)
  except PyRaise as e:
    rep.fail("R12", unit, "export-raises", "the export raises %s" % e,
             loc=loc)
  # one quantizer OBJECT serving two weights of a layer: its recorded scale
  # is per-call state, so the scale exported for weight i must be the one
  # recorded when weight i was quantized
  def stateful(tag):
    m = qmock(tag, "quantized_bits", alpha="auto_po2", bits=4,
              keep_negative=True, integer=0, scale=None)

    def call(pe, a, k, m=m):
      w = pe.as_term(a[0])
      name = w[1] if w[0] == "sym" else "w"
      m.attrs["scale"] = Tensor(("sym", "scale_of_" + name), (4,))
      return Tensor(("app", "Q_" + tag, (), (w,)), (4,))
    m.attrs["__call__"] = call
    return m
  try:
    shared = stateful("sh")
    record = {}
    lyr = layer_mock("Lshared", ["QDense"], [shared, shared],
                     [S("k0"), S("k1")], record)
    ent = run_export(repo, [lyr]).get("Lshared", {})
    scales = ent.get("scales") or []
    got = [show(fw(e.term)) if isinstance(e, Tensor) else e for e in scales]
    deps = [sorted(a[1] for a in fw(e.term).atoms() if a[0] == "sym" and
                   str(a[1]).startswith("scale_of_"))
            if isinstance(e, Tensor) else None for e in scales]
    rep.check(deps == [["scale_of_k0"], ["scale_of_k1"]], "R12", unit,
              "scale-read-after-a-later-call",
              "a layer whose two weights share one auto_po2 quantizer object "
              "is exported with scales %r; each weight's scale is the one "
              "recorded by the call that quantized it: ['scale_of_k0', "
              "'scale_of_k1']" % (got,), loc=loc, observed=str(got))
  except PyRaise as e:
    rep.fail("R12", unit, "export-raises", "the export raises %s on a layer "
             "with a shared quantizer object" % e, loc=loc)


def rule_po2_export_values(rep, repo, tier):
  """R4 (values): for real power-of-two quantizer configurations - including
  quadratic_approximation, max_value and leaky slopes - the exported (sign,
  exponent) pair is evaluated for every value the quantizer can store (its
  abstract output value set is finite): sign * 2**exponent must be that
  value.  The stand-in quantizer carries every attribute of the real object
  (so attribute tests in the export behave as they do at run time) and an
  uninterpreted __call__; the stored weight is then enumerated."""
  from .. import quant
  from ..qir import value_set, simplify_app
  from ..pe import ConfigRejected
  um = repo.module(UM)
  fn = um.functions["model_save_quantized_weights"]
  unit = "%s::model_save_quantized_weights" % um.relpath
  loc = um.loc(fn)
  fw = Fwd()
  cfgs = [("quantized_po2", dict(bits=4)),
          ("quantized_po2", dict(bits=4, max_value=2)),
          ("quantized_po2", dict(bits=4, quadratic_approximation=True)),
          ("quantized_po2", dict(bits=3, max_value=1)),
          ("quantized_relu_po2", dict(bits=3)),
          ("quantized_relu_po2", dict(bits=3, quadratic_approximation=True)),
          ("quantized_relu_po2", dict(bits=4, max_value=2)),
          ("quantized_po2", dict(bits=4, max_value=3)),
          ("quantized_relu_po2", dict(bits=4, max_value=6))]
  if tier == "thorough":
    cfgs += [("quantized_po2", dict(bits=b, quadratic_approximation=qa,
                                    max_value=mv))
             for b in (2, 5, 6) for qa in (False, True)
             for mv in (None, F(1, 2), 8)]
  n = 0
  for cls, kw in cfgs:
    cfg = "%s(%s)" % (cls, ",".join("%s=%s" % kv for kv in kw.items()))
    try:
      b = quant.build(repo, cls, kw)
    except ConfigRejected:
      continue
    vs = value_set(b.fwd("infer"))
    if vs.kind != "po2":
      # the export describes such a weight by (sign, round(log2|w|)): a
      # stored value that is not a power of two cannot be rebuilt from it
      n += 1
      rep.fail("R4", unit, "po2-quantizer-stores-non-power-of-two",
               "%s: the value set of the quantizer is %r; the exported "
               "sign / exponent pair only describes powers of two" %
               (cfg, vs), loc=loc, instance=cfg)
      continue
    if vs.exps.kind != "fin" and None in vs.exps.bounds():
      continue
    elo, ehi = vs.exps.bounds()
    exps = [e for e in range(int(elo), int(ehi) + 1)
            if vs.exps.contains_value(F(e))]
    attrs = {k: v for k, v in b.obj.attrs.items()
             if not isinstance(v, Tensor)}
    q = qmock("po2", cls, **attrs)
    record = {}
    lyr = layer_mock("po2layer", ["QDense"], [q, None],
                     [S("w0"), S("w1")], record)
    try:
      out = run_export(repo, [lyr])
    except PyRaise as e:
      rep.fail("R4", unit, "po2-export-raises", "%s: the export raises %s" %
               (cfg, e), loc=loc, instance=cfg)
      continue
    ent = out.get("po2layer", {})
    hw, sg = ent.get("weights", [None])[0], (ent.get("signs") or [None])[0]
    if sg is None and vs.signs == frozenset([1]):
      # the unsigned variant exports no sign: every weight is positive
      sg = Tensor(("c", F(1)), ())
    if not isinstance(hw, Tensor) or not isinstance(sg, Tensor):
      rep.fail("R4", unit, "po2-not-exported-as-sign-exponent",
               "%s: exported weights/signs are %r / %r" % (cfg, hw, sg),
               loc=loc, instance=cfg)
      continue
    hw_nf, sg_nf = fw(hw.term), fw(sg.term)
    qatoms = [a for a in set(hw_nf.atoms()) | set(sg_nf.atoms())
              if a[0] == "app" and a[1] == "Q_po2"]
    if len(set(qatoms)) != 1:
      raise AnalysisError("unsupported-construct exported po2 weight does "
                          "not depend on exactly one stored weight")
    atom = qatoms[0]
    n += 1
    bad = []
    for s_ in sorted(vs.signs):
      for e in exps:
        v = F(s_) * F(2) ** e
        try:
          he = hw_nf.subst({atom: NF.const(v)}, simplify_app).const_value()
          se = sg_nf.subst({atom: NF.const(v)}, simplify_app).const_value()
        except ZeroDivisionError:
          he = se = None
        if he is None or se is None or se * F(2) ** int(he) != v or \
            he.denominator != 1:
          bad.append("%s -> sign %s exponent %s" % (v, se, he))
    rep.check(not bad, "R4", unit, "po2-sign*2^exponent!=stored-weight",
              "%s: for stored weights %s the exported pair does not rebuild "
              "the weight" % (cfg, bad[:6]), loc=loc, instance=cfg)
  if n < 6:
    raise AnalysisError("instance-count only %d po2 export configurations"
                        % n)


def rule_bn_fusing(rep, repo):
  um = repo.module(UM)
  fn = um.functions.get("add_bn_fusing_weights")
  if fn is None:
    raise AnalysisError("anchor-missing add_bn_fusing_weights")
  unit = "%s::add_bn_fusing_weights" % um.relpath
  rep.unit(unit)
  loc = um.loc(fn)
  fw = Fwd()
  g, b, m, v, eps, pb = (NF.sym(n) for n in ("gamma", "beta", "mean", "var",
                                             "eps", "pbias"))
  for scale in (True, False):
    for center in (True, False):
      for use_bias in (True, False):
        for invq in (False, True):
          ws = []
          if scale:
            ws.append(S("gamma"))
          if center:
            ws.append(S("beta"))
          ws += [S("mean"), S("var")]
          iq = qmock("inv") if invq else None
          bn = Mock("bn", {
              "name": "bn", "scale": scale, "center": center,
              "epsilon": Tensor(("sym", "eps"), ()),
              "quantizers": [None, None, None, None, iq],
              "get_weights": lambda pe, a, k, ws=ws: list(ws),
              "gamma_quantizer_internal": None,
              "beta_quantizer_internal": None,
              "mean_quantizer_internal": None,
              "variance_quantizer_internal": None,
              "inverse_quantizer_internal": iq})
          prev = Mock("prev", {
              "name": "prev", "use_bias": use_bias,
              "get_weights": lambda pe, a, k: [S("kernel"), S("pbias")]})
          saved = {"prev": {}}
          pe = PE(repo)
          pe.fork = Fork([])
          cfg = "scale=%s,center=%s,use_bias=%s,inverse_quantizer=%s" % (
              scale, center, use_bias, invq)
          try:
            pe.call(pe.lookup_global("add_bn_fusing_weights", um),
                    [prev, bn, saved], {})
          except PyRaise as e:
            rep.fail("R6", unit, "raises", "raises %s for %s" % (e, cfg),
                     loc=loc, instance=cfg)
            continue
          inv = nf_of(saved["prev"].get("bn_inv"), fw)
          fb = nf_of(saved["prev"].get("fused_bias"), fw)
          gg = g if scale else NF.const(1)
          want_inv = gg * mk_app("rsqrt", [v + eps])
          if invq:
            want_inv = mk_app("Q_inv", [want_inv])
          bb = b if center else NF.const(0)
          want_fb = want_inv * (pb if use_bias else NF.const(0)) + bb - \
              want_inv * m
          rep.check(inv == want_inv, "R6", unit, "bn_inv-formula",
                    "%s: bn_inv = %s, expected %s" % (cfg, show(inv),
                                                      show(want_inv)),
                    loc=loc, instance=cfg)
          rep.check(fb == want_fb, "R6", unit, "fused_bias-formula",
                    "%s: fused_bias = %s, expected %s" %
                    (cfg, show(fb), show(want_fb)), loc=loc, instance=cfg)
          rep.check(saved["prev"].get("enable_bn_fusing") is True and
                    saved["prev"].get("fused_bn_layer_name") == "bn", "R6",
                    unit, "fusing-marks", "%s: fusing marks are %r" %
                    (cfg, {k: saved["prev"].get(k) for k in (
                        "enable_bn_fusing", "fused_bn_layer_name")}),
                    loc=loc, instance=cfg)


def rule_fused_export(rep, repo):
  """R13: the fused terms inside the export.  model_save_quantized_weights is
  interpreted on a convolution (kernel and bias quantizers, float weights)
  followed by a fusable batch normalisation, with STATEFUL layer stand-ins
  (get_weights returns what set_weights stored last): the exported
  fused_bias is the batch-norm algebra on the QUANTIZED bias - the weights
  the layer holds after the export and the dictionary describes - for a
  first export and for a second one."""
  um = repo.module(UM)
  fn = um.functions.get("model_save_quantized_weights")
  unit = "%s::model_save_quantized_weights" % um.relpath
  loc = um.loc(fn)
  fw = Fwd()
  g, b, m, v, eps = (NF.sym(n) for n in ("gamma", "beta", "mean", "var",
                                         "eps"))
  for cls, use_bias in (("QConv2D", True), ("QDepthwiseConv2D", True),
                        ("QConv2D", False)):
    store = {"conv": [S("kernel")] + ([S("pbias")] if use_bias else [])}
    qs = [qmock("k"), qmock("b")] if use_bias else [qmock("k")]
    conv = Mock("conv", {
        "name": "conv", "__classes__": {cls},
        "__class__": Mock("class", {"__name__": cls}),
        "get_quantizers": lambda pe, a, k, qs=qs: list(qs),
        "quantizers": list(qs),     # (both classes assign self.quantizers)
        "get_weights": lambda pe, a, k: list(store["conv"]),
        "set_weights": lambda pe, a, k: store.__setitem__("conv",
                                                          list(a[0])),
        "use_bias": use_bias})
    bn = Mock("bn", {
        "name": "bn", "__classes__": {"QBatchNormalization"},
        "__class__": Mock("class", {"__name__": "QBatchNormalization"}),
        "scale": True, "center": True, "epsilon": Tensor(("sym", "eps"), ()),
        "quantizers": [None, None, None, None, None],
        "get_quantizers": lambda pe, a, k: [None, None, None, None],
        "get_weights": lambda pe, a, k: [S("gamma"), S("beta"), S("mean"),
                                         S("var")],
        "set_weights": lambda pe, a, k: None,
        "gamma_quantizer_internal": None, "beta_quantizer_internal": None,
        "mean_quantizer_internal": None, "variance_quantizer_internal": None,
        "inverse_quantizer_internal": None})
    cfg = "%s(use_bias=%s) followed by a fusable QBatchNormalization" % (
        cls, use_bias)
    inv = g * mk_app("rsqrt", [v + eps])
    qb = mk_app("Q_b", [NF.sym("pbias")]) if use_bias else NF.const(0)
    for nth in ("first", "second"):
      try:
        out = run_export(repo, [conv, bn], fusing=({"conv": "bn"}, {"bn"}))
      except PyRaise as e:
        rep.fail("R13", unit, "export-raises", "%s: raises %s" % (cfg, e),
                 loc=loc, instance=cfg)
        break
      ent = out.get("conv", {}) if isinstance(out, dict) else {}
      fb = nf_of(ent.get("fused_bias"), fw)
      if nth == "second" and use_bias:
        # the stored bias is Q_b(pbias); a second export quantizes it again
        qb = mk_app("Q_b", [mk_app("Q_b", [NF.sym("pbias")])])
      want = inv * qb + b - inv * m
      rep.check(fb == want, "R13", unit, "fused_bias-not-on-exported-bias",
                "%s, %s export: fused_bias = %s; the batch-norm algebra on "
                "the bias the layer holds after the export is %s" % (
                    cfg, nth, show(fb) if fb is not None else None,
                    show(want)), loc=loc, instance="%s/%s export" % (cfg,
                                                                    nth),
                observed=show(fb) if fb is not None else "None")
      rep.check(nf_of(ent.get("bn_inv"), fw) == inv, "R13", unit,
                "bn_inv-in-export",
                "%s, %s export: bn_inv = %r" % (cfg, nth, ent.get("bn_inv")),
                loc=loc, instance="%s/%s export" % (cfg, nth))


ALIAS_PRESERVING_CALLS = ("cast_to_floatx", "asarray", "asanyarray",
                          "convert_to_tensor", "numpy", "squeeze", "reshape",
                          "ravel", "view", "identity")
IN_PLACE_METHODS = ("assign", "assign_add", "assign_sub", "fill", "sort",
                    "itemset", "put", "resize", "partition")


def rule_export_effects(rep, repo):
  """R14 (effect analysis on the syntax tree): the export reads quantizer
  and layer state, it does not write it.  In model_save_quantized_weights
  and add_bn_fusing_weights every local that MAY alias an attribute of a
  quantizer / layer object (bound from `obj.attr`, a conditional expression
  with such a branch, or a call that can return its argument unchanged:
  cast_to_floatx, asarray, .numpy(), reshape, ...) must not be the target of
  an in-place operation (augmented assignment, element / slice store,
  `out=`, assign / fill / sort ...).  An in-place update of such a local
  rewrites the live quantizer's recorded scale, which later calls read."""
  um = repo.module(UM)
  for fname in ("model_save_quantized_weights", "add_bn_fusing_weights"):
    fn = um.functions.get(fname)
    if fn is None:
      raise AnalysisError("anchor-missing utils.%s" % fname)
    unit = "%s::%s" % (um.relpath, fname)
    rep.unit(unit)
    # names holding objects whose attributes are live state
    holders = {"quantizer", "layer", "prev_layer", "bn_layer", "model"}
    for n in ast.walk(fn):
      if isinstance(n, (ast.For, ast.comprehension)):
        tgts = [t.id for t in ast.walk(n.target) if isinstance(t, ast.Name)]
        src = ast.unparse(n.iter)
        if any(h in src for h in ("get_quantizers", "layers", "quantizers")):
          holders.update(tgts)

    def may_alias(expr, aliases):
      if isinstance(expr, ast.Attribute):
        base = expr.value
        if isinstance(base, ast.Name) and base.id in holders:
          return True
        return may_alias(base, aliases)
      if isinstance(expr, ast.Name):
        return expr.id in aliases
      if isinstance(expr, ast.IfExp):
        return may_alias(expr.body, aliases) or may_alias(expr.orelse,
                                                          aliases)
      if isinstance(expr, ast.Subscript):
        return may_alias(expr.value, aliases)     # a view of an alias
      if isinstance(expr, ast.Call):
        f_ = expr.func
        nm = f_.attr if isinstance(f_, ast.Attribute) else getattr(
            f_, "id", "")
        if nm in ALIAS_PRESERVING_CALLS:
          if isinstance(f_, ast.Attribute) and may_alias(f_.value, aliases):
            return True                # x.numpy(), x.reshape(...)
          return any(may_alias(a, aliases) for a in expr.args)
      return False
    aliases = set()
    changed = True
    while changed:            # flow-insensitive closure
      changed = False
      for n in ast.walk(fn):
        if isinstance(n, ast.Assign) and may_alias(n.value, aliases):
          for t in n.targets:
            if isinstance(t, ast.Name) and t.id not in aliases:
              aliases.add(t.id)
              changed = True
    # statement lists, to find the binding that reaches an in-place update
    # on straight-line code: a fresh value (copy, arithmetic result) bound
    # just before it in the same block is not state
    blocks = [b for n_ in ast.walk(fn) for b in (
        getattr(n_, "body", None), getattr(n_, "orelse", None),
        getattr(n_, "finalbody", None)) if isinstance(b, list)]

    def freshly_bound(stmt, name):
      for b in blocks:
        if stmt in b:
          for prev in reversed(b[:b.index(stmt)]):
            if isinstance(prev, ast.Assign) and any(
                isinstance(t_, ast.Name) and t_.id == name
                for t_ in prev.targets):
              return not may_alias(prev.value, aliases)
            if any(isinstance(x, (ast.Name)) and x.id == name and
                   isinstance(x.ctx, ast.Store) for x in ast.walk(prev)):
              return False      # bound inside a nested statement: unknown
      return False
    writes = []
    for n in ast.walk(fn):
      if isinstance(n, ast.AugAssign):
        t = n.target
        root = t
        while isinstance(root, (ast.Subscript, ast.Attribute)):
          root = root.value
        if isinstance(root, ast.Name) and (
            root.id in aliases or (root.id in holders and
                                   isinstance(t, ast.Attribute))) and \
            not freshly_bound(n, root.id):
          writes.append((n, "augmented assignment to " + ast.unparse(t)))
      elif isinstance(n, ast.Assign):
        for t in n.targets:
          if isinstance(t, ast.Subscript) and may_alias(t.value, aliases) \
              and not (isinstance(t.value, ast.Name) and
                       t.value.id == "saved_weights"):
            writes.append((n, "element store into " + ast.unparse(t)))
          if isinstance(t, ast.Attribute) and isinstance(
              t.value, ast.Name) and t.value.id in holders - {"model"}:
            writes.append((n, "attribute store " + ast.unparse(t)))
      elif isinstance(n, ast.Call):
        f_ = n.func
        if isinstance(f_, ast.Attribute) and f_.attr in IN_PLACE_METHODS \
            and may_alias(f_.value, aliases):
          writes.append((n, "in-place call " + ast.unparse(f_)))
        for kw_ in n.keywords:
          if kw_.arg == "out" and may_alias(kw_.value, aliases):
            writes.append((n, "out= " + ast.unparse(kw_.value)))
    rep.check(not writes, "R14", unit, "writes-quantizer-or-layer-state",
              "%s updates in place a value that may be a quantizer's / "
              "layer's own state: %s (locals that may alias such state: %s)"
              % (fname, [w for _, w in writes], sorted(aliases)),
              loc=um.loc(writes[0][0]) if writes else um.loc(fn),
              observed=str([w for _, w in writes]))
    rep.extra.setdefault("export_locals_that_may_alias_state", {})[
        fname] = sorted(aliases)


# Keras weight order of the parent classes (trusted table, DESIGN 2.6)
WEIGHT_ORDER = {
    "Dense": ["kernel", "bias?"],
    "Conv1D": ["kernel", "bias?"], "Conv2D": ["kernel", "bias?"],
    "Conv2DTranspose": ["kernel", "bias?"],
    "DepthwiseConv2D": ["depthwise", "bias?"],
    "SeparableConv1D": ["depthwise", "pointwise", "bias?"],
    "SeparableConv2D": ["depthwise", "pointwise", "bias?"],
    "SimpleRNNCell": ["kernel", "recurrent", "bias?"],
    "LSTMCell": ["kernel", "recurrent", "bias?"],
    "GRUCell": ["kernel", "recurrent", "bias?"],
    "BatchNormalization": ["gamma?", "beta?", "mean", "variance"],
}
ROLE_ALIASES = {"depthwise_kernel": "depthwise",
                "pointwise_kernel": "pointwise"}


def quantizer_roles(ci):
  """Role sequence of the self.quantizers list literal of the class."""
  for c in ci.mro():
    fn = c.methods.get("__init__")
    if fn is None:
      continue
    for n in ast.walk(fn):
      if isinstance(n, ast.Assign) and any(
          isinstance(t, ast.Attribute) and t.attr == "quantizers"
          for t in n.targets) and isinstance(n.value, ast.List):
        roles = []
        for e in n.value.elts:
          if isinstance(e, ast.Attribute):
            r = e.attr.replace("_quantizer_internal", "")
            roles.append(ROLE_ALIASES.get(r, r))
          else:
            roles.append("?")
        return roles, c.module.loc(n)
  return None, None


def rule_pairing(rep, repo):
  um = repo.module(UM)
  fn = um.functions["model_save_quantized_weights"]
  # classes whose quantizer list is sliced [:-1] by the export
  sliced = set()
  for n in ast.walk(fn):
    if isinstance(n, ast.If):
      body_src = " ".join(ast.unparse(s) for s in n.body)
      if any(isinstance(x, ast.Subscript) and isinstance(
          x.slice, ast.Slice) and x.slice.lower is None and isinstance(
              x.slice.upper, ast.UnaryOp) and isinstance(
                  x.slice.upper.op, ast.USub) and isinstance(
                      x.slice.upper.operand, ast.Constant) and
             x.slice.upper.operand.value == 1
             for s_ in n.body for x in ast.walk(s_)):
        for x in ast.walk(n.test):
          if isinstance(x, ast.List):
            sliced |= {e.id for e in x.elts if isinstance(e, ast.Name)}
  rep.extra["classes_sliced_by_export"] = sorted(sliced)
  n_checked = 0
  for ci in sorted(repo.classes.values(), key=lambda c: c.qualname):
    if not ci.module.name.startswith("qkeras.q") or \
        ci.module.name.startswith("qkeras.qtools"):
      continue
    if ci.find_method("get_quantizers")[1] is None:
      continue
    if ci.name.endswith("Cell") or ci.name in ("QActivation",
                                               "QAdaptiveActivation"):
      continue
    unit = "%s::%s" % (ci.module.relpath, ci.name)
    parent = None
    cell = None
    for b in ci.external_bases():
      last = b.split(".")[-1]
      if last in WEIGHT_ORDER:
        parent = last
    if ci.name in ("QSimpleRNN", "QLSTM", "QGRU"):
      cell = repo.classes.get(ci.module.name + "." + ci.name + "Cell")
      if cell is None:
        continue
      roles, loc = quantizer_roles(cell)
      parent = {"QSimpleRNN": "SimpleRNNCell", "QLSTM": "LSTMCell",
                "QGRU": "GRUCell"}[ci.name]
    elif ci.name == "QBidirectional":
      # forward + backward quantizer lists, each [kernel, recurrent, bias,
      # state]; weights are forward [k, r, b] + backward [k, r, b]
      roles = ["kernel", "recurrent", "bias", "state"] * 2
      loc = ci.loc()
      want = ["kernel", "recurrent", "bias?"] * 2
      if ci.name in sliced:
        roles = roles[:-1]
      n_checked += 1
      rep.check(_compatible(roles, want), "R3", unit,
                "quantizers-misaligned-with-weights",
                "the export pairs get_quantizers() = %s with get_weights() = "
                "%s by position" % (roles, want), loc=loc)
      continue
    else:
      roles, loc = quantizer_roles(ci)
    if roles is None or parent is None:
      continue
    if ci.name in sliced:
      roles = roles[:-1]
    want = WEIGHT_ORDER[parent]
    n_checked += 1
    rep.unit(unit)
    rep.check(_compatible(roles, want), "R3", unit,
              "quantizers-misaligned-with-weights",
              "the export pairs get_quantizers() = %s with get_weights() = %s "
              "(Keras order of %s) by position" % (roles, want, parent),
              loc=loc)
  if n_checked < 10:
    raise AnalysisError("instance-count pairing rule saw %d classes" %
                        n_checked)


def _compatible(roles, want):
  """zip(roles, weights) pairs every present weight with the quantizer of
  its role, for every presence pattern of the optional weights."""
  opt = [i for i, w in enumerate(want) if w.endswith("?")]
  for mask in range(1 << len(opt)):
    present = []
    for i, w in enumerate(want):
      if w.endswith("?"):
        if not (mask >> opt.index(i)) & 1:
          continue
        present.append(w[:-1])
      else:
        present.append(w)
    for r, w in zip(roles, present):
      if r != w:
        return False
  return True


def rule_frozen_scale(rep, repo):
  """R7: a quantizer whose scale does not depend on the data (constant
  alpha, or a post-training scale frozen with the library's utility) must
  still be data-independent - and compute the same function - after a layer
  has installed it: every quantized layer calls _set_trainable_parameter()
  on its kernel quantizer.  (Necessary for "a second export changes
  nothing": a scale re-derived from already quantized weights differs.)"""
  from .. import quant
  from ..pe import ConfigRejected
  mod = repo.module(quant.QMOD)
  pts = Tensor(("sym", "post_training_scale"), None)
  n = 0
  for cname, ci in sorted(mod.classes.items()):
    owner, fn = ci.find_method("_set_trainable_parameter")
    if fn is None or cname.startswith("_"):
      continue
    params = [p for p, _ in ci.init_params()[0]]
    if "alpha" not in params:
      continue
    unit = "%s::%s._set_trainable_parameter" % (mod.relpath, cname)
    rep.unit(unit)
    cfgs = [dict(alpha=F(2)), dict(alpha=F(1, 4))]
    if "post_training_scale" in params:
      cfgs += [dict(alpha="auto_po2", post_training_scale=pts),
               dict(alpha="auto_po2", post_training_scale=pts, bits=4,
                    integer=1, keep_negative=False)]
    for kw in cfgs:
      cfg = "%s(%s)" % (cname, ",".join(
          "%s=%s" % (k, "PTS" if v is pts else v) for k, v in kw.items()))
      syms = {"post_training_scale": NF.sym("pts")}
      try:
        b0 = quant.build(repo, cname, kw)
        pe, q = quant.construct(repo, cname, kw)
        pe.call(pe.getattr(q, "_set_trainable_parameter"), [], {})
        out = pe.call(q, [pe.x_input()], {})
      except (ConfigRejected, PyRaise):
        continue
      n += 1
      for ph in ("infer", "train"):
        f0 = Fwd(ph, syms)(b0.term)
        f1 = Fwd(ph, syms)(out.term)
        dep = sorted({a[1] for a in f1.atoms() if a[0] == "app" and
                      a[1].startswith("reduce_")})
        rep.check(not dep, "R7", unit, "frozen-scale-becomes-data-dependent",
                  "%s: after _set_trainable_parameter() (called by every "
                  "layer on its kernel quantizer) the output depends on "
                  "data reductions %s: the fixed / frozen scale is "
                  "re-derived from the tensor" % (cfg, dep),
                  loc=owner.module.loc(fn), instance=cfg)
        rep.check(equal_mod_finite(f0, f1), "R7", unit,
                  "installation-changes-the-function",
                  "%s computes a different function once "
                  "_set_trainable_parameter() has been called" % cfg,
                  loc=owner.module.loc(fn), instance=cfg)
  if n < 8:
    raise AnalysisError("instance-count only %d frozen-scale configurations"
                        % n)


def rule_fusing_pairs(rep, repo):
  """R8: find_bn_fusing_layer_pair is interpreted on a synthetic layer graph:
  a QConv2D / QDepthwiseConv2D is paired with a QBatchNormalization (whose
  terms are then fused into the exported weights and which is skipped) only
  when that batch-normalisation is its sole consumer."""
  from ..graphmock import harness
  um = repo.module(UM)
  fn = um.functions.get("find_bn_fusing_layer_pair")
  if fn is None:
    raise AnalysisError("anchor-missing utils.find_bn_fusing_layer_pair")
  unit = "%s::find_bn_fusing_layer_pair" % um.relpath
  rep.unit(unit)
  loc = um.loc(fn)
  G, graph, qg, removed, topo = harness("QConv2D", "QDepthwiseConv2D",
                                        "QBatchNormalization", "QDense")
  model = Mock("model", {})
  pe = PE(repo, module_overrides={um.name: {
      "clone_model": lambda pe, a, k: model, "qgraph": qg}})
  pe.opaque_ext = True
  pe.ext_overrides = {"*.topological_sort": topo}
  try:
    r = pe.call(pe.lookup_global("find_bn_fusing_layer_pair", um), [model],
                {})
    pairs, skip = r[0], r[1]
  except PyRaise as e:
    rep.fail("R8", unit, "pair-selection-raises",
             "find_bn_fusing_layer_pair raises %s on the synthetic graph" % e,
             loc=loc)
    return
  want = {"c2_only_bn": "bn2", "dw3_only_bn": "bn3"}
  rep.check(dict(pairs) == want, "R8", unit, "fusing-pairs",
            "layer / batch-norm pairs selected for fusing: %s; only layers "
            "whose sole consumer is the batch-normalisation may be fused: %s"
            % (dict(pairs), want), loc=loc)
  rep.check(sorted(skip) == sorted(want.values()), "R8", unit,
            "skipped-batchnorm-layers",
            "batch-normalisation layers marked to be skipped: %s, expected "
            "%s" % (sorted(skip), sorted(want.values())), loc=loc)


def rule_freeze_consistency(rep, repo, tier):
  """R9: the post-training scale that the freezing utility stores is the
  scale the quantizer recorded during its last call; the frozen quantizer
  must then compute exactly what the data-dependent one computed:
  F_frozen[post_training_scale := recorded scale(x)] == F_auto(x) as normal
  forms, for the quantizer and for the quantizer the utility's own helper
  builds."""
  import itertools
  from .. import quant
  from ..pe import ConfigRejected, Obj
  from ..qir import simplify_app
  mod = repo.module(quant.QMOD)
  um = repo.module(UM)
  unit = "%s::quantized_bits.__call__" % mod.relpath
  rep.unit(unit)
  pts = Tensor(("sym", "post_training_scale"), None)
  bits_r = (2, 4, 8) if tier == "quick" else range(2, 9)
  int_r = (0, 1) if tier == "quick" else (0, 1, 2, 3)
  n = 0
  for bits, integer, kn in itertools.product(bits_r, int_r, (True, False)):
    kw = dict(bits=bits, integer=integer, keep_negative=kn, alpha="auto_po2")
    cfg = "quantized_bits(bits=%d,integer=%d,keep_negative=%s,alpha="\
        "'auto_po2')" % (bits, integer, kn)
    try:
      ba = quant.build(repo, "quantized_bits", kw)
      bf = quant.build(repo, "quantized_bits",
                       dict(kw, post_training_scale=pts))
    except ConfigRejected:
      continue
    rec = ba.obj.attrs.get("scale")
    if not isinstance(rec, Tensor):
      rep.fail("R9", unit, "no-scale-recorded",
               "%s: no scale recorded by the call" % cfg, instance=cfg)
      continue
    n += 1
    for ph in ("infer", "train"):
      fa = Fwd(ph)(ba.term)
      s_rec = Fwd(ph)(rec.term)
      ff = Fwd(ph, {"post_training_scale": NF.sym("pts")})(bf.term)
      ff = ff.subst({("sym", "pts"): s_rec}, simplify_app)
      rep.check(equal_mod_finite(ff, fa), "R9", unit,
                "frozen-scale-computes-another-function",
                "%s: with post_training_scale set to the scale recorded by "
                "the data-dependent call the quantizer computes a different "
                "function (phase %s)" % (cfg, ph), loc=ba.pe.loc_of(ba.term),
                instance=cfg)
  if n < 8:
    raise AnalysisError("instance-count only %d freeze configurations" % n)
  # the utility's own helper
  fn = um.functions.get("clone_model_and_freeze_auto_po2_scale")
  if fn is None:
    raise AnalysisError("anchor-missing clone_model_and_freeze_auto_po2_"
                        "scale")
  unit2 = "%s::clone_model_and_freeze_auto_po2_scale" % um.relpath
  rep.unit(unit2)
  helper = None
  finder = None
  for node in ast.walk(fn):
    if isinstance(node, ast.FunctionDef):
      if node.name == "_create_quantized_bits_with_post_training_scale":
        helper = node
      if node.name == "_find_auto_po2_quantizer":
        finder = node
  if helper is None or finder is None:
    raise AnalysisError("anchor-missing helper functions of the freezing "
                        "utility")
  pe, q = quant.construct(repo, "quantized_bits", dict(
      bits=4, integer=1, alpha="auto_po2", keep_negative=True))
  out = pe.call(q, [pe.x_input()], {})
  try:
    fz = pe.call_func(Func(helper, um, [], helper.name, None, None), [q], {})
  except PyRaise as e:
    rep.fail("R9", unit2, "helper-raises", "the helper raises %s" % e,
             loc=um.loc(helper))
    fz = None
  if fz is not None:
    ok = isinstance(fz, Obj) and fz.cls.name == "quantized_bits"
    same_scale = ok and isinstance(fz.attrs.get("post_training_scale"),
                                   Tensor) and Fwd()(
        fz.attrs["post_training_scale"].term) == Fwd()(
            q.attrs["scale"].term)
    rep.check(same_scale, "R9", unit2, "frozen-scale-is-not-recorded-scale",
              "the helper builds %r with post_training_scale %s; expected a "
              "quantized_bits whose post_training_scale is the scale "
              "recorded by the original quantizer" %
              (fz, fz.attrs.get("post_training_scale")
               if isinstance(fz, Obj) else None), loc=um.loc(helper))
    if same_scale:
      pe.rand_counter = 0
      o2 = pe.call(fz, [pe.x_input()], {})
      rep.check(equal_mod_finite(Fwd()(o2.term), Fwd()(out.term)), "R9",
                unit2, "frozen-quantizer-differs",
                "the quantizer built by the helper computes a different "
                "function than the original on the tensor the scale came "
                "from", loc=um.loc(helper))
    rep.check(pe.call_func(Func(helper, um, [], helper.name, None, None),
                           [None], {}) is None, "R9", unit2,
              "helper-none", "the helper must return None for a layer "
              "without an auto_po2 quantizer", loc=um.loc(helper))
  # the per-class creators put the frozen quantizer's config under the key
  # of the quantizer that can carry an auto_po2 scale for that class, and
  # build that class
  want_key = {"QConv2D": "kernel_quantizer", "QDense": "kernel_quantizer",
              "QDepthwiseConv2D": "depthwise_quantizer",
              "QBatchNormalization": "inverse_quantizer"}
  creators = {n.name: n for n in ast.walk(fn)
              if isinstance(n, ast.FunctionDef) and
              n.name.startswith("_create_") and n.name.endswith("_layer")}
  built = []
  for cname, key in sorted(want_key.items()):
    recorder = lambda pe_, a, k, cname=cname: built.append((cname, k)) or \
        Mock("new " + cname, {})
    hits = []
    for fname, node in sorted(creators.items()):
      if fname == "_create_other_layer":
        continue
      called = {x.func.id for x in ast.walk(node) if isinstance(
          x, ast.Call) and isinstance(x.func, ast.Name)}
      if cname not in called:
        continue
      hits.append(fname)
      ci = repo.classes.get({"QConv2D": "qkeras.qconvolutional.QConv2D",
                             "QDense": "qkeras.qlayers.QDense",
                             "QDepthwiseConv2D":
                             "qkeras.qconvolutional.QDepthwiseConv2D",
                             "QBatchNormalization":
                             "qkeras.qnormalization.QBatchNormalization"}[
                                 cname])
      params = [p_ for p_, _ in ci.init_params()[0]] if ci else []
      cfg_in = {p_: {"class_name": "quantized_bits", "config": {"old": p_}}
                for p_ in params if p_.endswith("_quantizer")}
      fq = Mock("frozen", {"get_config": lambda pe_, a, k: {"frozen": True}})
      pc = PE(repo, module_overrides={um.name: {cname: recorder}})
      del built[:]
      try:
        pc.call_func(Func(node, um, [], fname, None, None), [cfg_in, fq], {})
      except PyRaise as e:
        rep.fail("R9", unit2, "creator-raises:" + cname, "%s raises %s" %
                 (fname, e), loc=um.loc(node))
        continue
      kw = built[0][1] if built else {}
      changed = sorted(k_ for k_, v_ in kw.items() if isinstance(v_, dict)
                       and v_.get("config") == {"frozen": True})
      rep.check(bool(built) and changed == [key], "R9", unit2,
                "frozen-config-under-wrong-key:" + cname,
                "%s builds %s with the frozen quantizer under %s; expected "
                "exactly %s" % (fname, built[0][0] if built else None,
                                changed, [key]), loc=um.loc(node))
    rep.check(len(hits) == 1, "R9", unit2, "no-creator:" + cname,
              "creators that build %s: %s (expected exactly one)" %
              (cname, hits), loc=um.loc(fn))
  # _find_auto_po2_quantizer: the unique auto_po2 quantizer, else raise
  qa = Mock("qa", {"alpha": "auto_po2"})
  qb = Mock("qb", {"alpha": None})
  qc = Mock("qc", {})
  pf = PE(repo)
  call = lambda lyr: pf.call_func(Func(finder, um, [], finder.name, None,
                                       None), [lyr], {})
  try:
    r1 = call(Mock("l1", {"name": "l1", "quantizers": [qb, qa, qc, None]}))
    r2 = call(Mock("l2", {"name": "l2", "quantizers": [qb, qc]}))
    r3 = call(Mock("l3", {"name": "l3"}))
    rep.check(r1 is qa and r2 is None and r3 is None, "R9", unit2,
              "finder-result", "_find_auto_po2_quantizer returns %s / %s / "
              "%s" % (r1, r2, r3), loc=um.loc(finder))
  except PyRaise as e:
    rep.fail("R9", unit2, "finder-raises", "raises %s" % e,
             loc=um.loc(finder))
  try:
    call(Mock("l4", {"name": "l4", "quantizers": [qa, Mock(
        "qa2", {"alpha": "auto_po2"})]}))
    rep.fail("R9", unit2, "two-auto-po2-accepted",
             "a layer with two auto_po2 quantizers is accepted (only one "
             "can be frozen per layer)", loc=um.loc(finder))
  except PyRaise:
    rep.ok("R9")


def rule_placeholders(rep, repo):
  """R15: the export pairs get_quantizers() with get_weights() BY POSITION
  (zip) and skips entries that are None: a layer whose quantizers are only
  partly configured must keep a None placeholder for every unset one.  Each
  exported layer class with its own get_quantizers() is built by its own
  constructor with every quantizer set, and then with one quantizer set at
  a time: the list has the same length both times and the set quantizer is
  at the position it had in the full list."""
  from .c13 import layer_pe, exported_classes
  from ..pe import Obj, Unsupported
  qmod = repo.module("qkeras.quantizers")
  n = 0
  skipped = {}
  for name, ci in sorted(exported_classes(repo).items()):
    owner, fn = ci.find_method("get_quantizers")
    if fn is None or name in ("QBidirectional",):
      continue
    params = [p for p, _ in ci.init_params()[0]]
    qparams = [p for p in params if p.endswith("_quantizer") or p in (
        "depthwise_activation", "pointwise_activation")]
    if name == "QBatchNormalization":
      qparams = [p for p in qparams if p != "inverse_quantizer"]
    if len(qparams) < 2:
      continue
    unit = "%s::%s.get_quantizers" % (owner.module.relpath, owner.name)
    loc = owner.module.loc(fn)
    base = {}
    for p_, v_ in (("units", 4), ("filters", 8), ("kernel_size", 3),
                   ("pool_size", 2)):
      if p_ in params:
        base[p_] = v_

    def build(subset):
      pe = layer_pe(repo, ci, name)
      kw = dict(base)
      objs = {}
      for i, p in enumerate(qparams):
        if p in subset:
          objs[p] = pe.call(pe.lookup_global("quantized_bits", qmod), [],
                            dict(bits=3 + i, integer=1, alpha=1))
          kw[p] = objs[p]
        else:
          kw[p] = None
      layer = pe.call(ClassRef(ci), [], kw)
      got = pe.call(pe.getattr(layer, "get_quantizers"), [], {})
      return objs, got
    try:
      objs, full = build(set(qparams))
    except (PyRaise, Unsupported) as e:
      skipped[name] = str(e)[:100]
      continue
    if not isinstance(full, list):
      continue
    pos = {}
    for p, o in objs.items():
      for i, g in enumerate(full):
        if g is o:
          pos[p] = i
    rep.unit(unit)
    for p in qparams:
      if p not in pos:
        continue      # the layer wraps or replaces this one (not positional)
      try:
        objs1, got = build({p})
      except (PyRaise, Unsupported) as e:
        skipped["%s(%s only)" % (name, p)] = str(e)[:100]
        continue
      n += 1
      ok = isinstance(got, list) and len(got) == len(full) and \
          got[pos[p]] is objs1[p] and all(
              g is None or g is objs1[p] or not any(
                  g is o for o in objs1.values()) for g in got)
      where = [i for i, g in enumerate(got) if g is objs1[p]] \
          if isinstance(got, list) else None
      rep.check(ok, "R15", unit, "placeholder-dropped",
                "%s with only %s set: get_quantizers() has %s entries and "
                "the quantizer at position %s; with every quantizer set it "
                "has %d entries and that quantizer at position %d - the "
                "export pairs the list with get_weights() by position" % (
                    name, p, len(got) if isinstance(got, list) else got,
                    where, len(full), pos[p]), loc=loc,
                instance="%s(%s only)" % (name, p))
  rep.extra["placeholder_lists_not_interpretable"] = skipped
  return n


def rule_idempotent(rep, repo, tier):
  """R11: 'a second export changes nothing' needs every weight quantizer
  whose scale does not depend on the data to reproduce its own codes:
  Q(c) == c for every value c of its (finite) output value set.  Decided by
  evaluating the forward normal form at each code."""
  from .. import quant
  from ..qir import value_set, Eval, Env
  from ..pe import ConfigRejected
  from ..vset import VS
  mod = repo.module(quant.QMOD)
  cfgs = []
  for b, i, kn in itertools.product((1, 2, 4), (0, 1), (True, False)):
    cfgs.append(("quantized_bits", dict(bits=b, integer=i, keep_negative=kn,
                                        alpha=1)))
    cfgs.append(("quantized_linear", dict(bits=b, integer=i,
                                          keep_negative=kn, alpha=None)))
  for b, mv in itertools.product((3, 4), (None, F(2), F(1, 2))):
    cfgs.append(("quantized_po2", dict(bits=b, max_value=mv)))
    cfgs.append(("quantized_relu_po2", dict(bits=b, max_value=mv)))
  thrs = (None, F(1, 2), F(4, 5), F(1), 0)
  if tier == "thorough":
    thrs += (F(1, 8), F(9, 10), F(3, 4))
  for alpha, thr in itertools.product((None, F(1), F(2), F(1, 4)), thrs):
    cfgs.append(("ternary", dict(alpha=alpha, threshold=thr)))
  for alpha, u in itertools.product((None, F(1), F(2)), (False, True)):
    cfgs.append(("binary", dict(alpha=alpha, use_01=u)))
  n = 0
  for cls, kw in cfgs:
    cfg = "%s(%s)" % (cls, ",".join("%s=%s" % kv for kv in sorted(
        kw.items())))
    try:
      b_ = quant.build(repo, cls, kw)
    except ConfigRejected:
      continue
    f = b_.fwd("infer")
    vs = value_set(f)
    if vs.kind == "fin":
      codes = sorted(vs.vals)
    elif vs.kind == "po2" and vs.exps.kind == "fin":
      codes = sorted(F(s_) * F(2) ** int(e) for s_ in vs.signs
                     for e in vs.exps.vals)
    else:
      try:
        g = vs.as_grid()
        lo, hi = g.bounds()
        if lo is None or hi is None or (hi - lo) / g.g > 300:
          continue
        k0 = -(-(lo - g.o) // g.g)
        codes = []
        v = g.o + k0 * g.g
        while v <= hi:
          codes.append(v)
          v += g.g
      except Exception:   # pylint: disable=broad-except
        continue
    unit = "%s::%s.__call__" % (mod.relpath, cls)
    rep.unit(unit)
    n += 1
    bad = []
    for c in codes:
      r = Eval(Env(x=VS.const(c), xsign=(c > 0) - (c < 0))).nf(f)
      rv = r.const_value()
      if rv is None and r.kind == "po2" and len(r.signs) == 1 and \
          r.exps.kind == "fin" and len(r.exps.vals) == 1:
        rv = F(list(r.signs)[0]) * F(2) ** int(list(r.exps.vals)[0])
      if rv is None or rv != c:
        bad.append("Q(%s) = %s" % (c, rv if rv is not None else r))
    rep.check(not bad, "R11", unit, "quantizer-changes-its-own-codes",
              "%s: %s - a layer that stores exported weights quantizes them "
              "again in call(), and a second export stores other values" %
              (cfg, "; ".join(bad[:5])), loc=b_.pe.loc_of(b_.term),
              instance=cfg, observed="; ".join(bad[:5]))
  if n < 30:
    raise AnalysisError("instance-count only %d idempotence configurations"
                        % n)


def rule_freeze_main(rep, repo):
  """R10: clone_model_and_freeze_auto_po2_scale as a whole, interpreted on a
  synthetic model (Keras model construction and the export replaced by
  recording stand-ins).  The original model must stay untouched (the export
  runs on a clone that received the original weights); every layer of the
  new model is built, in order, from the exported clone's layer: QConv2D /
  QDepthwiseConv2D / QBatchNormalization / QDense with the frozen copy of
  THAT layer's auto_po2 quantizer (post_training_scale = the scale that
  quantizer recorded) under the right key, other layers from their own
  config; the new model receives the original float weights; with
  quantize_model_weights the new model is exported and compared; a new model
  that still carries an adaptive auto_po2 quantizer is refused."""
  um = repo.module(UM)
  fn = um.functions.get("clone_model_and_freeze_auto_po2_scale")
  if fn is None:
    raise AnalysisError("anchor-missing clone_model_and_freeze_auto_po2_"
                        "scale")
  unit = "%s::clone_model_and_freeze_auto_po2_scale" % um.relpath
  rep.unit(unit)
  loc = um.loc(fn)
  KEY = {"QConv2D": "kernel_quantizer", "QDense": "kernel_quantizer",
         "QDepthwiseConv2D": "depthwise_quantizer",
         "QBatchNormalization": "inverse_quantizer"}

  def scenario(flag, extra_auto_other=False, hw_differs=False):
    ev = []            # event log
    made = []          # layers of the new model in creation order

    def quant(tag, alpha):
      return Mock("q_" + tag, {
          "alpha": alpha, "post_training_scale": None,
          "scale": Mock("scale", {"numpy": lambda pe, a, k: "SCALE-" + tag}),
          "get_config": lambda pe, a, k: {"bits": 4, "alpha": alpha,
                                          "tag": tag}})

    def lay(name, cls, qs, keys):
      cfg = {"name": name}
      for kk in keys:
        cfg[kk] = {"class_name": "quantized_bits", "config": {"old": name}}
      a = {"name": name, "__class__": Mock("class", {
          "__name__": cls,
          "from_config": lambda pe, ar, k, name=name, qs=qs: new_layer(
              "other", name, {"from_config": ar[0]},
              list(qs) if qs is not None else None)}),
           "get_config": lambda pe, ar, k: {
               kk: (dict(v, config=dict(v["config"])) if isinstance(v, dict)
                    else v) for kk, v in cfg.items()}}
      if qs is not None:
        a["quantizers"] = list(qs)
      return Mock(name, a)

    def new_layer(kind, name, kw, quantizers):
      m = Mock("new " + str(name), {"name": name, "__kind__": kind,
                                    "__kw__": kw})
      if quantizers is not None:
        m.attrs["quantizers"] = quantizers
      m.attrs["__call__"] = lambda pe, a, k, m=m: (
          ev.append(("apply", m.attrs["name"], a[0])),
          "x-after-" + str(m.attrs["name"]))[1]
      made.append(m)
      return m

    qa = {n: quant(n, "auto_po2") for n in ("conv", "dw", "bn", "dense",
                                             "odd")}
    qf = quant("fixed", 1.0)
    specs = [("conv", "QConv2D", [qa["conv"], qf],
              ["kernel_quantizer", "bias_quantizer"]),
             ("dw", "QDepthwiseConv2D", [qa["dw"], None],
              ["depthwise_quantizer", "bias_quantizer"]),
             ("bn", "QBatchNormalization", [None, None, None, None,
                                            qa["bn"]],
              ["inverse_quantizer"]),
             ("plain", "QDense", [qf, qf],
              ["kernel_quantizer", "bias_quantizer"]),
             ("act", "QActivation", None, []),
             ("dense", "QDense", [qa["dense"], qf],
              ["kernel_quantizer", "bias_quantizer"])]
    if extra_auto_other:
      specs.append(("odd", "QConv1D", [qa["odd"], qf],
                    ["kernel_quantizer", "bias_quantizer"]))
    inp = Mock("input layer", {"name": "in0"})
    q_layers = [inp] + [lay(*sp) for sp in specs]
    o_layers = [inp] + [lay(*sp) for sp in specs]
    orig = Mock("original model", {
        "layers": o_layers, "input_shape": (None, 8, 8, 3),
        "get_weights": lambda pe, a, k: "ORIGINAL-WEIGHTS",
        "set_weights": lambda pe, a, k: ev.append(("orig.set_weights",
                                                   a[0]))})
    clone = Mock("exported clone", {
        "layers": q_layers,
        "get_weights": lambda pe, a, k: "EXPORTED-WEIGHTS",
        "set_weights": lambda pe, a, k: ev.append(("clone.set_weights",
                                                   a[0]))})
    newm = {}

    def export(pe, a, k):
      ev.append(("export", a[0]))
      if a[0] is clone:
        return {"conv": {"weights": [1, 2], "scales": [3]}}
      return {"conv": {"weights": [1, 2], "scales": [4 if hw_differs
                                                     else 3]}}

    def ctor(cls):
      def build(pe, a, k):
        qs = []
        for kk, v in k.items():
          if kk.endswith("_quantizer") and isinstance(v, dict) and \
              "post_training_scale" in v.get("config", {}):
            qs.append(Mock("frozen q", {
                "alpha": "auto_po2", "post_training_scale":
                v["config"]["post_training_scale"]}))
        return new_layer(cls, k.get("name"), dict(k), qs)
      return build

    def qbits(pe, a, k):
      return Mock("frozen quantized_bits", {
          "get_config": lambda pe2, a2, k2: dict(k), "alpha": k.get("alpha"),
          "post_training_scale": k.get("post_training_scale")})

    def model_ctor(pe, a, k):
      m = Mock("new model", {
          "layers": list(made), "__io__": (a[0] if a else k.get("inputs"),
                                           a[1] if len(a) > 1
                                           else k.get("outputs")),
          "set_weights": lambda pe2, a2, k2: ev.append(("new.set_weights",
                                                        a2[0]))})
      newm["m"] = m
      return m
    ov = {"model_save_quantized_weights": export, "quantized_bits": qbits}
    for cls in KEY:
      ov[cls] = ctor(cls)
    pe = PE(repo, module_overrides={um.name: ov})
    pe.opaque_ext = True
    pe.ext_overrides = {
        "tf.keras.models.clone_model": lambda pe, a, k: (
            ev.append(("clone_model", a[0])), clone)[1],
        "tf.keras.Input": lambda pe, a, k: "INPUT",
        "tf.keras.Model": model_ctor}
    res = pe.call(pe.lookup_global("clone_model_and_freeze_auto_po2_scale",
                                   um), [orig], {"quantize_model_weights":
                                                 flag})
    return res, ev, made, clone, orig, newm.get("m"), specs

  for flag in (False, True):
    cfg = "quantize_model_weights=%s" % flag
    try:
      res, ev, made, clone, orig, newm, specs = scenario(flag)
    except PyRaise as e:
      rep.fail("R10", unit, "utility-raises", "%s raises %s" % (cfg, e),
               loc=loc, instance=cfg)
      continue
    kinds = [e[0] for e in ev]
    exports = [e[1] for e in ev if e[0] == "export"]
    rep.check(("clone.set_weights", "ORIGINAL-WEIGHTS") in ev and
              kinds.index("clone.set_weights") < kinds.index("export") and
              exports[0] is clone and "orig.set_weights" not in kinds and
              all(x is not orig for x in exports), "R10", unit,
              "original-model-exported",
              "%s: events %r; the export must run on a clone that received "
              "the original weights and never on the original model" %
              (cfg, [(e[0], str(e[1])[:30]) for e in ev]), loc=loc,
              instance=cfg)
    bad = []
    if [m.attrs["name"] for m in made] != [sp[0] for sp in specs]:
      bad.append("layers built: %r" % [m.attrs["name"] for m in made])
    for m, sp in zip(made, specs):
      name, cls, qs, keys = sp
      kw = m.attrs["__kw__"]
      if cls in KEY:
        if m.attrs["__kind__"] != cls:
          bad.append("%s built as %s" % (name, m.attrs["__kind__"]))
          continue
        auto = [q for q in qs if q is not None and
                q.attrs["alpha"] == "auto_po2"]
        for kk in keys:
          c = kw.get(kk, {}).get("config") if isinstance(kw.get(kk),
                                                         dict) else None
          if auto and kk == KEY[cls]:
            if not (isinstance(c, dict) and c.get("tag") == name and
                    c.get("post_training_scale") == "SCALE-" + name and
                    c.get("alpha") == "auto_po2"):
              bad.append("%s.%s rebuilt from %r" % (name, kk, c))
          elif c != {"old": name}:
            bad.append("%s.%s changed to %r" % (name, kk, c))
      else:
        if m.attrs["__kind__"] != "other" or kw.get("from_config", {}).get(
            "name") != name:
          bad.append("%s rebuilt as %s from %r" % (name, m.attrs["__kind__"],
                                                   kw))
    applies = [e for e in ev if e[0] == "apply"]
    chain = ["INPUT"] + ["x-after-" + sp[0] for sp in specs]
    if [(a[1], a[2]) for a in applies] != [(sp[0], chain[i])
                                           for i, sp in enumerate(specs)]:
      bad.append("layers applied as %r" % [(a[1], a[2]) for a in applies])
    if newm is None or newm.attrs["__io__"] != ("INPUT", chain[-1]):
      bad.append("new model built from %r" % (
          newm.attrs["__io__"] if newm is not None else None,))
    rep.check(not bad, "R10", unit, "new-model-misbuilt",
              "%s: %s" % (cfg, "; ".join(bad)), loc=loc, instance=cfg)
    rep.check(("new.set_weights", "ORIGINAL-WEIGHTS") in ev, "R10", unit,
              "new-model-weights",
              "%s: the new model must receive the original (float) weights; "
              "events %r" % (cfg, [e for e in ev if e[0].endswith(
                  "set_weights")]), loc=loc, instance=cfg)
    ok_res = isinstance(res, (tuple, list)) and len(res) == 2 and \
        res[0] is newm
    if flag:
      rep.check(ok_res and len(exports) == 2 and exports[1] is newm and
                isinstance(res[1], dict), "R10", unit,
                "hw-weights-of-new-model",
                "%s: exports ran on %r, result %r" % (
                    cfg, [str(x) for x in exports], res), loc=loc,
                instance=cfg)
    else:
      rep.check(ok_res and res[1] is None and len(exports) == 1, "R10",
                unit, "hw-weights-of-new-model",
                "%s: exports ran on %r, result %r" % (
                    cfg, [str(x) for x in exports], res), loc=loc,
                instance=cfg)
  # refusals
  for label, kw in (("a layer class without a creator keeps an adaptive "
                     "auto_po2 quantizer", dict(extra_auto_other=True)),
                    ("the hardware weights of the new model differ",
                     dict(hw_differs=True))):
    try:
      scenario(True, **kw)
      rep.fail("R10", unit, "refusal-missing", "accepted although %s" %
               label, loc=loc, instance=label)
    except PyRaise:
      rep.ok("R10")
  # a model that still carries an adaptive scale is refused in BOTH modes:
  # the default (quantize_model_weights=False, retrain with fixed scales)
  # hands the model on as "frozen" too
  try:
    scenario(False, extra_auto_other=True)
    rep.fail("R10", unit, "refusal-missing:quantize_model_weights=False",
             "with quantize_model_weights=False the utility returns a model "
             "in which a layer class without a creator still has an adaptive "
             "auto_po2 quantizer", loc=loc,
             instance="quantize_model_weights=False/adaptive scale left")
  except PyRaise:
    rep.ok("R10")


def rule_every_quantized_class_is_exported(rep, repo, rule="R16"):
  """Every layer class of the library that reports quantizers through
  get_quantizers() is exported: a stand-in of the class - carrying a
  `quantizers` attribute only if the real class assigns one - with a kernel
  and a bias quantizer appears in the returned dictionary and is handed the
  quantized weights."""
  um = repo.module(UM)
  unit = "%s::model_save_quantized_weights" % um.relpath
  loc = um.loc(um.functions["model_save_quantized_weights"])
  fw = Fwd()
  n = 0
  skipped = {}
  for ci in sorted(repo.classes.values(), key=lambda c: c.qualname):
    if not ci.module.name.startswith("qkeras.q") or \
        ci.module.name.startswith("qkeras.qtools"):
      continue
    if ci.find_method("get_quantizers")[1] is None or ci.name.endswith(
        "Cell") or ci.name in ("QActivation", "QAdaptiveActivation",
                               "QBidirectional", "QBatchNormalization"):
      continue
    rnn = ci.name in ("QSimpleRNN", "QLSTM", "QGRU")
    record = {}
    qs = [qmock("k"), qmock("r"), qmock("b"), qmock("state")] if rnn else \
        [qmock("k"), qmock("b")]
    ws = [S("kernel"), S("recurrent"), S("bias")] if rnn else \
        [S("kernel"), S("bias")]
    extra = {"pool_size": (2, 2)} if "Pooling" in ci.name else {}
    layer = layer_mock("lyr", [ci.name], qs, ws, record, **extra)
    try:
      out = run_export(repo, [layer])
    except (PyRaise, Unsupported) as e:
      skipped[ci.name] = str(e)[:100]
      continue
    n += 1
    got = record.get("lyr", [])
    first = nf_of(got[0][0], fw) if got and got[0] else None
    # (the folded batch-norm classes are exported but keep their own
    # weights: R2 / R13 decide what the export does with them)
    folded = ci.name.endswith("Batchnorm")
    ok = isinstance(out, dict) and "lyr" in out and (
        folded or first == mk_app("Q_k", [NF.sym("kernel")]))
    rep.check(ok, rule, unit, "quantized-layer-not-exported:" + ci.name,
              "a %s layer with a kernel and a bias quantizer: %s" % (
                  ci.name, "it is not in the exported dictionary and keeps "
                  "its float weights" if not (isinstance(out, dict) and
                                              "lyr" in out) else
                  "set_weights receives %s for the kernel" % (
                      show(first) if first is not None else "nothing")),
              loc=loc, instance=ci.name)
  rep.extra["export_classes_not_interpretable"] = skipped
  return n


def run(rep, repo, tier):
  rep.trusted.append("Keras weight order of the parent layer classes "
                     "(table in the rule); set_weights stores what it is "
                     "given")
  rep.assumptions.append("'predictions unchanged by the export' and 'a "
                         "second export changes nothing' are numeric "
                         "consequences (idempotence, C02) and are not "
                         "decided here")
  _note_quantizer_attributes(repo)
  rule_export(rep, repo)
  rule_export_per_layer(rep, repo)
  if rule_every_quantized_class_is_exported(rep, repo) < 10:
    raise AnalysisError("instance-count exported classes: %r" %
                        rep.extra.get("export_classes_not_interpretable"))
  rep.require_instances("R12", 16)
  rule_po2_export_values(rep, repo, tier)
  rule_bn_fusing(rep, repo)
  rule_fused_export(rep, repo)
  rep.require_instances("R13", 10)
  rule_export_effects(rep, repo)
  rep.require_instances("R14", 2)
  rule_pairing(rep, repo)
  rule_frozen_scale(rep, repo)
  rule_fusing_pairs(rep, repo)
  rule_freeze_consistency(rep, repo, tier)
  rule_freeze_main(rep, repo)
  rep.require_instances("R10", 10)
  rule_idempotent(rep, repo, tier)
  rep.require_instances("R11", 30)
  rule_placeholders(rep, repo)
  rep.require_instances("R15", 20)
  rep.require_instances("R9", 25)
  rep.require_instances("R8", 2)
  rep.require_instances("R7", 30)
  rep.require_instances("R1", 3)
  rep.require_instances("R2", 4)
  rep.require_instances("R3", 10)
  rep.require_instances("R4", 3)
  rep.require_instances("R6", 40)
