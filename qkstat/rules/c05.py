"""C05 - auto-scaled fixed point = integer codes x recorded scale.

For quantized_bits (alpha 'auto', 'auto_po2', frozen post_training_scale) and
quantized_linear ('auto', 'auto_po2'), with S the scale recorded during the
call (self.scale resp. self.quantization_scale) and F the forward value:
R1 product form: c := F / S is free of the scale atoms and its value set is
   on the declared code grid with |k| <= 2**(bits-1) - 1 (resp. inside the
   clip bounds for quantized_linear).
R2 'auto_po2': the value set of S is a positive power-of-two set (including
   after the refinement rounds and exponent clipping); the clipped factor
   respects the configured exponent bounds.
R3 S is detached from the gradient: d(output)/dx contains no derivative of a
   data-dependent reduction (shared with C06-R4) and equals the surrogate.
R4 per-channel: every data reduction that feeds S keeps dims and reduces
   over all axes but the channel (or configured scale) axis, for ranks 2..4.
"""
from fractions import Fraction as F
import itertools

from ..loader import AnalysisError
from ..pe import ConfigRejected, Tensor, PyRaise
from .. import quant, oracle
from ..qir import Fwd, Eval, Env, value_set, piecewise_derivative
from ..ieee import ConstEval, Inconclusive, finite
from ..nf import NF, show
from ..vset import VS

TECHNIQUE = ("Normal-form factorisation output = recorded scale x code; "
             "congruence/interval value set of the code; power-of-two domain "
             "for the scale; reduction-axes check over ranks 2..4.")

PTS = Tensor(("sym", "post_training_scale"), None)
CONST_INPUTS = [(0.0, "zero"), (1e-6, "1e-6"), (-1e-6, "-1e-6"), (1.0, "1"),
                (-1.0, "-1"), (1e6, "1e6"), (-1e6, "-1e6")]


def lattice(tier):
  bits_r = (2, 3, 4, 8) if tier == "quick" else range(2, 9)
  int_r = (0, 2) if tier == "quick" else (0, 1, 2, 3)
  for bits, integer, alpha, kn in itertools.product(
      bits_r, int_r, ("auto", "auto_po2"), (True, False)):
    bounds = [(None, None)]
    if alpha == "auto_po2":
      bounds += [(-3, 2), (None, 0), (0, None)]
    for mn, mx in bounds:
      yield "quantized_bits", dict(bits=bits, integer=integer, alpha=alpha,
                                   keep_negative=kn, min_po2_exponent=mn,
                                   max_po2_exponent=mx)
    if alpha == "auto_po2":
      yield "quantized_bits", dict(bits=bits, integer=integer, alpha=alpha,
                                   keep_negative=kn,
                                   post_training_scale=PTS)
  for bits, integer, alpha, kn, sym in itertools.product(
      bits_r, int_r, ("auto", "auto_po2"), (True, False), (0, 1)):
    yield "quantized_linear", dict(bits=bits, integer=integer, alpha=alpha,
                                   keep_negative=kn, symmetric=sym)


def show_kw(kw):
  return ",".join("%s=%s" % (k, "PTS" if isinstance(v, Tensor) else
                             oracle.show_kwargs({k: v}).split("=", 1)[1])
                  for k, v in kw.items())


def rule_installed(rep, repo, classes, rule, tier, base_configs):
  """A quantizer that a layer installs as weight quantizer is first passed
  through its own _set_trainable_parameter() (alpha None -> 'auto_po2',
  symmetric range, ...).  Whatever that method changes, the adjusted object
  must compute the same function - and report the same min()/max() - as a
  quantizer constructed directly with the adjusted options: nothing derived
  from the old options at construction time may survive (shared with C04)."""
  from ..qir import equal_mod_finite
  mod = repo.module(quant.QMOD)
  n = 0
  for cls in classes:
    ci = mod.classes.get(cls)
    if ci is None:
      raise AnalysisError("anchor-missing class %s" % cls)
    owner, fn = ci.find_method("_set_trainable_parameter")
    if fn is None:
      continue
    params = [p_ for p_, _ in ci.init_params()[0]]
    unit = "%s::%s._set_trainable_parameter" % (mod.relpath, cls)
    rep.unit(unit)
    loc = owner.module.loc(fn)
    for kw, used_before in itertools.product(list(base_configs(cls, tier)),
                                             (False, True)):
      cfg = "%s(%s) %sinstalled as weight quantizer" % (
          cls, show_kw(kw), "called once, then " if used_before else "")
      try:
        pe, q = quant.construct(repo, cls, kw)
      except ConfigRejected:
        continue
      if used_before:
        # nothing computed during an earlier call may outlive the change
        try:
          pe.call(q, [pe.x_input()], {})
        except PyRaise:
          continue
      before = {p_: q.attrs.get(p_) for p_ in params}
      try:
        pe.call(pe.getattr(q, "_set_trainable_parameter"), [], {})
      except PyRaise as e:
        rep.fail(rule, unit, "adjustment-raises", "%s raises %s" % (cfg, e),
                 loc=loc, instance=cfg)
        continue
      kw2 = dict(kw)
      changed = []
      for p_ in params:
        a, b_ = before[p_], q.attrs.get(p_)
        if isinstance(a, Tensor) or isinstance(b_, Tensor):
          continue
        if type(a) != type(b_) or a != b_:
          kw2[p_] = b_
          changed.append(p_)
      err1 = err2 = out1 = d = None
      pe.rand_counter = 0      # same names for the random draws as in `d`
      try:
        out1 = pe.call(q, [pe.x_input()], {})
      except PyRaise as e:
        err1 = e
      try:
        d = quant.build(repo, cls, kw2)
      except ConfigRejected as e:
        err2 = e
      if err1 is not None or err2 is not None:
        # both refusing the option combination is consistent (what the
        # combination should do is not this property)
        rep.check(err1 is not None and err2 is not None, rule, unit,
                  "adjusted-quantizer-rejected",
                  "%s: the adjusted object %s, the directly constructed "
                  "quantizer %s" % (cfg, "raises %s" % err1 if err1 else
                                    "works", "raises %s" % err2 if err2
                                    else "works"), loc=loc, instance=cfg)
        continue
      n += 1
      for ph in ("infer", "train"):
        f1, f2 = Fwd(ph)(out1.term), d.fwd(ph)
        rep.check(equal_mod_finite(f1, f2), rule, unit,
                  "stale-state-after-adjustment",
                  "%s: after _set_trainable_parameter() changed %s the "
                  "object computes %s, a quantizer constructed with those "
                  "options computes %s (%s)" % (
                      cfg, changed, show(f1, 200), show(f2, 200), ph),
                  loc=loc, instance=cfg)
      # ... and the same gradient (straight-through surrogates are chosen
      # from the options too)
      try:
        g1 = piecewise_derivative(out1.term)
        g2 = piecewise_derivative(d.term)
        pts = sorted({v for sg in (g1, g2) for s_ in sg for v in s_[:2]
                      if v is not None})
        regions = list(zip([None] + pts, pts + [None]))
        bad_g = None
        for lo_, hi_ in regions:
          def at(segs):
            for (sl, sh, dd, unk) in segs:
              if (sl is None or (lo_ is not None and lo_ >= sl)) and (
                  sh is None or (hi_ is not None and hi_ <= sh)):
                return dd
            return None
          d1_, d2_ = at(g1), at(g2)
          if d1_ is not None and d2_ is not None and not (
              d1_ == d2_ or equal_mod_finite(d1_, d2_)):
            bad_g = (lo_, hi_, d1_, d2_)
            break
        rep.check(bad_g is None, rule, unit,
                  "stale-gradient-after-adjustment",
                  "%s: on (%s, %s) d(output)/dx is %s, for the directly "
                  "constructed quantizer %s" % ((cfg,) + (tuple(
                      show(v, 120) if hasattr(v, "atoms") else v
                      for v in bad_g) if bad_g else (None,) * 4)), loc=loc,
                  instance=cfg)
      except AnalysisError:
        pass      # gradients of this configuration are outside the model
      for meth in ("min", "max"):
        if ci.find_method(meth)[1] is None:
          continue
        try:
          v1 = pe.call(pe.getattr(q, meth), [], {})
          v2 = d.pe.call(d.pe.getattr(d.obj, meth), [], {})
        except PyRaise:
          continue
        t1 = Fwd()(pe.as_term(v1)) if v1 is not None else None
        t2 = Fwd()(d.pe.as_term(v2)) if v2 is not None else None
        rep.check(t1 == t2, rule, unit, "stale-%s-after-adjustment" % meth,
                  "%s: %s() is %s, the directly constructed quantizer "
                  "reports %s" % (cfg, meth, t1 and show(t1), t2 and
                                  show(t2)), loc=loc, instance=cfg)
  return n


def installed_configs(cls, tier):
  bits = (1, 2, 4) if tier == "quick" else (1, 2, 3, 4, 8)
  for b_, i_, kn, sym in itertools.product(bits, (0, 1), (True, False),
                                           (0, 1)):
    for alpha in (None, F(2), "auto"):
      yield dict(bits=b_, integer=i_, keep_negative=kn, symmetric=sym,
                 alpha=alpha)


def rule_promoted_to_auto(rep, repo, mod, rule="R13"):
  """A quantizer built WITHOUT alpha and promoted to the data-dependent
  scale afterwards - by `_set_trainable_parameter()`, as every layer does
  with its kernel quantizer, or (quantized_linear, documented modifiable) by
  assigning `alpha` - scales along the axis it was configured with: forward
  value and recorded scale are those of the quantizer constructed with that
  alpha directly."""
  from ..qir import equal_mod_finite
  n = 0
  for cls, attr in (("quantized_bits", "scale"),
                    ("quantized_linear", "quantization_scale")):
    unit = "%s::%s.__init__" % (mod.relpath, cls)
    for axis_kw in (dict(scale_axis=0), dict()):
      steps = [("_set_trainable_parameter()", "auto_po2", True)]
      if cls == "quantized_linear":
        steps += [("q.alpha = 'auto'", "auto", None),
                  ("q.alpha = 'auto_po2'", "auto_po2", None)]
      for label, alpha, symmetric in steps:
        kw = dict(bits=4, integer=0, keep_negative=True, alpha=None,
                  **axis_kw)
        cfg = "%s(%s) then %s" % (cls, show_kw(kw), label)
        try:
          pe, obj = quant.construct(repo, cls, kw, x_shape=(4, 6))
          if label.startswith("_set"):
            pe.call(pe.getattr(obj, "_set_trainable_parameter"), [], {})
          else:
            pe.setattr(obj, "alpha", alpha)
          out = pe.call(obj, [pe.x_input()], {})
          kw2 = dict(kw, alpha=alpha)
          if symmetric is not None:
            kw2["symmetric"] = symmetric
          ref = quant.build(repo, cls, kw2, x_shape=(4, 6))
        except (PyRaise, ConfigRejected) as e:
          rep.extra.setdefault("promotion_skipped", {})[cfg] = str(e)[:100]
          continue
        fw = Fwd("infer", syms={"post_training_scale": NF.sym("pts")})
        s1, s2 = obj.attrs.get(attr), ref.obj.attrs.get(attr)
        if not isinstance(out, Tensor) or not isinstance(s1, Tensor) or \
            not isinstance(s2, Tensor):
          rep.extra.setdefault("promotion_skipped", {})[cfg] = "no scale"
          continue
        n += 1
        rep.unit(unit)
        f1, f2 = fw(out.term), fw(ref.term)
        n1, n2 = fw(s1.term), fw(s2.term)
        rep.check(equal_mod_finite(f1, f2) and equal_mod_finite(n1, n2),
                  rule, unit, "promoted-quantizer-differs",
                  "%s: the recorded scale is %s, a quantizer constructed "
                  "with alpha=%r directly records %s (forward values %s)" % (
                      cfg, show(n1, 160), alpha, show(n2, 160),
                      "agree" if equal_mod_finite(f1, f2) else "differ"),
                  loc=pe.loc_of(out.term), instance=cfg)
  return n


def run(rep, repo, tier):
  mod = repo.module(quant.QMOD)
  rep.trusted.append("semantics table of TF/Keras primitives; tf.while_loop "
                     "summarised by the join of its iterates")
  rep.assumptions.append("'auto' mapping the channel maximum to the top code "
                         "and power-of-two equivariance are numeric "
                         "clauses, not decided; finiteness is decided on "
                         "constant tensors (all-zero channel, +-1e-6, +-1, "
                         "+-1e6) by IEEE-style evaluation of the IR, not "
                         "for arbitrary tensors")
  n = 0
  for cls, kw in lattice(tier):
    if cls not in mod.classes:
      raise AnalysisError("anchor-missing class %s" % cls)
    cfg = "%s(%s)" % (cls, show_kw(kw))
    unit = "%s::%s.__call__" % (mod.relpath, cls)
    try:
      b = quant.build(repo, cls, kw)
    except ConfigRejected:
      continue
    n += 1
    rep.unit(unit)
    loc = b.pe.loc_of(b.term)
    fw = Fwd("infer", syms={"post_training_scale": NF.sym("pts")})
    f = fw(b.term)
    attr = "scale" if cls == "quantized_bits" else "quantization_scale"
    s = b.obj.attrs.get(attr)
    if not isinstance(s, Tensor):
      rep.fail("R1", unit, "no-data-dependent-scale-recorded",
               "self.%s after the call is %r, not the data-dependent scale" %
               (attr, s), loc=loc, instance=cfg)
      continue
    s_nf = fw(s.term)
    facts = {"config": cfg, "forward": show(f, 300), "scale": show(s_nf, 300)}
    if cls == "quantized_linear":
      # the three scales the class documents: scale = quantization_scale /
      # data_type_scale, data_type_scale = 2**(integer - bits + keep_negative)
      try:
        sc = b.pe.getattr(b.obj, "scale")
        dts = b.pe.getattr(b.obj, "data_type_scale")
      except PyRaise as e:
        sc = dts = None
        rep.fail("R8", unit, "scale-property-raises", "%s: %s" % (cfg, e),
                 loc=loc, instance=cfg)
      if sc is not None:
        sc_nf = fw(b.pe.as_term(sc))
        dts_nf = fw(b.pe.as_term(dts))
        want_dts = NF.const(F(2) ** (kw["integer"] - kw["bits"] + int(bool(
            kw["keep_negative"]))))
        rep.check(dts_nf == want_dts, "R8", unit, "data-type-scale",
                  "%s: data_type_scale is %s, documented 2**(integer - bits "
                  "+ keep_negative) = %s" % (cfg, show(dts_nf), show(
                      want_dts)), loc=loc, instance=cfg,
                  observed=show(dts_nf, 60))
        from ..qir import equal_mod_finite as _eq
        rep.check(_eq(sc_nf * dts_nf, s_nf), "R8", unit,
                  "exposed-scale!=quantization_scale/data_type_scale",
                  "%s: scale * data_type_scale = %s but the recorded "
                  "quantization_scale is %s" % (cfg, show(sc_nf * dts_nf,
                                                          160),
                                                show(s_nf, 160)), loc=loc,
                  instance=cfg)
    if s_nf.single_monomial() is None:
      rep.fail("R1", unit, "scale-not-a-factor",
               "recorded scale is not a single factor: %s" % show(s_nf, 200),
               loc=loc, instance=cfg, facts=facts)
      continue
    c = f * s_nf.inverse()
    s_atoms = set(s_nf.atoms(deep=False))
    top = set(c.atoms(deep=False))
    rep.check(not (top & s_atoms), "R1", unit, "output!=scale*code",
              "output / recorded scale still contains scale factors: %s" %
              show(c, 240), loc=loc, instance=cfg, facts=facts)
    bits, integer = kw["bits"], kw["integer"]
    kn = int(bool(kw["keep_negative"]))
    env = Env(syms={"pts": VS.real(F(1, 10**6), None)})
    got = Eval(env).nf(c)
    if cls == "quantized_bits":
      # 'auto*' forces the symmetric range: |k| <= 2**(bits-1) - 1, on the
      # fixed-point grid 2**integer / 2**(bits - keep_negative)
      step = F(2) ** integer / F(2) ** (bits - kn)
      kmax = 2 ** (bits - 1) - 1
      want = VS.grid(step, 0, -kmax * step, kmax * step)
    else:
      ub = bits - kn
      if bits == 1 and kn:
        want = VS.fin([F(-1, 2), F(1, 2)])
      else:
        lo = kn * (-(2 ** ub) + int(bool(kw["symmetric"])))
        want = VS.grid(1, 0, lo, 2 ** ub - 1)
    rep.check(got.subset_of(want), "R1", unit, "codes-out-of-range",
              "output / recorded scale has value set %r, expected inside %r "
              "(code = %s)" % (got, want, show(c, 200)), loc=loc,
              instance=cfg, facts=facts)
    if n % 17 == 1:
      rep.sample({"config": cfg, "code": show(c, 160),
                  "code_values": repr(got), "scale": show(s_nf, 200)})
    # R2
    if kw["alpha"] == "auto_po2" and "post_training_scale" not in kw:
      sv = Eval(env).nf(s_nf)
      ok = sv.kind == "po2" and sv.signs == frozenset([1])
      rep.check(ok, "R2", unit, "scale-not-power-of-two",
                "auto_po2 scale value set is %r, not a positive power-of-two "
                "set (scale = %s)" % (sv, show(s_nf, 200)), loc=loc,
                instance=cfg, facts=facts)
      mn, mx = kw.get("min_po2_exponent"), kw.get("max_po2_exponent")
      if ok and (mn is not None or mx is not None) and \
          cls == "quantized_bits":
        m = F(2) ** (bits - kn)
        inner = Eval(env).nf(s_nf * (1 / m))
        ok2 = inner.kind == "po2" and inner.exps.subset_of(
            VS.grid(1, 0, mn, mx))
        rep.check(ok2, "R2", unit, "scale-exponent-bounds",
                  "the clipped power-of-two scale has value set %r, outside "
                  "the configured exponent bounds [%s, %s]" % (inner, mn, mx),
                  loc=loc, instance=cfg, facts=facts)
    # R5 finiteness on constant tensors (the all-zero tensor is what an
    # all-zero channel looks like to the per-channel reductions): IEEE-style
    # evaluation of the IR with NaN / inf propagated as TensorFlow does
    for xv, what in CONST_INPUTS:
      for ph in ("infer", "train"):
        try:
          v = ConstEval(xv, ph, {"f": 1.0, "post_training_scale": 0.25})(
              b.term)
        except Inconclusive as e:
          rep.extra["finiteness_inconclusive"] = rep.extra.get(
              "finiteness_inconclusive", 0) + 1
          continue
        rep.check(finite(v), "R5", unit, "non-finite-output:" + what,
                  "%s: a tensor whose elements are all %s gives %r" %
                  (cfg, what, v), loc=loc, instance=cfg)
    # R3 detached scale / gradient
    segs = piecewise_derivative(b.term, syms={"post_training_scale":
                                              NF.sym("pts")})
    leaked = any(a[0] == "app" and a[1].startswith("d_reduce")
                 for _, _, d, _ in segs for a in d.atoms())
    rep.check(not leaked, "R3", unit, "scale-not-detached",
              "the gradient flows into the data-dependent scale (no "
              "stop_gradient on it)", loc=loc, instance=cfg, facts=facts)
  # R4 axes over ranks
  shapes = {2: (4, 6), 3: (4, 6, 8), 4: (2, 4, 6, 8)}
  for cls, alpha in (("quantized_bits", "auto"), ("quantized_bits",
                                                  "auto_po2"),
                     ("quantized_linear", "auto"),
                     ("quantized_linear", "auto_po2")):
    for rank, shp in shapes.items():
      for scale_axis in (None, 0):
        kw = dict(bits=4, integer=0, alpha=alpha, scale_axis=scale_axis)
        cfg = "%s(%s)@rank%d" % (cls, oracle.show_kwargs(kw), rank)
        unit = "%s::%s.__call__" % (mod.relpath, cls)
        try:
          b = quant.build(repo, cls, kw, x_shape=shp)
        except ConfigRejected:
          continue
        attr = "scale" if cls == "quantized_bits" else "quantization_scale"
        s = b.obj.attrs.get(attr)
        if not isinstance(s, Tensor):
          continue
        s_nf = Fwd("infer")(s.term)
        keep_axis = rank - 1 if scale_axis is None else scale_axis
        want_axes = tuple(i for i in range(rank) if i != keep_axis)
        reds = [a for a in s_nf.atoms() if a[0] == "app" and
                a[1].startswith("reduce_") and a[1] not in ("reduce_any",
                                                            "reduce_all")]
        bad = [a for a in reds if a[2] != (want_axes, True)]
        rep.check(bool(reds) and not bad, "R4", unit,
                  "scale-reduction-axes",
                  "rank %d, scale_axis=%s: reductions feeding the scale use "
                  "(axes, keepdims) %s, expected %s" %
                  (rank, scale_axis, sorted({a[2] for a in reds}),
                   (want_axes, True)), instance=cfg,
                  loc=b.pe.loc_of(b.term))
  rep.extra["configuration_points"] = n
  # R6 grouped scales (scale_axis / elements_per_scale), rule shared with C04
  from .c04 import rule_groups
  rule_groups(rep, repo, [
      ("quantized_bits", dict(bits=4, integer=0, alpha="auto")),
      ("quantized_bits", dict(bits=4, integer=0, alpha="auto_po2")),
      ("quantized_linear", dict(bits=4, integer=0, alpha="auto")),
      ("quantized_linear", dict(bits=4, integer=0, alpha="auto_po2"))],
              "R6", tier)
  n7 = rule_installed(rep, repo, ("quantized_bits", "quantized_linear"),
                      "R7", tier, installed_configs)
  if n7 < 40:
    raise AnalysisError("instance-count only %d installed-quantizer "
                        "configurations" % n7)
  from .c04 import rule_late_data_format
  n10 = rule_late_data_format(rep, repo, [
      ("quantized_bits", dict(bits=4, integer=1, alpha="auto")),
      ("quantized_bits", dict(bits=4, integer=1, alpha="auto_po2")),
      ("quantized_linear", dict(bits=4, integer=1, alpha="auto")),
      ("quantized_linear", dict(bits=4, integer=1, alpha="auto_po2"))],
                              "R10")
  if n10 < 8:
    raise AnalysisError("instance-count only %d data-format scenarios" % n10)
  from .c04 import rule_default_axes
  n11 = rule_default_axes(rep, repo, [
      ("quantized_bits", dict(bits=4, integer=1, alpha="auto")),
      ("quantized_bits", dict(bits=4, integer=1, alpha="auto_po2")),
      ("quantized_bits", dict(bits=4, integer=1, alpha="auto",
                              use_stochastic_rounding=True)),
      ("quantized_bits", dict(bits=1, integer=0, alpha="auto")),
      ("quantized_linear", dict(bits=4, integer=1, alpha="auto")),
      ("quantized_linear", dict(bits=4, integer=1, alpha="auto_po2"))],
                            "R11")
  if n11 < 30:
    raise AnalysisError("instance-count only %d per-channel axis points" %
                        n11)
  # a frozen post-training scale keeps its per-channel layout through the
  # configuration (shared with C09 R9)
  from .c09 import rule_array_layout
  if rule_array_layout(rep, repo, repo.module(quant.QMOD), rule="R12") < 4:
    raise AnalysisError("instance-count frozen-scale layouts")
  from .c04 import rule_call_is_pure
  n9 = rule_call_is_pure(rep, repo, [
      ("quantized_bits", dict(bits=4, integer=1, alpha="auto")),
      ("quantized_bits", dict(bits=4, integer=1, alpha="auto_po2")),
      ("quantized_bits", dict(bits=4, integer=1, alpha=None)),
      ("quantized_bits", dict(bits=1, integer=0, alpha="auto")),
      ("quantized_linear", dict(bits=4, integer=1, alpha="auto")),
      ("quantized_linear", dict(bits=4, integer=1, alpha="auto_po2")),
      ("quantized_linear", dict(bits=4, integer=1, alpha=None))], "R9", tier)
  if n9 < 12:
    raise AnalysisError("instance-count only %d call-purity configurations"
                        % n9)
  if rule_promoted_to_auto(rep, repo, mod) < 6:
    raise AnalysisError("instance-count promoted quantizers: %r" %
                        rep.extra.get("promotion_skipped"))
  rep.require_instances("R8", 60)
  rep.require_instances("R6", 40)
  rep.require_instances("R1", 100)
  rep.require_instances("R2", 30)
  rep.require_instances("R3", 60)
  rep.require_instances("R4", 20)
  rep.require_instances("R5", 500)

  # R20: construction history (shared with C09 R10): every option
  # alternative of these classes is built and used first in ONE interpreter;
  # each configuration then computes / prints / rebuilds what it does alone
  from . import c09 as _c09
  from .. import qref as _qref
  if _c09.rule_construction_history(
      rep, repo, repo.module(quant.QMOD), ('quantized_bits', 'quantized_linear'), "R20") < 5:
    raise AnalysisError("instance-count construction histories")
