"""C02 - fixed-point quantization is the nearest-code projection.

On each half line (x <= 0, x >= 0), with clips that are saturated on the
whole half line folded to their constant:
R1 exactly one live rounding node, and it rounds to nearest
   (round, or floor(u + 1/2)); two-valued formats: sign orientation.
R2 erase-rounding identity: with the rounding node replaced by its argument
   the forward value equals clip(surrogate(x), min code, max code) as a
   function (piecewise-affine comparison, or normal-form identity for
   tanh/sigmoid).
R3 the product of constants applied after the rounding is the format step.
R4 every clip between the rounding and the output (or directly under an
   integer rounding) has both bounds on the grid of its operand.
R5 the forward value is monotone non-decreasing (polarity analysis).
R1-R4 give |q(x) - a(x)| <= step/2 inside the range and the nearest end code
outside, for every input at once.
"""
from fractions import Fraction as F

from ..loader import AnalysisError
from ..pe import ConfigRejected
from .. import oracle, quant, pwa
from ..qir import Fwd, Eval, Env, mk_app, simplify_app, value_set
from ..nf import NF, show
from ..vset import VS
from .. import vset as V

TECHNIQUE = ("Normal-form rewriting (erase the single rounding node) and "
             "piecewise-affine function comparison with the documented "
             "surrogate on each half line; grid analysis of clip bounds; "
             "polarity analysis for monotonicity.")

ROUNDS = ("round", "floor", "ceil")


def deep_atoms(nf):
  return [a for a in nf.atoms() if a[0] == "app"]


def reduce_saturated(nf, ev):
  """Fold clip atoms that are constant on the region."""
  mapping = {}
  for a in deep_atoms(nf):
    if a[1] in ("clip", "relu", "where", "maximum", "minimum"):
      v = ev.atom(a)
      c = v.const_value()
      if c is not None:
        mapping[a] = NF.const(c)
  return nf.subst(mapping, simplify_app) if mapping else nf


def erase_clips_on(nf, dep_atom):
  mapping = {}
  for a in deep_atoms(nf):
    if a[1] == "clip" and a[3][0].depends_on(dep_atom):
      mapping[a] = a[3][0]
  # innermost-first repeated substitution
  cur = nf
  for _ in range(6):
    nxt = cur.subst(mapping, simplify_app)
    if nxt == cur:
      break
    cur = nxt
    mapping = {}
    for a in deep_atoms(cur):
      if a[1] == "clip" and a[3][0].depends_on(dep_atom):
        mapping[a] = a[3][0]
    if not mapping:
      break
  return cur


def x_nf():
  return NF.x()


def hard_sigmoid_nf(mode="hard"):
  """The library's internal sigmoid for the mode chosen with
  set_internal_sigmoid (documented forms)."""
  if mode == "smooth":
    return mk_app("clip", [NF.x() * F(3, 16) + F(1, 2), NF.const(0),
                           NF.const(1)])
  if mode == "real":
    return mk_app("sigmoid", [NF.x()])
  return mk_app("clip", [NF.x() * F(1, 2) + F(1, 2), NF.const(0),
                         NF.const(1)])


def reference(cls, kw, mode="hard"):
  """(reference NF = clip(surrogate, min code, max code), step between
  adjacent codes) or None when the class/config is outside C02."""
  if cls in ("quantized_bits", "quantized_linear"):
    fn = oracle.codes_quantized_bits if cls == "quantized_bits" else \
        oracle.codes_quantized_linear
    s, _ = fn(kw["bits"], kw["integer"], kw["keep_negative"],
              kw["symmetric"], kw["alpha"])
    lo, hi = s.bounds()
    if s.kind == "fin" and len(s.vals) == 2:
      step = hi - lo
    else:
      step = s.as_grid().g
    return mk_app("clip", [NF.x(), NF.const(lo), NF.const(hi)]), step, s
  if cls == "quantized_relu":
    if kw.get("use_sigmoid"):
      return None
    s, _ = oracle.codes_quantized_relu(kw["bits"], kw["integer"],
                                       kw["negative_slope"])
    slope = F(kw["negative_slope"])
    nsb = kw["bits"] - int(slope != 0)
    step = oracle.p2(kw["integer"]) / oracle.p2(nsb)
    hi = (2 ** nsb - 1) * step
    lo = -slope * oracle.p2(kw["integer"])
    return mk_app("clip", [mk_app("relu", [NF.x()], (slope,)),
                           NF.const(lo), NF.const(hi)]), step, s
  if cls == "quantized_tanh":
    s, _ = oracle.codes_quantized_tanh(kw["bits"], kw["symmetric"])
    lo, hi = s.bounds()
    a = mk_app("tanh", [NF.x()]) if kw.get("use_real_tanh") else \
        hard_sigmoid_nf(mode) * 2 - 1
    return mk_app("clip", [a, NF.const(lo), NF.const(hi)]), \
        1 / oracle.p2(kw["bits"] - 1), s
  if cls == "quantized_sigmoid":
    s, _ = oracle.codes_quantized_sigmoid(kw["bits"], kw["symmetric"])
    lo, hi = s.bounds()
    a = mk_app("sigmoid", [NF.x()]) if kw.get("use_real_sigmoid") else \
        hard_sigmoid_nf(mode)
    return mk_app("clip", [a, NF.const(lo), NF.const(hi)]), \
        1 / oracle.p2(kw["bits"]), s
  return None


def same_function(e, ref, lo, hi):
  """None when e == ref on (lo, hi), else a diagnosis string."""
  try:
    pe_ = pwa.pwa(e, lo, hi)
    pr = pwa.pwa(ref, lo, hi)
  except pwa.NotAffine:
    if e == ref:
      return None
    return "normal forms differ: %s  vs  %s" % (show(e, 200), show(ref, 200))
  return pwa.pwa_equal(pe_, pr)


def check_region(rep, cfg, unit, f, ref, step, codes, lo, hi, loc):
  xs = 1 if lo is not None and lo >= 0 else (-1 if hi is not None and hi <= 0
                                             else None)
  env = Env(x=VS.real(lo, hi), xsign=xs)
  ev = Eval(env)
  region = "x>=0" if xs == 1 else "x<=0"
  fr = reduce_saturated(f, ev)
  rounds = [a for a in deep_atoms(fr) if a[1] in ROUNDS]
  facts = {"config": cfg, "region": region, "forward": show(f, 400),
           "reduced": show(fr, 400)}
  if not rounds:
    # two-valued / constant on the half line: must be the nearest end code,
    # i.e. equal to the reference there (which is then constant as well)
    vs = Eval(Env(x=VS.real(lo, hi), xsign=xs)).nf(fr)
    if codes.kind == "fin" and len(codes.vals) == 2:
      want = max(codes.vals) if xs == 1 else min(codes.vals)
      rep.check(vs.const_value() == want, "R1", unit,
                "two-valued:wrong-sign-orientation",
                "on %s the output set is %r, expected the code %s" %
                (region, vs, want), loc=loc, instance=cfg, facts=facts)
      return
    d = same_function(fr, ref, lo, hi)
    rep.check(d is None, "R2", unit, "no-rounding:differs-from-surrogate",
              "no rounding on %s and the value differs from the clipped "
              "surrogate: %s" % (region, d), loc=loc, instance=cfg,
              facts=facts)
    return
  if len(rounds) != 1:
    rep.fail("R1", unit, "rounding-count=%d" % len(rounds),
             "%d live rounding nodes on %s (a nearest-code projection has "
             "exactly one): %s" % (len(rounds), region, show(fr, 300)),
             loc=loc, instance=cfg, facts=facts)
    return
  R = rounds[0]
  u = R[3][0]
  if R[1] == "round":
    nearest_arg = u
  elif R[1] == "floor" and (u - F(1, 2)).atoms() == u.atoms():
    # floor(v + 1/2) is round-half-up of v
    nearest_arg = u - F(1, 2)
  else:
    nearest_arg = None
  if nearest_arg is None or any(a[1] in ROUNDS for a in deep_atoms(u)):
    rep.fail("R1", unit, "rounding-mode:" + R[1],
             "the live rounding on %s is %s, not round-to-nearest" %
             (region, R[1]), loc=loc, instance=cfg, facts=facts)
    return
  rep.ok("R1")
  # R3: coefficient of the rounding node after erasing clips
  r_sym = NF.sym("__r__")
  f_r = fr.subst({R: r_sym}, simplify_app)
  f_r = erase_clips_on(f_r, ("sym", "__r__"))
  coeff = None
  rest_ok = True
  for m, c in f_r.terms.items():
    names = [a for a, e in m if a == ("sym", "__r__")]
    if names:
      if m == ((("sym", "__r__"), 1),):
        coeff = c
      else:
        rest_ok = False
    elif NF({m: c}).depends_on(("sym", "__r__")):
      rest_ok = False
  if not rest_ok or coeff is None:
    rep.fail("R3", unit, "not-affine-in-rounding",
             "forward value is not c*round(.)+rest after erasing clips: %s" %
             show(f_r, 300), loc=loc, instance=cfg, facts=facts)
  else:
    rep.check(coeff == step, "R3", unit, "post-scale!=step",
              "constant applied after the rounding is %s, the format step is "
              "%s" % (coeff, step), loc=loc, instance=cfg, facts=facts)
  # R2: erase rounding, compare with the clipped surrogate on the region
  e = fr.subst({R: nearest_arg}, simplify_app)
  d = same_function(e, ref, lo, hi)
  if d is None:
    rep.ok("R2")
  else:
    construct = "erased-rounding!=surrogate"
    alpha = None
    try:
      # diagnose the legacy "output scaled by alpha" behaviour
      for a in (F(2), F(1, 4), F(1, 2), F(4)):
        scaled = ref.subst({("x",): NF.x() * a}, simplify_app)
        if same_function(e, scaled, lo, hi) is None:
          alpha = a
      if alpha is not None:
        construct = "quantizes-alpha*x-instead-of-x"
    except Exception:  # pylint: disable=broad-except
      pass
    rep.fail("R2", unit, construct,
             "with the rounding erased the value on %s is %s, which differs "
             "from the clipped surrogate %s: %s" %
             (region, show(e, 200), show(ref, 200), d), loc=loc,
             instance=cfg, facts=facts)
  # R4: clips around / under the rounding land on the operand's grid
  for a in deep_atoms(fr):
    if a[1] != "clip":
      continue
    arg, blo, bhi = a[3]
    if arg.depends_on(R):
      g = ev.nf(arg).as_grid()
      for name, b in (("lo", blo), ("hi", bhi)):
        if b is None:
          continue
        c = b.const_value()
        if c is None:
          rep.fail("R4", unit, "clip-bound-not-constant",
                   "clip bound %s is not a constant" % show(b, 80), loc=loc,
                   instance=cfg, facts=facts)
          continue
        on = True
        if g.g:
          on = ((c - g.o) / g.g).denominator == 1
        elif g.g is None:
          on = True
        else:
          on = False
        rep.check(on, "R4", unit, "clip-after-round:bound-off-grid",
                  "clip bound %s=%s is not on the grid {%s + %s*k} of the "
                  "rounded operand, so saturation does not pick a code" %
                  (name, c, g.o, g.g), loc=loc, instance=cfg, facts=facts)
    elif u.depends_on(a):
      # clip directly under the rounding: at both bounds the rounding
      # argument must be an integer
      for name, b in (("lo", blo), ("hi", bhi)):
        if b is None:
          continue
        at = nearest_arg.subst({a: b}, simplify_app)
        c = at.const_value()
        rep.check(c is not None and c.denominator == 1, "R4", unit,
                  "clip-before-round:bound-not-integer",
                  "rounding argument at the clip bound %s is %s, not an "
                  "integer" % (name, show(at, 80)), loc=loc, instance=cfg,
                  facts=facts)


def run(rep, repo, tier):
  mod = repo.module(quant.QMOD)
  rep.trusted.append("semantics table of TF/Keras primitives "
                     "(qkstat/prims.py); exact real arithmetic")
  rep.assumptions.append("ties may go either way; float32 effects at "
                         "breakpoints (+-1 ulp) are not modelled")
  n = 0
  points = []
  for cls, kw, codes, txt, bits in oracle.lattice_fixed_point(tier):
    points.append((cls, kw, "hard"))
    # the approximated sigmoid is module state (set_internal_sigmoid): the
    # quantizers built on it must follow the selected form
    if (cls == "quantized_tanh" and not kw.get("use_real_tanh")) or (
        cls == "quantized_sigmoid" and not kw.get("use_real_sigmoid")):
      points.append((cls, kw, "smooth"))
      points.append((cls, kw, "real"))
      # ... also when it is selected after the quantizer was constructed
      points.append((cls, kw, "smooth/late"))
  for cls, kw, mode in points:
    late = mode.endswith("/late")
    mode = mode.split("/")[0]
    r = reference(cls, kw, mode)
    if r is None:
      continue
    ref, step, codes = r
    cfg = "%s(%s)" % (cls, oracle.show_kwargs(kw))
    if mode != "hard":
      cfg += (" then set_internal_sigmoid(%r)" if late else
              " after set_internal_sigmoid(%r)") % mode
    unit = "%s::%s.__call__" % (mod.relpath, cls)
    rep.unit(unit)
    try:
      hook = None if mode == "hard" else quant.sigmoid_mode(mode)
      b = quant.build(repo, cls, kw, setup=None if late else hook,
                      after_construction=hook if late else None)
    except ConfigRejected:
      continue
    n += 1
    f = b.fwd("infer")
    loc = b.pe.loc_of(b.term)
    for lo, hi in ((None, F(0)), (F(0), None)):
      check_region(rep, cfg, unit, f, ref, step, codes, lo, hi, loc)
    # the point between the half lines: an input element that is exactly 0
    # (sign(0) = 0) still maps to a code within half a step of a(0)
    if cls in ("quantized_bits", "quantized_linear", "quantized_relu"):
      at0 = Eval(Env(x=VS.const(F(0)), xsign=0)).nf(f)
      v0 = at0.const_value()
      r0 = Eval(Env(x=VS.const(F(0)), xsign=0)).nf(ref).const_value()
      ok0 = v0 is not None and r0 is not None and codes.contains_value(
          v0) and abs(v0 - r0) <= step / 2
      rep.check(ok0, "R2", unit, "zero-input-off-the-code-set",
                "an input of exactly 0 gives %r (reference %r); expected a "
                "code of %r within half a step (%s)" % (at0, r0, codes,
                                                        step / 2),
                loc=loc, instance=cfg)
    # R5 monotone on the whole line, else per half line + ordering
    ev = Eval(Env())
    p = pwa.polarity(f, ev)
    if p in ("+", "0"):
      rep.ok("R5")
    else:
      evn = Eval(Env(x=VS.real(None, F(0)), xsign=-1))
      evp = Eval(Env(x=VS.real(F(0), None), xsign=1))
      fn = reduce_saturated(f, evn)
      fp = reduce_saturated(f, evp)
      # fold sign(x) on the half lines
      def fold(g, e):
        mp = {}
        for a in deep_atoms(g):
          if a[1] in ("sign", "abs", "cmp"):
            c = e.atom(a).const_value()
            if c is not None:
              mp[a] = NF.const(c)
        return g.subst(mp, simplify_app) if mp else g
      fn, fp = fold(fn, evn), fold(fp, evp)
      pn, pp = pwa.polarity(fn, evn), pwa.polarity(fp, evp)
      vn, vp = evn.nf(fn), evp.nf(fp)
      v0 = Eval(Env(x=VS.const(0), xsign=0)).nf(f)
      order = (vn.bounds()[1] is not None and v0.bounds()[0] is not None and
               vn.bounds()[1] <= v0.bounds()[0] and
               v0.bounds()[1] is not None and vp.bounds()[0] is not None and
               v0.bounds()[1] <= vp.bounds()[0])
      rep.check(pn in ("+", "0") and pp in ("+", "0") and order, "R5", unit,
                "not-monotone",
                "forward value is not provably non-decreasing: polarity %s "
                "on x<0, %s on x>0, value sets %r / %r / %r; %s" %
                (pn, pp, vn, v0, vp, show(f, 300)), loc=loc, instance=cfg,
                facts={"config": cfg})
    if n % 131 == 1:
      rep.sample({"config": cfg, "forward_nf": show(f, 200),
                  "reference": show(ref, 200), "step": str(step)})
  rep.extra["configuration_points"] = n
  rep.require_instances("R1", 800)
  rep.require_instances("R2", 800)
  # a quantizer configured with noise factor 1 keeps projecting onto its
  # grid whatever happens to the factor of ANOTHER quantizer (shared with
  # C07 R2)
  from .c07 import rule_variable_isolation
  if rule_variable_isolation(rep, repo, rule="R6") < 6:
    raise AnalysisError("instance-count variable-isolation pairs")

  rep.require_instances("R5", 400)

  # R20: construction history (shared with C09 R10): every option
  # alternative of these classes is built and used first in ONE interpreter;
  # each configuration then computes / prints / rebuilds what it does alone
  from . import c09 as _c09
  from .. import qref as _qref
  if _c09.rule_construction_history(
      rep, repo, repo.module(quant.QMOD), ('quantized_bits', 'quantized_relu', 'quantized_linear', 'quantized_tanh', 'quantized_sigmoid', 'quantized_hswish'), "R20") < 5:
    raise AnalysisError("instance-count construction histories")
