"""C11 - quantized layers are drop-ins for their Keras layer.

Each layer's call() is partially evaluated on an object whose weights are
symbols, whose quantizers are opaque functions Q_role and whose geometry
attributes carry distinct tags; backend operations stay uninterpreted.  The
resulting term is inspected structurally.

R1 weight <-> quantizer pairing: every weight reaches the computation only
   as Q_role(weight) when its quantizer is configured and raw otherwise;
   every weight is used.
R2 order: the activation quantizer is applied last, to a value that already
   contains the (quantized) bias.
R3 geometry forwarding: the backend convolution receives strides, padding,
   dilation_rate and data_format bound to the layer's own attributes.
R4 no dead constructor option: every named __init__ parameter is read in
   __init__.
R5 reported = applied, in weight order: get_quantizers() returns the
   quantizers that call() applies to the weights, in the Keras weight order.
"""
import ast
import itertools
from fractions import Fraction as F

from ..loader import AnalysisError
from ..pe import PE, Mock, Obj, PyRaise, Tensor, Fork, Func, Unsupported
from ..nf import show

TECHNIQUE = ("Partial evaluation of each layer's call() with symbolic "
             "weights, opaque quantizers and tagged geometry; structural "
             "inspection of the resulting term (enclosing-quantizer of every "
             "weight leaf, operator attributes); AST rule for dead options.")


def W(name):
  return Tensor(("sym", name), (3, 3, 4, 8))


def qm(role):
  return Mock("q_" + role, {
      "__str__": lambda pe, a, k, role=role: "Q:" + role,
      # a quantizer handed None (an absent bias) yields a value that must
      # not be used: it stays None, so any use raises in the interpreter
      "__call__": lambda pe, a, k, role=role: None if a[0] is None else \
      Tensor(("app", "Q_" + role, (), (pe.as_term(a[0]),)),
             a[0].shape if isinstance(a[0], Tensor) else None),
      "__class__": Mock("class", {"__name__": "quantized_bits"})})


GEOM2 = dict(strides=(3, 4), padding="same", data_format="channels_last",
             dilation_rate=(5, 6), kernel_size=(3, 3), filters=8,
             output_padding=None, groups=1, depth_multiplier=1)
GEOM1 = dict(strides=(3,), padding="same", data_format="channels_last",
             dilation_rate=(5,), kernel_size=(3,), filters=8, groups=1)

# class -> (weights {attr: role}, quantizer order (weight order), geometry,
#           backend op name, expected op attributes)
SPECS = {
    "qkeras.qlayers.QDense": dict(
        weights={"kernel": "kernel", "bias": "bias"},
        order=["kernel", "bias"], geom={}, op=None, expect={}),
    "qkeras.qconvolutional.QConv1D": dict(
        weights={"kernel": "kernel", "bias": "bias"},
        order=["kernel", "bias"], geom=GEOM1, op="K.conv1d",
        expect=dict(strides=3, padding="same",
                    data_format="channels_last", dilation_rate=5)),
    "qkeras.qconvolutional.QConv2D": dict(
        weights={"kernel": "kernel", "bias": "bias"},
        order=["kernel", "bias"], geom=dict(GEOM2, _mask=None), op=None,
        expect={}),
    "qkeras.qconvolutional.QConv2DTranspose": dict(
        weights={"kernel": "kernel", "bias": "bias"},
        order=["kernel", "bias"], geom=GEOM2, op="K.conv2d_transpose",
        expect=dict(strides=(3, 4), padding="same",
                    data_format="channels_last", dilation_rate=(5, 6))),
    "qkeras.qconvolutional.QSeparableConv1D": dict(
        weights={"depthwise_kernel": "depthwise",
                 "pointwise_kernel": "pointwise", "bias": "bias"},
        order=["depthwise", "pointwise", "bias"], geom=GEOM1,
        op="K.separable_conv2d",
        expect=dict(strides=(3, 3), padding="same",
                    data_format="channels_last", dilation_rate=(1, 5))),
    "qkeras.qconvolutional.QSeparableConv2D": dict(
        weights={"depthwise_kernel": "depthwise",
                 "pointwise_kernel": "pointwise", "bias": "bias"},
        order=["depthwise", "pointwise", "bias"], geom=GEOM2,
        op="K.separable_conv2d",
        expect=dict(strides=(3, 4), padding="same",
                    data_format="channels_last", dilation_rate=(5, 6))),
    "qkeras.qconvolutional.QDepthwiseConv2D": dict(
        weights={"depthwise_kernel": "depthwise", "bias": "bias"},
        order=["depthwise", "bias"], geom=GEOM2, op="K.depthwise_conv2d",
        expect=dict(strides=(3, 4), padding="same",
                    data_format="channels_last", dilation_rate=(5, 6))),
    "qkeras.qrecurrent.QSimpleRNNCell": dict(
        weights={"kernel": "kernel", "recurrent_kernel": "recurrent",
                 "bias": "bias"},
        order=["kernel", "recurrent", "bias", "state"], geom={}, op=None,
        expect={}, rnn=True),
    "qkeras.qrecurrent.QLSTMCell": dict(
        weights={"kernel": "kernel", "recurrent_kernel": "recurrent",
                 "bias": "bias"},
        order=["kernel", "recurrent", "bias", "state"], geom={}, op=None,
        expect={}, rnn=True, lstm=True),
    "qkeras.qrecurrent.QGRUCell": dict(
        weights={"kernel": "kernel", "recurrent_kernel": "recurrent",
                 "bias": "bias"},
        order=["kernel", "recurrent", "bias", "state"], geom={}, op=None,
        expect={}, rnn=True),
    "qkeras.qmac.QScaleShift": dict(
        weights={"weight": "weight", "bias": "bias"},
        order=["weight", "bias"], geom={}, op=None, expect={}),
}


def all_roles(spec):
  r = set(spec["weights"].values())
  if spec.get("rnn"):
    r.add("state")
  return r


def _qattr(role):
  return {"depthwise": "depthwise_quantizer",
          "pointwise": "pointwise_quantizer"}.get(role, role + "_quantizer")


def construct(ci, spec, quantized, pe):
  """The layer object as its own __init__ leaves it (so that attributes the
  constructor derives or caches are present), with the Keras base
  constructor replaced by its documented effect (it stores its keyword
  arguments) and get_quantizer() returning tagged quantizer stand-ins."""
  def getq(pe_, a, k):
    v = a[0] if a else k.get("quantizer")
    if isinstance(v, str) and v.startswith("Q:"):
      return qm(v[2:])
    return v

  def base_init(pe_, a, k):
    me = pe_.external_super_self
    for kk, vv in k.items():
      me.attrs.setdefault(kk, vv)
  ov = {"get_quantizer": getq,
        "get_auto_range_constraint_initializer":
            lambda pe_, a, k: (a[1], a[2])}
  saved = (pe.module_overrides, getattr(pe, "ext_overrides", None))
  pe.module_overrides = dict(pe.module_overrides)
  for m in (ci.module.name, "qkeras.qlayers"):
    d = dict(pe.module_overrides.get(m, {}))
    d.update(ov)
    pe.module_overrides[m] = d
  pe.globals_cache = {} if hasattr(pe, "globals_cache") else None
  eo = dict(saved[1] or {})
  eo["<external-super>.__init__"] = base_init
  pe.ext_overrides = eo
  params = [p for p, _ in ci.init_params()[0]]
  kw = {}
  for p in params:
    if p.endswith("_quantizer"):
      role = p[:-len("_quantizer")]
      kw[p] = ("Q:" + role) if role in quantized else None
  if "activation" in params:
    kw["activation"] = "Q:act"
  if "recurrent_activation" in params:
    kw["recurrent_activation"] = "Q:ract"
  if "units" in params:
    kw["units"] = 4
  for g, v in spec["geom"].items():
    if g in params and not g.startswith("_"):
      kw[g] = v
  if "filters" in params:
    kw.setdefault("filters", 8)
  if "kernel_size" in params:
    kw.setdefault("kernel_size", (3, 3))
  try:
    return pe.call(pe.lookup_global(ci.name, ci.module), [], kw)
  finally:
    pe.ext_overrides = eo


def make_layer(ci, spec, quantized, pe):
  """quantized: True (every quantizer set), False (none) or the set of
  roles whose quantizer is set."""
  if quantized is True:
    quantized = all_roles(spec)
  elif quantized is False:
    quantized = set()
  o = construct(ci, spec, quantized, pe)
  a = o.attrs
  for attr, role in spec["weights"].items():
    a[attr] = W(attr)
    qattr = _qattr(role)
    if role in quantized:
      a[qattr] = "quantized_bits(4)"
      if not isinstance(a.get(qattr + "_internal"), Mock):
        a[qattr + "_internal"] = qm(role)
    else:
      a[qattr] = None
      a[qattr + "_internal"] = None
  if spec.get("rnn"):
    if "state" in quantized:
      a["state_quantizer"] = "quantized_bits(4)"
      if not isinstance(a.get("state_quantizer_internal"), Mock):
        a["state_quantizer_internal"] = qm("state")
    else:
      a["state_quantizer"] = None
      a["state_quantizer_internal"] = None
    a["units"] = 4
    a["use_bias"] = not spec.get("nobias")
    a["dropout"] = 0.0
    a["recurrent_dropout"] = 0.0
    a.setdefault("implementation", 1)
    a.setdefault("reset_after", False)
    a["recurrent_activation"] = qm("ract")
    a["get_dropout_mask_for_cell"] = lambda pe, ar, k: None
    a["get_recurrent_dropout_mask_for_cell"] = lambda pe, ar, k: None
  a["use_bias"] = not spec.get("nobias")
  if spec.get("nobias"):
    a["bias"] = None      # Keras' build() leaves self.bias = None
  a["activation"] = None if spec.get("noact") else qm("act")
  a.update(spec["geom"])
  # the stock layer's convolution_op uses the geometry of the layer it is
  # bound to: the stand-in records which layer that is
  tag = spec.get("tag", "this layer")
  a["convolution_op"] = lambda pe, ar, k, tag=tag: Tensor(
      ("app", "convolution_op", (("bound_to", tag),),
       tuple(pe.as_term(x) for x in ar)), None)
  # (the class's own `_jit_compiled_convolution_op` is interpreted)
  a["compute_output_shape"] = lambda pe, ar, k: None
  a["_compute_causal_padding"] = lambda pe, ar, k: [[0, 0], [2, 0], [0, 0]]
  # the applied quantizers in the weight order of the spec
  a["__applied__"] = [a.get(_qattr(r) + "_internal") if r != "state"
                      else a.get("state_quantizer_internal")
                      for r in spec["order"]]
  return o


def leaves_with_parent(term):
  """[(symbol name, name of the nearest enclosing application)]"""
  out = []
  seen = set()

  def walk(t, parent):
    key = (id(t), parent)
    if key in seen:
      return
    seen.add(key)
    if not isinstance(t, tuple) or not t:
      return
    if t[0] == "sym":
      out.append((t[1], parent))
      return
    if t[0] == "app":
      # shape-only operations do not touch values: the enclosing
      # application stays the one above them
      shape_only = t[1] in ("expand_dims", "reshape", "tile", "repeat")
      for s in t[3]:
        walk(s, parent if shape_only else t[1])
      return
    for s in t[1:]:
      if isinstance(s, tuple):
        walk(s, parent)
  walk(term, None)
  return out


def find_apps(term, name):
  out = []
  seen = set()

  def walk(t):
    if id(t) in seen or not isinstance(t, tuple) or not t:
      return
    seen.add(id(t))
    if t[0] == "app":
      if t[1] == name:
        out.append(t)
      for s in t[3]:
        walk(s)
      return
    for s in t[1:]:
      if isinstance(s, tuple):
        walk(s)
  walk(term)
  return out


def contains_sym(term, name):
  return any(n == name for n, _ in leaves_with_parent(term))


def eval_call(repo, ci, spec, quantized):
  pe = PE(repo)
  pe.opaque_ext = True
  pe.fork = Fork([])
  pe.ext_overrides = {
      "tf.python.eager.context.executing_eagerly": lambda pe, a, k: True,
      "tf.python.util.nest.is_nested": lambda pe, a, k: isinstance(
          a[0], (list, tuple)),
      "tf.nest.is_nested": lambda pe, a, k: isinstance(a[0], (list, tuple)),
  }
  o = make_layer(ci, spec, quantized, pe)
  owner, fn = ci.find_method("call")
  if fn is None:
    raise AnalysisError("anchor-missing method %s.call" % ci.name)
  x = Tensor(("sym", "inputs"), (2, 8, 8, 4))
  if spec.get("rnn"):
    h = Tensor(("sym", "h_prev"), (2, 4))
    states = [h, Tensor(("sym", "c_prev"), (2, 4))] if spec.get("lstm") \
        else [h]
    r = pe.call_func(Func(fn, owner.module, [], "call", o, owner),
                     [Tensor(("sym", "inputs"), (2, 4)), states], {})
    out = r[0] if isinstance(r, (tuple, list)) else r
  else:
    out = pe.call_func(Func(fn, owner.module, [], "call", o, owner), [x], {})
  # a second call after the layer's quantizers were retuned in place (as a
  # bit-width search or a noise schedule does): nothing quantized during the
  # first call may be reused
  o.attrs["__second_call__"] = None
  try:
    retuned = 0
    seen = set()
    for v in list(o.attrs.values()) + [q for q in (o.attrs.get(
        "quantizers") or []) if q is not None]:
      if isinstance(v, Mock) and v.name.startswith("q_") and id(v) not in \
          seen:
        seen.add(id(v))
        role = v.name[2:]
        v.attrs["__call__"] = (lambda pe_, a, k, role=role: None if a[0] is
                               None else Tensor(
                                   ("app", "Q2_" + role, (),
                                    (pe_.as_term(a[0]),)),
                                   a[0].shape if isinstance(a[0], Tensor)
                                   else None))
        retuned += 1
    if retuned:
      if spec.get("rnn"):
        r2 = pe.call_func(Func(fn, owner.module, [], "call", o, owner),
                          [Tensor(("sym", "inputs"), (2, 4)), states], {})
        out2 = r2[0] if isinstance(r2, (tuple, list)) else r2
      else:
        out2 = pe.call_func(Func(fn, owner.module, [], "call", o, owner),
                            [x], {})
      o.attrs["__second_call__"] = out2
  except PyRaise as e:
    o.attrs["__second_call__"] = e
  return pe, o, out, owner, fn


def keras_length(n, k, padding, out_pad, stride, dilation):
  """Keras' conv_utils.deconv_output_length (trusted reference)."""
  k = k + (k - 1) * (dilation - 1)
  if out_pad is None:
    if padding == "valid":
      return n * stride + max(k - stride, 0)
    if padding == "full":
      return n * stride - (stride + k - 2)
    return n * stride
  pad = {"same": k // 2, "valid": 0, "full": k - 1}[padding]
  return (n - 1) * stride + k - 2 * pad + out_pad


def variants():
  """Layer specs, plus option variants that select other branches of
  call()."""
  out = []
  for qual, spec in sorted(SPECS.items()):
    out.append((qual, spec, ""))
    if qual.endswith(".QConv2D"):
      g2 = dict(spec, geom=dict(spec["geom"], groups=2))
      out.append((qual, g2, "groups=2"))
      mk = dict(spec, geom=dict(spec["geom"], _mask=W("mask")))
      out.append((qual, mk, "masked"))
      both = dict(spec, geom=dict(spec["geom"], groups=2, _mask=W("mask")))
      out.append((qual, both, "groups=2,masked"))
    if qual.endswith(".QConv2DTranspose"):
      # an explicit output padding - all zero, or not - is not the inferred
      # one
      for op_ in ((0, 0), (1, 2)):
        out.append((qual, dict(spec, geom=dict(spec["geom"],
                                               output_padding=op_)),
                    "output_padding=%r" % (op_,)))
    if qual.endswith(".QConv1D"):
      cz = dict(spec, geom=dict(spec["geom"], padding="causal"),
                expect=dict(spec["expect"], padding="causal"))
      out.append((qual, cz, "causal"))
    if qual.endswith(".QGRUCell"):
      ra = dict(spec, geom=dict(reset_after=True))
      out.append((qual, ra, "reset_after"))
    if spec.get("rnn"):
      i2 = dict(spec, geom=dict(spec.get("geom", {}), implementation=2))
      out.append((qual, i2, "implementation=2"))
    # the bias and the activation are optional, independently of each other
    if "bias" in spec["weights"]:
      out.append((qual, dict(spec, nobias=True), "use_bias=False"))
    if not spec.get("rnn"):
      out.append((qual, dict(spec, noact=True), "activation=None"))
      if "bias" in spec["weights"]:
        out.append((qual, dict(spec, nobias=True, noact=True),
                    "use_bias=False,activation=None"))
  return out


def rule_two_grouped_layers(rep, repo):
  """R9: two grouped QConv2D layers in one process (same strides, padding,
  data format and group count, different dilation) each convolve with the
  convolution op of their OWN layer object - nothing compiled for the first
  layer is handed to the second."""
  qual = [q for q in SPECS if q.endswith(".QConv2D")]
  if not qual:
    raise AnalysisError("anchor-missing QConv2D spec")
  ci = repo.classes.get(qual[0])
  spec = SPECS[qual[0]]
  unit = "%s::%s.call" % (ci.module.relpath, ci.name)
  pe = PE(repo)
  pe.opaque_ext = True
  pe.fork = Fork([])
  pe.ext_overrides = {
      "tf.python.eager.context.executing_eagerly": lambda pe, a, k: True}
  owner, fn = ci.find_method("call")
  outs = {}
  try:
    for tag, dil in (("first layer", (1, 1)), ("second layer", (2, 2))):
      sp = dict(spec, tag=tag, geom=dict(spec["geom"], groups=2,
                                         dilation_rate=dil))
      o = make_layer(ci, sp, True, pe)
      outs[tag] = pe.call_func(Func(fn, owner.module, [], "call", o, owner),
                               [Tensor(("sym", "inputs"), (2, 8, 8, 4))], {})
  except PyRaise as e:
    rep.fail("R9", unit, "two-grouped-layers-raise", "raises %s" % e,
             loc=owner.module.loc(fn))
    return 0
  n = 0
  for tag, out in outs.items():
    ops = find_apps(out.term, "convolution_op") if isinstance(
        out, Tensor) else []
    bound = sorted({dict(op[2]).get("bound_to") for op in ops})
    n += 1
    rep.check(bound == [tag], "R9", unit, "convolution-op-of-another-layer",
              "two grouped QConv2D layers called one after the other: the "
              "%s convolves with the convolution op bound to %s" % (
                  tag, bound or "no layer"), loc=owner.module.loc(fn),
              instance=tag)
  return n


def rule_layers(rep, repo, tier="quick"):
  n = 0
  for qual, spec, vname in variants():
    ci = repo.classes.get(qual)
    if ci is None:
      raise AnalysisError("anchor-missing class %s" % qual)
    unit = "%s::%s.call" % (ci.module.relpath, ci.name)
    rep.unit(unit)
    roles = sorted(all_roles(spec))
    settings = [(True, "all quantizers set"), (False, "no quantizers")]
    if len(roles) > 1:
      # one quantizer at a time, and (thorough) all but one
      for r in roles:
        settings.append((frozenset([r]), "only %s quantizer set" % r))
        if len(roles) > 2 and tier == "thorough":
          settings.append((frozenset(roles) - {r},
                           "all but the %s quantizer set" % r))
    for quantized, qlabel in settings:
      qset = set(roles) if quantized is True else (
          set() if quantized is False else set(quantized))
      cfg = "%s(%s%s)" % (ci.name, qlabel, "," + vname if vname else "")
      try:
        pe, o, out, owner, fn = eval_call(repo, ci, spec, quantized)
      except PyRaise as e:
        rep.fail("R1", unit, "call-raises:" + ("q" if quantized else "raw"),
                 "%s: call() raises %s" % (cfg, e), instance=cfg)
        continue
      if not isinstance(out, Tensor):
        rep.fail("R1", unit, "call-returns-non-tensor",
                 "%s: call() returns %r" % (cfg, out), instance=cfg)
        continue
      n += 1
      loc = owner.module.loc(fn)
      term = out.term
      lv = leaves_with_parent(term)
      # R1 pairing
      for attr, role in sorted(spec["weights"].items()):
        parents = [p for nme, p in lv if nme == attr]
        if attr == "bias" and spec.get("nobias"):
          rep.check(not parents, "R1", unit, "bias-used-without-bias",
                    "%s: the bias reaches the output although use_bias is "
                    "off" % cfg, loc=loc, instance=cfg)
          continue
        rep.check(bool(parents), "R1", unit, "weight-unused:" + attr,
                  "%s: the weight %s does not reach the output" % (cfg, attr),
                  loc=loc, instance=cfg)
        if role in qset:
          bad = [p for p in parents if p != "Q_" + role]
          rep.check(not bad, "R1", unit,
                    "weight-not-through-own-quantizer:" + attr,
                    "%s: weight %s reaches %s directly instead of through "
                    "its %s quantizer" % (cfg, attr, sorted(set(map(str,
                                                                    bad))),
                                          role), loc=loc, instance=cfg)
        else:
          wq = {"Q_" + r for r in spec["weights"].values()}
          bad = [p for p in parents if p in wq]
          rep.check(not bad, "R1", unit, "quantizer-applied-when-unset:" +
                    attr, "%s: %s is quantized although no quantizer is "
                    "configured" % (cfg, attr), loc=loc, instance=cfg)
      # R2 order
      root_ok = term[0] == "app" and term[1] == "Q_act"
      gated = ci.name in ("QLSTMCell", "QGRUCell")
      if spec.get("noact"):
        rep.check(not find_apps(term, "Q_act"), "R2", unit,
                  "activation-applied-when-unset",
                  "%s: an activation is applied although none is "
                  "configured" % cfg, loc=loc, instance=cfg)
        root_ok = False
      elif gated:
        # gated cells combine the activation with the gates afterwards
        root_ok = False
        rep.check(bool(find_apps(term, "Q_act")), "R2", unit,
                  "activation-unused",
                  "%s: the activation never reaches the output" % cfg,
                  loc=loc, instance=cfg)
      else:
        rep.check(root_ok, "R2", unit, "activation-not-last",
                  "%s: the outermost operation of the output is %s, not "
                  "the activation quantizer" %
                  (cfg, term[1] if term[0] == "app" else term[0]), loc=loc,
                  instance=cfg)
      if root_ok and "bias" in spec["weights"] and not spec.get("nobias"):
        rep.check(contains_sym(term[3][0], "bias"), "R2", unit,
                  "bias-after-activation",
                  "%s: the bias is not part of the activation's argument" %
                  cfg, loc=loc, instance=cfg)
      # R3 geometry
      if spec["op"]:
        ops = find_apps(term, spec["op"])
        rep.check(len(ops) == 1, "R3", unit, "backend-op-count:" + spec["op"],
                  "%s: %d calls of %s in the output" % (cfg, len(ops),
                                                        spec["op"]),
                  loc=loc, instance=cfg)
        for op in ops[:1]:
          attrs = dict(op[2])
          if vname == "causal":
            # causal padding may be delegated to the backend op or applied
            # to the inputs first; either way the effective left padding is
            # dilation * (kernel - 1) and nothing is padded on the right
            dil = spec["geom"]["dilation_rate"][0]
            ks = spec["geom"]["kernel_size"][0]
            want_left = dil * (ks - 1)
            xin = op[3][0] if op[3] else None
            left = right = None
            if attrs.get("padding") == "causal" and xin == ("sym", "inputs"):
              left, right = want_left, 0
            elif attrs.get("padding") == "valid" and isinstance(
                xin, tuple) and xin[0] == "app" and xin[1].endswith("pad") \
                and xin[3] and xin[3][0] == ("sym", "inputs"):
              pads = [v_ for k_, v_ in xin[2] if k_ in ("#1", "paddings")]
              try:
                left, right = [int(p_) for p_ in pads[0][1]]
                others = [int(p_) for row in (pads[0][0], pads[0][2])
                          for p_ in row]
                if any(others):
                  left = None
              except (IndexError, TypeError, ValueError):
                left = right = None
            rep.check(left == want_left and right == 0, "R3", unit,
                      "causal-padding",
                      "%s: the convolution sees %s (padding=%r); causal "
                      "padding with kernel %d and dilation %d must put %d "
                      "steps before the sequence and none after it" %
                      (cfg, show_term(xin)[:120] if isinstance(xin, tuple)
                       else xin, attrs.get("padding"), ks, dil, want_left),
                      loc=loc, instance=cfg)
          if spec["op"] == "K.conv2d_transpose":
            # the output shape asked of the backend is the one the stock
            # transposed convolution produces for this geometry
            g = spec["geom"]
            opad = g.get("output_padding") or (None, None)
            if g.get("output_padding") is not None:
              opad = g["output_padding"]
            want_shape = (2,) + tuple(
                keras_length(8, g["kernel_size"][i], g["padding"], opad[i],
                             g["strides"][i], g["dilation_rate"][i])
                for i in (0, 1)) + (g["filters"],)
            shp = op[3][2] if len(op[3]) > 2 else None
            got_shape = None
            if isinstance(shp, tuple) and shp and shp[0] == "app" and \
                shp[1] in ("tf.stack", "stack"):
              got_shape = dict(shp[2]).get("#0")
            elif isinstance(shp, tuple) and shp and shp[0] == "c":
              got_shape = shp[1]
            try:
              got_shape = tuple(int(d) for d in got_shape)
            except (TypeError, ValueError):
              got_shape = None
            if got_shape is not None:
              rep.check(got_shape == want_shape, "R3", unit,
                        "transposed-output-shape",
                        "%s: on inputs of shape (2, 8, 8, 4) the backend is "
                        "asked for the output shape %r, the stock "
                        "Conv2DTranspose with this geometry (output_padding="
                        "%r) produces %r" % (cfg, got_shape, g.get(
                            "output_padding"), want_shape), loc=loc,
                        instance=cfg)
              rep.extra["transposed_shapes_checked"] = rep.extra.get(
                  "transposed_shapes_checked", 0) + 1
          for k, v in sorted(spec["expect"].items()):
            if vname == "causal" and k == "padding":
              continue
            rep.check(attrs.get(k, "<absent>") == v, "R3", unit,
                      "geometry-not-forwarded:" + k,
                      "%s: %s receives %s=%r, the layer's own value is %r" %
                      (cfg, spec["op"], k, attrs.get(k, "<absent>"), v),
                      loc=loc, instance=cfg)
      # R6 a retuned quantizer is the one applied from then on
      out2 = o.attrs.get("__second_call__")
      if isinstance(out2, PyRaise):
        rep.fail("R6", unit, "second-call-raises", "%s: a second call after "
                 "the quantizers were retuned raises %s" % (cfg, out2),
                 loc=loc, instance=cfg)
      elif isinstance(out2, Tensor):
        def qapps(t):
          found, seen_ = set(), set()

          def walk(u):
            if id(u) in seen_ or not isinstance(u, tuple) or not u:
              return
            seen_.add(id(u))
            if u[0] == "app" and u[1].startswith(("Q_", "Q2_")):
              found.add(u[1])
            for s_ in u[1:]:
              if isinstance(s_, tuple):
                walk(s_)
          walk(t)
          return found
        first, second = qapps(term), qapps(out2.term)
        stale = sorted(n_ for n_ in second if n_.startswith("Q_"))
        rep.check(not stale and {n_.replace("Q2_", "Q_") for n_ in second}
                  == first, "R6", unit, "quantized-value-kept-between-calls",
                  "%s: after every quantizer was retuned the second call "
                  "still contains %s (first call applied %s, second %s)" % (
                      cfg, stale or "other quantizers", sorted(first),
                      sorted(second)), loc=loc, instance=cfg)
      # R5 reported = applied
      if qset:
        gq_owner, gq = ci.find_method("get_quantizers")
        if gq is not None:
          try:
            lst = pe.call_func(Func(gq, gq_owner.module, [], "get_quantizers",
                                    o, gq_owner), [], {})
            want = o.attrs["__applied__"]
            same = isinstance(lst, list) and len(lst) == len(want) and all(
                a is b for a, b in zip(lst, want))
            rep.check(same, "R5", unit, "get_quantizers!=applied",
                      "%s: get_quantizers() does not return the applied "
                      "quantizers in weight order %s" % (cfg, spec["order"]),
                      loc=gq_owner.module.loc(gq), instance=cfg)
          except PyRaise as e:
            rep.fail("R5", unit, "get_quantizers-raises", "raises %s" % e,
                     instance=cfg)
      if len(rep.samples) < 8 and quantized is True:
        from ..pe import show_term
        rep.sample({"layer": ci.name, "output_term": show_term(term)[:400]})
  rep.extra["layer_calls_evaluated"] = n


def rule_quantizers_list(rep, repo):
  """R5 (constructor side): the self.quantizers list literal holds the
  *_internal quantizers in the weight order of the spec."""
  for qual, spec in sorted(SPECS.items()):
    ci = repo.classes[qual]
    init = ci.methods.get("__init__")
    if init is None:
      continue
    lit = None
    for n in ast.walk(init):
      if isinstance(n, ast.Assign) and any(
          isinstance(t, ast.Attribute) and t.attr == "quantizers"
          for t in n.targets) and isinstance(n.value, ast.List):
        lit = n
    unit = "%s::%s.__init__" % (ci.module.relpath, ci.name)
    if lit is None:
      rep.fail("R5", unit, "no-quantizers-list",
               "the constructor does not build self.quantizers",
               loc=ci.loc())
      continue
    roles = []
    for e in lit.value.elts:
      r = ast.unparse(e).replace("self.", "").replace(
          "_quantizer_internal", "")
      roles.append({"depthwise_kernel": "depthwise",
                    "pointwise_kernel": "pointwise"}.get(r, r))
    rep.check(roles == spec["order"], "R5", unit, "quantizers-list-order",
              "self.quantizers lists %s, the weight order is %s" %
              (roles, spec["order"]), loc=ci.module.loc(lit))


def rule_reported_by_layer(rep, repo):
  """R5 (layer side): every exported layer class with a get_quantizers() is
  built by its OWN constructor (c13.layer_pe) with one distinct quantizer
  object per role; get_quantizers() must hand out exactly the objects the
  layer (or, for the recurrent wrappers, its cell) holds as applied
  quantizers - the `*_quantizer_internal` attributes in the order of the
  class's `quantizers` list, which R5 (constructor side) ties to the weight
  order."""
  from .c13 import layer_pe, exported_classes
  from ..pe import ClassRef
  qmod = repo.module("qkeras.quantizers")
  n = 0
  for name, ci in sorted(exported_classes(repo).items()):
    owner, fn = ci.find_method("get_quantizers")
    if fn is None or name in ("QBidirectional",) or ci.module.name not in (
        "qkeras.qlayers", "qkeras.qconvolutional", "qkeras.qrecurrent",
        "qkeras.qpooling", "qkeras.qmac", "qkeras.qconv2d_batchnorm",
        "qkeras.qdepthwiseconv2d_batchnorm"):
      continue     # (QBidirectional wraps other layer objects)
    params = [p for p, _ in ci.init_params()[0]]
    qparams = [p for p in params if p.endswith("_quantizer")]
    if name == "QBatchNormalization":
      qparams = [p for p in qparams if p != "inverse_quantizer"]
    if not qparams:
      continue
    unit = "%s::%s.get_quantizers" % (owner.module.relpath, owner.name)
    rep.unit(unit)
    loc = owner.module.loc(fn)
    pe = layer_pe(repo, ci, name)
    kw = {}
    for i, p in enumerate(qparams):
      kw[p] = pe.call(pe.lookup_global("quantized_bits", qmod), [], dict(
          bits=3 + i, integer=1, alpha=1))
    for p_, v_ in (("units", 4), ("filters", 8), ("kernel_size", 3),
                   ("pool_size", 2)):
      if p_ in params:
        kw[p_] = v_
    try:
      layer = pe.call(ClassRef(ci), [], dict(kw))
      got = pe.call(pe.getattr(layer, "get_quantizers"), [], {})
    except (PyRaise, Unsupported) as e:
      rep.extra.setdefault("get_quantizers_not_interpretable", {})[
          name] = str(e)[:100]
      continue
    holder = layer
    if "quantizers" not in layer.attrs and isinstance(
        layer.attrs.get("cell"), Obj):
      holder = layer.attrs["cell"]
    held = holder.attrs.get("quantizers")
    internal = {id(holder.attrs.get(p + "_internal")): p for p in qparams
                if holder.attrs.get(p + "_internal") is not None}
    n += 1
    ok = isinstance(got, list) and isinstance(held, list) and \
        len(got) == len(held) and all(a is b for a, b in zip(got, held)) \
        and all(q is None or id(q) in internal for q in got)
    rep.check(ok, "R5", unit, "get_quantizers!=held-quantizers",
              "%s: get_quantizers() returns %s; the layer holds %s" % (
                  name, [internal.get(id(q), repr(q)) for q in got]
                  if isinstance(got, list) else got,
                  [internal.get(id(q), repr(q)) for q in held]
                  if isinstance(held, list) else held), loc=loc,
              instance=name)
    # one quantizer OBJECT handed in for every role (kernel and bias share
    # it): whatever the constructor does with it, what get_quantizers()
    # reports for a role is the very object the layer applies for that role
    pos = {}
    if isinstance(got, list):
      for p in qparams:
        o_ = holder.attrs.get(p + "_internal")
        for i_, g_ in enumerate(got):
          if o_ is not None and g_ is o_:
            pos[p] = i_
    pe_s = layer_pe(repo, ci, name)
    shared_q = pe_s.call(pe_s.lookup_global("quantized_bits", qmod), [],
                         dict(bits=4, integer=0, keep_negative=True))
    kw_s = {p: shared_q for p in qparams}
    for p_, v_ in (("units", 4), ("filters", 8), ("kernel_size", 3),
                   ("pool_size", 2)):
      if p_ in params:
        kw_s[p_] = v_
    try:
      layer_s = pe_s.call(ClassRef(ci), [], dict(kw_s))
      got_s = pe_s.call(pe_s.getattr(layer_s, "get_quantizers"), [], {})
    except (PyRaise, Unsupported):
      continue
    holder_s = layer_s
    if "quantizers" not in layer_s.attrs and isinstance(
        layer_s.attrs.get("cell"), Obj):
      holder_s = layer_s.attrs["cell"]
    wrong = [p for p, i_ in sorted(pos.items())
             if not (isinstance(got_s, list) and i_ < len(got_s) and
                     got_s[i_] is holder_s.attrs.get(p + "_internal"))]
    rep.check(not wrong, "R5", unit, "reported-quantizer-is-not-the-applied-"
              "object", "%s built with ONE quantizer object for %s: "
              "get_quantizers() does not hand out the object the layer "
              "applies for %s" % (name, qparams, wrong), loc=loc,
              instance=name + "/shared object")
  rep.extra["layers_asked_for_their_quantizers"] = n
  if n < 12:
    raise AnalysisError("instance-count only %d layer classes answered "
                        "get_quantizers() (%s)" % (n, rep.extra.get(
                            "get_quantizers_not_interpretable")))


def rule_mobilenet_factory(rep, repo):
  """R7: QMobileNetSeparableConv2D expands into the documented chain.  The
  factory is interpreted with the layer classes as recording stand-ins
  (every construction and every application is logged; an application
  returns a term wrapping its input): default order depthwise -> [quantized
  intermediate activation] -> [dropout] -> pointwise -> [output activation];
  with pw_first pointwise -> [intermediate activation] -> [dropout] ->
  depthwise -> [output activation]; every stage is applied to the previous
  stage's output; the depthwise stage gets the geometry and the depthwise
  quantizer / range / constraint and no bias, the pointwise stage a 1x1
  convolution with the filters, the pointwise and bias quantizers."""
  qc = repo.module("qkeras.qconvolutional")
  fn = qc.functions.get("QMobileNetSeparableConv2D")
  if fn is None:
    raise AnalysisError("anchor-missing qconvolutional."
                        "QMobileNetSeparableConv2D")
  unit = "%s::QMobileNetSeparableConv2D" % qc.relpath
  rep.unit(unit)
  loc = qc.loc(fn)
  n = 0
  for pw_first in (False, True):
    for dw_act, rate, act in (("quantized_relu(3,1)", F(1, 4), "relu"),
                              ("quantized_relu(3,1)", 0, None),
                              (None, F(1, 4), None), (None, 0, "softmax"),
                              ("QACT", 0, None)):
      log = []

      def layer_class(kind):
        def ctor(pe_, a, k, kind=kind):
          idx = len(log)
          log.append({"kind": kind, "args": list(a), "kw": dict(k),
                      "input": None})

          def apply_(pe__, a_, k_, idx=idx):
            t = pe__.as_term(a_[0])
            log[idx]["input"] = t
            return Tensor(("app", "stage%d" % idx, (), (t,)), None)
          return Mock(kind, {"__call__": apply_})
        return Mock(kind + "_class", {"__call__": ctor})
      over = {k_: layer_class(k_) for k_ in (
          "QConv2D", "QDepthwiseConv2D", "Dropout", "Activation")}
      qact_cls = layer_class("QActivation")
      over["QActivation"] = qact_cls
      pe = PE(repo, module_overrides={qc.name: over})
      pe.opaque_ext = True
      dwa = dw_act
      if dw_act == "QACT":
        # an intermediate activation handed over as a layer object
        dwa = Mock("QActivation", {"__classes__": ("QActivation",),
                                   "__call__": None})
        idx_obj = [None]

        def apply_obj(pe__, a_, k_):
          idx = len(log)
          t = pe__.as_term(a_[0])
          log.append({"kind": "QActivation(object)", "args": [], "kw": {},
                      "input": t})
          return Tensor(("app", "stage%d" % idx, (), (t,)), None)
        dwa.attrs["__call__"] = apply_obj
      cfg = "QMobileNetSeparableConv2D(pw_first=%s, depthwise_activation=" \
          "%s, depthwise_dropout_rate=%s, activation=%s)" % (
              pw_first, "a QActivation layer" if dw_act == "QACT" else
              dw_act, rate, act)
      kw = dict(filters=8, kernel_size=(3, 2), strides=(2, 1),
                padding="same", dilation_rate=(1, 2), depth_multiplier=2,
                activation=act, use_bias=True, depthwise_quantizer="DQ",
                pointwise_quantizer="PQ", bias_quantizer="BQ",
                depthwise_activation=dwa, depthwise_range="DR",
                pointwise_range="PR", bias_range="BR",
                depthwise_constraint="DC", pointwise_constraint="PC",
                depthwise_dropout_rate=rate, pw_first=pw_first, name="blk")
      try:
        call = pe.call(pe.lookup_global("QMobileNetSeparableConv2D", qc),
                       [], kw)
        x0 = pe.x_input()
        out = pe.call(call, [x0], {})
      except PyRaise as e:
        rep.fail("R7", unit, "factory-raises", "%s raises %s" % (cfg, e),
                 loc=loc, instance=cfg)
        continue
      n += 1
      mid = []
      if dw_act == "QACT":
        mid.append("QActivation(object)")
      elif dw_act:
        mid.append("QActivation")
      if rate:
        mid.append("Dropout")
      want = (["QConv2D"] + mid + ["QDepthwiseConv2D"]) if pw_first else (
          ["QDepthwiseConv2D"] + mid + ["QConv2D"])
      if act:
        want.append("Activation")
      # stages in the order they were APPLIED
      order, t = [], pe.as_term(out)
      while t[0] == "app" and t[1].startswith("stage"):
        order.append(int(t[1][5:]))
        t = t[3][0]
      order.reverse()
      got = [log[i]["kind"] for i in order]
      rep.check(got == want and t == x0.term, "R7", unit, "stage-order",
                "%s: the input passes through %s, documented %s" % (
                    cfg, got, want), loc=loc, instance=cfg,
                observed=str(got))
      by = {log[i]["kind"]: log[i] for i in order}
      dw, pw = by.get("QDepthwiseConv2D"), by.get("QConv2D")
      if dw is not None:
        k = dw["kw"]
        ok = (dw["args"][:1] == [(3, 2)] or k.get("kernel_size") == (3, 2)) \
            and k.get("strides") == (2, 1) and k.get("dilation_rate") == (
                1, 2) and k.get("padding") == "same" and k.get(
                    "depth_multiplier") == 2 and k.get("use_bias") is False \
            and k.get("depthwise_quantizer") == "DQ" and k.get(
                "depthwise_range") == "DR" and k.get(
                    "depthwise_constraint") == "DC"
        rep.check(ok, "R7", unit, "depthwise-stage-options",
                  "%s: the depthwise stage is built with %r %r" % (
                      cfg, dw["args"], k), loc=loc, instance=cfg)
      if pw is not None:
        k = pw["kw"]
        a_ = pw["args"]
        ok = (a_[:2] == [8, (1, 1)] or (k.get("filters") == 8 and k.get(
            "kernel_size") == (1, 1))) and k.get("use_bias") is True and \
            k.get("kernel_quantizer") == "PQ" and k.get(
                "bias_quantizer") == "BQ" and k.get("kernel_range") == "PR" \
            and k.get("bias_range") == "BR" and k.get(
                "kernel_constraint") == "PC" and k.get("strides") == (1, 1)
        rep.check(ok, "R7", unit, "pointwise-stage-options",
                  "%s: the pointwise stage is built with %r %r" % (
                      cfg, a_, k), loc=loc, instance=cfg)
      qa = by.get("QActivation")
      if qa is not None:
        rep.check(qa["args"][:1] == ["quantized_relu(3,1)"] or qa["kw"].get(
            "activation") == "quantized_relu(3,1)", "R7", unit,
                  "intermediate-activation-quantizer",
                  "%s: the intermediate activation is built with %r %r" % (
                      cfg, qa["args"], qa["kw"]), loc=loc, instance=cfg)
  if n < 8:
    raise AnalysisError("instance-count only %d factory expansions" % n)


def rule_deconv_length(rep, repo):
  """R8: the output length the transposed convolutions ask the backend for.
  `deconv_output_length` is interpreted on a grid of (input length, kernel,
  stride, dilation, padding, output_padding) and compared with the length the
  stock Keras transposed convolution produces (Keras' own
  conv_utils.deconv_output_length, written out here as the trusted
  reference): inferred lengths incl. stride > kernel, explicit output
  padding, dilation."""
  qc = repo.module("qkeras.qconvolutional")
  fn = qc.functions.get("deconv_output_length")
  if fn is None:
    raise AnalysisError("anchor-missing qconvolutional.deconv_output_length")
  unit = "%s::deconv_output_length" % qc.relpath
  rep.unit(unit)
  loc = qc.loc(fn)

  n_pts = 0
  pe = PE(repo)
  f = pe.lookup_global("deconv_output_length", qc)
  for n in (1, 4, 7):
    for k in (1, 2, 3, 5):
      for stride in (1, 2, 3, 4):
        for dilation in (1, 2):
          for padding in ("valid", "same", "full"):
            for out_pad in (None, 0, 1):
              if out_pad is not None and out_pad >= stride:
                continue     # Keras rejects output_padding >= stride
              cfg = "deconv_output_length(%d, %d, %r, output_padding=%r, " \
                  "stride=%d, dilation=%d)" % (n, k, padding, out_pad,
                                                stride, dilation)
              try:
                got = pe.call(f, [n, k, padding], {
                    "output_padding": out_pad, "stride": stride,
                    "dilation": dilation})
              except PyRaise as e:
                rep.fail("R8", unit, "raises", "%s raises %s" % (cfg, e),
                         loc=loc, instance=cfg)
                continue
              want = keras_length(n, k, padding, out_pad, stride, dilation)
              n_pts += 1
              rep.check(isinstance(got, (int, F)) and got == want, "R8",
                        unit, "transposed-output-length:" + (
                            "inferred" if out_pad is None else "explicit") +
                        ":" + padding,
                        "%s = %r; the stock Keras layer produces %d" % (
                            cfg, got, want), loc=loc, instance=cfg,
                        observed=repr(got))
  got_none = pe.call(f, [None, 3, "valid"], {"stride": 2})
  rep.check(got_none is None, "R8", unit, "unknown-input-length",
            "an unknown input length gives %r, expected None" % (got_none,),
            loc=loc)
  rep.extra["deconv_length_points"] = n_pts


def rule_dead_options(rep, repo):
  classes = list(SPECS) + ["qkeras.qpooling.QAveragePooling2D",
                           "qkeras.qpooling.QGlobalAveragePooling2D",
                           "qkeras.qrecurrent.QSimpleRNN",
                           "qkeras.qrecurrent.QLSTM",
                           "qkeras.qrecurrent.QGRU"]
  for qual in classes:
    ci = repo.classes.get(qual)
    if ci is None:
      raise AnalysisError("anchor-missing class %s" % qual)
    init = ci.methods.get("__init__")
    if init is None:
      continue
    unit = "%s::%s.__init__" % (ci.module.relpath, ci.name)
    rep.unit(unit)
    params, _, _ = ci.init_params()
    reads = {}
    for n in ast.walk(init):
      if isinstance(n, ast.Name) and isinstance(n.ctx, ast.Load):
        reads[n.id] = reads.get(n.id, 0) + 1
    for p, _ in params:
      if p == "unit_forget_bias":
        continue   # initialisation-only option (does not enter call())
      rep.check(reads.get(p, 0) > 0, "R4", unit, "dead-option:" + p,
                "constructor option %r of %s is never read: the layer "
                "silently ignores it" % (p, ci.name),
                loc=ci.module.loc(init))


def rule_pooling(rep, repo):
  """The pooling layers are constructed through their own __init__ (the
  Keras base constructor is replaced by its documented effect: it stores
  pool_size / strides / padding / keepdims and resolves data_format=None to
  the global image data format), then call() is evaluated for both data
  formats, explicit and resolved from the global setting."""
  from ..qir import Fwd, mk_app
  from ..nf import NF
  qp = repo.module("qkeras.qpooling")
  for cname in ("QAveragePooling2D", "QGlobalAveragePooling2D"):
    ci = repo.classes.get("qkeras.qpooling." + cname)
    if ci is None:
      raise AnalysisError("anchor-missing class qpooling.%s" % cname)
    unit = "%s::%s.call" % (ci.module.relpath, ci.name)
    rep.unit(unit)
    owner, fn = ci.find_method("call")
    pools = ((2, 3), 3) if cname == "QAveragePooling2D" else (None,)
    for (df_arg, global_df), pool in itertools.product(
        (("channels_last", "channels_last"),
         ("channels_first", "channels_last"),
         (None, "channels_last"),
         (None, "channels_first")), pools):
      area = None if pool is None else (pool * pool if isinstance(
          pool, int) else pool[0] * pool[1])
      for quantized in (True, False):
        cfg = "%s(%sdata_format=%s,global=%s,%s)" % (
            cname, "" if pool in (None, (2, 3)) else "pool_size=%r," % (
                pool,), df_arg, global_df,
            "quantized" if quantized else "plain")

        def getq(pe, a, k):
          v = a[0] if a else k.get("quantizer")
          if v is None:
            return None
          return qm("average") if v == "QAVG" else qm("act")
        pe = PE(repo, module_overrides={qp.name: {"get_quantizer": getq}})
        pe.opaque_ext = True
        rec = {}

        def keras_base_init(pe, a, k, rec=rec, g=global_df):
          # documented effect of the Keras pooling base constructor
          rec.update(k)
          me = pe.external_super_self
          for kk, vv in k.items():
            me.attrs[kk] = vv
          # ints are normalised to one entry per spatial dimension
          # (conv_utils.normalize_tuple); strides default to the pool size
          if isinstance(k.get("pool_size"), int):
            me.attrs["pool_size"] = (k["pool_size"],) * 2
          if "pool_size" in k:
            st = k.get("strides")
            me.attrs["strides"] = me.attrs["pool_size"] if st is None else (
                (st,) * 2 if isinstance(st, int) else st)
          me.attrs["data_format"] = k.get("data_format") or g
          me.attrs.setdefault("keepdims", False)
        pe.ext_overrides = {
            "<external-super>.__init__": keras_base_init,
            "K.image_data_format": lambda pe, a, k, g=global_df: g,
            "tf.keras.backend.image_data_format":
                lambda pe, a, k, g=global_df: g}
        kw = {"data_format": df_arg, "activation": "QACT",
              "average_quantizer": "QAVG" if quantized else None}
        if cname == "QAveragePooling2D":
          kw["pool_size"] = pool
        try:
          o = pe.call(pe.lookup_global(cname, qp), [], kw)
        except PyRaise as e:
          rep.fail("R1", unit, "constructor-raises", "%s: __init__ raises %s"
                   % (cfg, e), instance=cfg)
          continue
        df = rec.get("data_format") or global_df
        shape = (2, 8, 7, 4) if df == "channels_last" else (2, 4, 8, 7)
        spatial = (1, 2) if df == "channels_last" else (2, 3)
        x = Tensor(("sym", "inputs"), shape)
        try:
          out = pe.call_func(Func(fn, owner.module, [], "call", o, owner),
                             [x], {})
        except PyRaise as e:
          rep.fail("R1", unit, "call-raises", "%s: call() raises %s" %
                   (cfg, e), instance=cfg)
          continue
        nf = Fwd()(out.term)
        X = NF.sym("inputs")
        if quantized and cname == "QGlobalAveragePooling2D":
          inner = mk_app("reduce_sum", [X], (spatial, False)) * mk_app(
              "Q_average", [NF.const(F(1, 56))])
        elif quantized:
          inner = mk_app("super.call", [X * area]) * mk_app(
              "Q_average", [NF.const(F(1, area))])
        else:
          inner = mk_app("super.call", [X])
        want = mk_app("Q_act", [inner])
        # second call after the quantizers were retuned in place
        try:
          for v in list(o.attrs.values()) + [q for q in (o.attrs.get(
              "quantizers") or []) if q is not None]:
            if isinstance(v, Mock) and v.name.startswith("q_"):
              role = v.name[2:]
              v.attrs["__call__"] = (
                  lambda pe_, a, k, role=role: Tensor(
                      ("app", "Q2_" + role, (), (pe_.as_term(a[0]),)),
                      a[0].shape if isinstance(a[0], Tensor) else None))
          out2 = pe.call_func(Func(fn, owner.module, [], "call", o, owner),
                              [x], {})
          nf2 = Fwd()(out2.term)
          stale = sorted({a[1] for a in nf2.atoms() if a[0] == "app" and
                          a[1].startswith("Q_")})
          rep.check(not stale, "R6", unit,
                    "quantized-value-kept-between-calls",
                    "%s: after the quantizers were retuned the second call "
                    "still uses %s: %s" % (cfg, stale, show(nf2, 160)),
                    loc=owner.module.loc(fn), instance=cfg)
        except PyRaise as e:
          rep.fail("R6", unit, "second-call-raises", "%s: %s" % (cfg, e),
                   instance=cfg)
        rep.check(nf == want, "R1", unit, "pooling-structure",
                  "%s computes %s, expected the sum over the spatial axes "
                  "%s (Keras pooling of x*area) times the quantized "
                  "reciprocal of the area, then the activation: %s" %
                  (cfg, show(nf, 200), spatial, show(want, 200)),
                  loc=owner.module.loc(fn), instance=cfg)


def run(rep, repo, tier):
  rep.trusted.append("the Keras backend operations are uninterpreted: "
                     "equality with the stock layer follows from feeding "
                     "them the same arguments")
  rep.assumptions.append("numerical equality with the stock Keras layer is "
                         "not computed")
  rule_layers(rep, repo, tier)
  if rep.extra.get("transposed_shapes_checked", 0) < 12:
    raise AnalysisError("instance-count transposed output shapes: %r" %
                        rep.extra.get("transposed_shapes_checked"))
  rule_quantizers_list(rep, repo)
  rule_reported_by_layer(rep, repo)
  rule_mobilenet_factory(rep, repo)
  rep.require_instances("R7", 20)
  rule_deconv_length(rep, repo)
  rep.require_instances("R8", 400)
  if rule_two_grouped_layers(rep, repo) < 2:
    raise AnalysisError("instance-count two grouped layers")
  rule_dead_options(rep, repo)
  rule_pooling(rep, repo)
  rep.require_instances("R1", 50)
  rep.require_instances("R2", 20)
  rep.require_instances("R3", 20)
  rep.require_instances("R4", 100)
  rep.require_instances("R5", 15)
