"""C09 - quantizer configuration round-trip.

For every registered quantizer class and every constructor option (varied
one at a time from a valid base configuration, plus the full lattice in the
thorough tier) the interpreter builds  q = cls(**kw),  cfg = q.get_config(),
q2 = cls.from_config(cfg)  and compares the forward normal forms of q(x) and
q2(x) (both phases) and the recorded scales, for all inputs at once.

R1 from_config(get_config()) is accepted by the constructor
   (keys(get_config) are constructor parameters).
R2 the rebuilt quantizer computes the same function: a constructor option
   whose value changes the forward normal form must survive the round trip.
R3 value fidelity: every key holds the value passed for the parameter of the
   same name (after the documented rewrites); list<->array conversions in
   get_config have their inverse in from_config.
R4 the constructor's rewrites are idempotent (config of the rebuilt object
   equals the first config).
R9 an array-valued option (a frozen post_training_scale) keeps its shape
   and entries through get_config / from_config.
R10 a quantizer built after every other configuration has been built and
   used in the same interpreter computes what it computes alone.
R5 registry: the 14 decorated classes are registered under their own name,
   lookup indexes the same container, quantizer_imports re-exports exactly
   those names, all are module-level names of quantizers.py and have
   get_config / from_config(classmethod).
"""
import ast
import itertools
from fractions import Fraction as F

from ..loader import AnalysisError
from ..pe import ConfigRejected, PyRaise, Tensor, Obj, PE, ClassRef, NArr
from ..pe import Unsupported
from .. import quant, qref, prims
from ..qir import Fwd, equal_mod_finite
from ..nf import NF, show

TECHNIQUE = ("Partial evaluation of constructor, get_config and from_config "
             "on the AST; forward normal-form equality of the original and "
             "the rebuilt quantizer for all inputs; registry table "
             "comparison.")

PTS = Tensor(("sym", "post_training_scale"), None)

# base configuration and, per constructor parameter, alternative values with
# the context that makes the option effective.  The parameter lists are
# checked against the constructors on every run.
AUTO2 = dict(alpha="auto_po2", scale_axis=1)
# a per-channel constant scale given as a numpy array
ALPHA_VEC = NArr([F(1, 2), F(1), F(2), F(4), F(8), F(16)])

ALTS = {
    "quantized_linear": ({}, {
        "bits": [5], "integer": [2], "symmetric": [0], "keep_negative": [False],
        "alpha": [F(2), "auto", "auto_po2"],
        "use_stochastic_rounding": [True],
        "scale_axis": [(0, dict(alpha="auto"))],
        "qnoise_factor": [F(1, 2)], "var_name": ["v"],
        "use_variables": [True]}),
    "quantized_bits": ({}, {
        "bits": [5], "integer": [2], "symmetric": [1], "keep_negative": [False],
        "alpha": [F(2), "auto", "auto_po2"],
        "use_stochastic_rounding": [True],
        "scale_axis": [(0, dict(alpha="auto"))],
        "qnoise_factor": [F(1, 2), 0], "var_name": ["v"], "use_ste": [False],
        "use_variables": [True],
        "elements_per_scale": [(2, AUTO2)],
        "min_po2_exponent": [(-2, dict(alpha="auto_po2")),
                             (0, dict(alpha="auto_po2"))],
        "max_po2_exponent": [(1, dict(alpha="auto_po2")),
                             (0, dict(alpha="auto_po2"))],
        "post_training_scale": [(PTS, dict(alpha="auto_po2"))]}),
    "bernoulli": ({}, {
        "alpha": [F(2), "auto"], "temperature": [F(4)],
        "use_real_sigmoid": [False]}),
    "ternary": ({}, {
        "alpha": [F(2), "auto", "auto_po2", ALPHA_VEC],
        "threshold": [F(1, 2), 0],
        "use_stochastic_rounding": [(True, dict(alpha="auto"))],
        "number_of_unrolls": [(3, dict(alpha="auto"))]}),
    "stochastic_ternary": ({"alpha": "auto"}, {
        "alpha": ["auto_po2", None], "threshold": [(F(1, 2), dict(alpha=None)),
                                                   (0, dict(alpha=None))],
        "temperature": [F(4)], "use_real_sigmoid": [False],
        "number_of_unrolls": [3]}),
    "binary": ({}, {
        "use_01": [True], "alpha": [F(2), "auto", "auto_po2", ALPHA_VEC],
        "use_stochastic_rounding": [True],
        "scale_axis": [(0, dict(alpha="auto"))],
        "elements_per_scale": [(2, dict(alpha="auto", scale_axis=1))],
        "min_po2_exponent": [(-2, dict(alpha="auto_po2")),
                             (0, dict(alpha="auto_po2"))],
        "max_po2_exponent": [(1, dict(alpha="auto_po2")),
                             (0, dict(alpha="auto_po2"))]}),
    "stochastic_binary": ({}, {
        "alpha": [F(2), "auto"], "temperature": [F(4)],
        "use_real_sigmoid": [False]}),
    "quantized_relu": ({}, {
        "bits": [5], "integer": [2], "use_sigmoid": [1],
        "negative_slope": [F(1, 4), F(1, 2)],
        "use_stochastic_rounding": [True],
        "relu_upper_bound": [(F(3, 2), dict(is_quantized_clip=False,
                                            qnoise_factor=F(1, 2))),
                             # the bound together with the default clip flag
                             # (which has precedence over it)
                             F(3, 2), (F(3, 2), dict(qnoise_factor=F(1, 2))),
                             (F(1, 2), dict(bits=4, integer=2))],
        "is_quantized_clip": [(False, dict(qnoise_factor=F(1, 2)))],
        "qnoise_factor": [F(1, 2)],
        "var_name": ["v"], "use_ste": [False], "use_variables": [True]}),
    "quantized_ulaw": ({}, {
        "bits": [5], "integer": [1], "symmetric": [1],
        "u": [F(100), F(31, 2)]}),
    "quantized_tanh": ({}, {
        "bits": [5], "use_stochastic_rounding": [True], "symmetric": [True],
        "use_real_tanh": [True]}),
    "quantized_sigmoid": ({}, {
        "bits": [5], "symmetric": [True], "use_real_sigmoid": [True],
        "use_stochastic_rounding": [True]}),
    "quantized_po2": ({}, {
        "bits": [5], "max_value": [F(2), 1, F(1, 2), 3, F(5, 4), F(3, 4)],
        "use_stochastic_rounding": [True],
        "quadratic_approximation": [True], "log2_rounding": ["floor"],
        "qnoise_factor": [F(1, 2), 0], "var_name": ["v"], "use_ste": [False],
        "use_variables": [True]}),
    "quantized_relu_po2": ({}, {
        "bits": [5], "max_value": [F(2), 1, F(1, 2), 3, F(5, 4), F(3, 4)],
        "negative_slope": [F(1, 4)],
        "use_stochastic_rounding": [True], "quadratic_approximation": [True],
        "log2_rounding": ["floor"], "qnoise_factor": [F(1, 2)],
        "var_name": ["v"], "use_ste": [False], "use_variables": [True]}),
    "quantized_hswish": ({}, {
        "bits": [5], "integer": [2], "symmetric": [1], "alpha": [F(2)],
        "use_stochastic_rounding": [True],
        "scale_axis": [(0, dict(alpha="auto"))], "qnoise_factor": [F(1, 2)],
        "var_name": ["v"], "use_variables": [True],
        "relu_shift": [2, F(5, 2)], "relu_upper_bound": [4, F(11, 2)]}),
}


# further round-trip points of this check only (option pairs around the
# boundary where a max_value stops needing an exponent sign bit)
EXTRA_POINTS = {
    "quantized_po2": [dict(max_value=F(5, 4), log2_rounding="floor"),
                      dict(max_value=F(2), quadratic_approximation=True),
                      dict(max_value=F(3, 2), log2_rounding="floor",
                           quadratic_approximation=True)],
    "quantized_relu_po2": [dict(max_value=F(5, 4), log2_rounding="floor"),
                           dict(max_value=F(2),
                                quadratic_approximation=True)],
}


def show_kw(kw):
  return ",".join("%s=%s" % (k, "PTS" if v is PTS else
                             qref.show_kwargs({k: v}).split("=", 1)[1])
                  for k, v in sorted(kw.items()))


def same_value(a, b):
  if isinstance(a, Tensor) or isinstance(b, Tensor):
    return isinstance(a, Tensor) and isinstance(b, Tensor) and \
        Fwd()(a.term) == Fwd()(b.term)
  if isinstance(a, (list, tuple)) and isinstance(b, (list, tuple)):
    return len(a) == len(b) and all(same_value(x, y) for x, y in zip(a, b))
  if isinstance(a, bool) or isinstance(b, bool):
    return (a == b)
  if a is None or b is None:
    return a is None and b is None
  try:
    return a == b
  except Exception:  # pylint: disable=broad-except
    return False


class _Probe(object):
  """Stand-in report: only records whether anything failed."""

  def __init__(self):
    self.failed = False
    self.extra = {}

  def ok(self, *a, **k):
    pass

  def fail(self, *a, **k):
    self.failed = True

  def check(self, cond, *a, **k):
    if not cond:
      self.failed = True
    return cond

  def unit(self, *a, **k):
    pass

  def sample(self, *a, **k):
    pass


def roundtrip(rep, repo, mod, cls, kw, varied):
  cfg = "%s(%s)" % (cls, show_kw(kw))
  ci = mod.classes[cls]
  unit = "%s::%s" % (mod.relpath, cls)
  pe = PE(repo)
  cref = pe.lookup_global(cls, mod)
  try:
    q = pe.call(cref, [], dict(kw))
  except PyRaise as e:
    raise AnalysisError("instance-count base configuration %s rejected: %s" %
                        (cfg, e))
  gc_owner, gc = ci.find_method("get_config")
  fc_owner, fc = ci.find_method("from_config")
  if gc is None or fc is None:
    rep.fail("R5", unit, "no-get_config/from_config",
             "class has no get_config or from_config")
    return
  loc = gc_owner.module.loc(gc)
  try:
    config = pe.call(pe.getattr(q, "get_config"), [], {})
  except PyRaise as e:
    rep.fail("R1", unit + ".get_config", "get_config-raises",
             "get_config() raises %s" % e, loc=loc, instance=cfg)
    return
  if not isinstance(config, dict):
    rep.fail("R1", unit + ".get_config", "get_config-not-a-dict",
             "get_config() returns %r" % (config,), loc=loc, instance=cfg)
    return
  params = [p for p, _ in ci.init_params()[0]]
  # R3 value fidelity
  for k, v in config.items():
    if k in kw:
      want = kw[k]
      ok = same_value(v, want)
      if not ok:
        # a constructor may normalise an option (e.g. "auto*" => symmetric);
        # the stored value must then stand for the same quantizer: built
        # with it instead of the given value, the function is the same
        try:
          pe_n = PE(repo)
          qa = pe_n.call(pe_n.lookup_global(cls, mod), [], dict(kw))
          qb = pe_n.call(pe_n.lookup_global(cls, mod), [],
                         dict(kw, **{k: v}))
          pe_n.rand_counter = 0
          oa = pe_n.call(qa, [pe_n.x_input()], {})
          pe_n.rand_counter = 0
          ob = pe_n.call(qb, [pe_n.x_input()], {})
          sy = {"post_training_scale": NF.sym("pts")}
          ok = all(equal_mod_finite(Fwd(ph, sy)(oa.term),
                                    Fwd(ph, sy)(ob.term))
                   for ph in ("infer", "train"))
        except PyRaise:
          ok = False
      rep.check(ok, "R3", unit + ".get_config", "value:" + k,
                "config[%r] = %r although the constructor was given %r, and "
                "a quantizer built with the stored value computes a "
                "different function" % (k, v, want), loc=loc, instance=cfg)
  # R1 from_config accepts
  stored = dict(config)     # the caller keeps this dictionary
  try:
    q2 = pe.call(pe.getattr(cref, "from_config"), [stored], {})
  except PyRaise as e:
    bad = [k for k in config if k not in params]
    rep.fail("R1", unit + ".from_config", "rejects-own-config" +
             (":" + ",".join(sorted(bad)) if bad else ""),
             "from_config(get_config()) raises %s; keys that are not "
             "constructor parameters: %s" % (e, sorted(bad)), loc=loc,
             instance=cfg)
    return
  rep.ok("R1")
  if not isinstance(q2, Obj):
    rep.fail("R1", unit + ".from_config", "returns-non-object",
             "from_config returns %r" % (q2,), loc=loc, instance=cfg)
    return
  # a stored config must stay usable: rebuilding from the same dictionary a
  # second time gives the same quantizer as the first time
  q2b = None
  try:
    q2b = pe.call(pe.getattr(cref, "from_config"), [stored], {})
  except PyRaise as e:
    rep.fail("R1", unit + ".from_config", "second-rebuild-rejected",
             "from_config on the same dictionary a second time raises %s "
             "(the first call modified the caller's dictionary)" % e,
             loc=loc, instance=cfg)
  if isinstance(q2b, Obj):
    diff = sorted(a for a in set(q2.attrs) | set(q2b.attrs)
                  if not same_value(q2.attrs.get(a), q2b.attrs.get(a)))
    rep.check(not diff, "R1", unit + ".from_config",
              "second-rebuild-differs",
              "rebuilding twice from the same stored config gives different "
              "quantizers (attributes %s): from_config modified the "
              "dictionary it was given (keys now %s, were %s)" %
              (diff, sorted(stored), sorted(config)), loc=loc, instance=cfg)
  # R4 idempotent rewrites
  try:
    config2 = pe.call(pe.getattr(q2, "get_config"), [], {})
    same = set(config2) == set(config) and all(
        same_value(config2[k], config[k]) for k in config)
    rep.check(same, "R4", unit, "config-not-idempotent",
              "get_config() of the rebuilt quantizer differs from the "
              "original config", loc=loc, instance=cfg)
  except PyRaise as e:
    rep.fail("R4", unit, "config-not-idempotent", "get_config of the rebuilt "
             "object raises %s" % e, loc=loc, instance=cfg)
  # R2 same function
  try:
    pe.rand_counter = 0
    o1 = pe.call(q, [pe.x_input()], {})
  except PyRaise:
    return    # the configuration itself is rejected at call time
  try:
    pe.rand_counter = 0
    o2 = pe.call(q2, [pe.x_input()], {})
  except PyRaise as e:
    rep.fail("R2", unit, "call-raises-after-roundtrip:" + (varied or "base"),
             "calling the rebuilt quantizer raises %s" % e, loc=loc,
             instance=cfg)
    return
  syms = {"post_training_scale": NF.sym("pts")}
  diffs = []
  for ph in ("infer", "train"):
    f1, f2 = Fwd(ph, syms)(o1.term), Fwd(ph, syms)(o2.term)
    if not equal_mod_finite(f1, f2):
      diffs.append((ph, f1, f2))
  s1, s2 = q.attrs.get("scale"), q2.attrs.get("scale")
  scale_same = True
  if isinstance(s1, Tensor) and isinstance(s2, Tensor):
    scale_same = equal_mod_finite(Fwd("infer", syms)(s1.term),
                                  Fwd("infer", syms)(s2.term))
  if not diffs and scale_same:
    rep.ok("R2")
    return
  # diagnosis: which attributes differ between the two objects
  changed = sorted(a for a in set(q.attrs) | set(q2.attrs)
                   if a not in ("built", "scale", "quantization_scale") and
                   not same_value(q.attrs.get(a), q2.attrs.get(a)))
  lost = sorted(p for p in params if p not in config and p in kw)
  # isolate the culprits: restore one lost option at a time on top of the
  # config and see whether that changes the rebuilt quantizer's function
  culprits = []
  if varied not in lost and len(lost) > 1:
    for p_ in lost:
      try:
        c3 = dict(config)
        c3[p_] = kw[p_]
        pe.rand_counter = 0
        q3 = pe.call(cref, [], c3)
        pe.rand_counter = 0
        o3 = pe.call(q3, [pe.x_input()], {})
        if any(not equal_mod_finite(Fwd(ph_, syms)(o3.term),
                                    Fwd(ph_, syms)(o2.term))
               for ph_ in ("infer", "train")):
          culprits.append(p_)
      except PyRaise:
        culprits.append(p_)
    if culprits:
      lost = culprits
  tag = varied if varied in lost else (",".join(lost) or ",".join(changed))
  ph, f1, f2 = diffs[0] if diffs else ("infer", None, None)
  rep.fail("R2", unit + ".get_config", "option-lost:" + tag,
           "the quantizer rebuilt from its own config computes a different "
           "function: option(s) %s are not in get_config() (attributes that "
           "differ after the round trip: %s); %s forward %s vs %s" %
           (lost, changed, ph, show(f1, 160) if f1 is not None else "-",
            show(f2, 160) if f2 is not None else "-"), loc=loc, instance=cfg,
           facts={"config": cfg, "lost": lost, "changed_attrs": changed})


def roundtrip_after_change(rep, repo, mod, cls, kw):
  """R6: the configuration describes the quantizer as it IS, not as it was
  constructed: after the library's own ways of changing a live quantizer
  (_set_trainable_parameter(), update_qnoise_factor(v), assignment to an
  option attribute that get_config reports) the quantizer rebuilt from
  get_config() computes the same function as the changed object."""
  ci = mod.classes[cls]
  unit = "%s::%s.get_config" % (mod.relpath, cls)
  gc_owner, gc = ci.find_method("get_config")
  fc_owner, fc = ci.find_method("from_config")
  if gc is None or fc is None:
    return 0
  loc = gc_owner.module.loc(gc)
  changes = []
  if ci.find_method("_set_trainable_parameter")[1] is not None:
    changes.append(("_set_trainable_parameter()", lambda pe, q: pe.call(
        pe.getattr(q, "_set_trainable_parameter"), [], {})))
  if ci.find_method("update_qnoise_factor")[1] is not None and \
      "qnoise_factor" in [p_ for p_, _ in ci.init_params()[0]]:
    changes.append(("update_qnoise_factor(1/4)", lambda pe, q: pe.call(
        pe.getattr(q, "update_qnoise_factor"), [F(1, 4)], {})))
    changes.append(("update_qnoise_factor(0)", lambda pe, q: pe.call(
        pe.getattr(q, "update_qnoise_factor"), [F(0)], {})))
  # use: a quantizer that has been called - on a tensor of another rank than
  # the probe - is still described by its configuration (nothing the call
  # left behind may steer later calls)
  changes.append(("a call on a rank-3 tensor", lambda pe, q: pe.call(
      q, [Tensor(("x",), (3, 5, 7))], {})))
  changes.append(("a call on a rank-1 tensor", lambda pe, q: pe.call(
      q, [Tensor(("x",), (5,))], {})))
  if "set_internal_sigmoid" in mod.functions:
    # the library's switch of its internal sigmoid (module state): the live
    # object and the one rebuilt afterwards must follow it alike
    for mode in ("smooth", "real"):
      changes.append(("set_internal_sigmoid(%r)" % mode, lambda pe, q,
                      mode=mode: pe.call(pe.lookup_global(
                          "set_internal_sigmoid", mod), [mode], {})))
  if cls == "quantized_linear":
    # its constructor documents alpha, symmetric and qnoise_factor as
    # modifiable attributes
    def setter(name, val):
      return lambda pe, q: q.attrs.__setitem__(name, val)
    changes += [("q.alpha = 2", setter("alpha", F(2))),
                ("q.alpha = None", setter("alpha", None)),
                ("q.alpha = 'auto'", setter("alpha", "auto")),
                ("q.symmetric = 0", setter("symmetric", 0)),
                ("q.symmetric = True", setter("symmetric", True)),
                ("q.qnoise_factor = 1/2", setter("qnoise_factor", F(1, 2)))]
  n = 0
  for label, change in changes:
    cfg = "%s(%s) after %s" % (cls, show_kw(kw), label)
    pe = PE(repo)
    cref = pe.lookup_global(cls, mod)
    try:
      q = pe.call(cref, [], dict(kw))
      change(pe, q)
      config = pe.call(pe.getattr(q, "get_config"), [], {})
      q2 = pe.call(pe.getattr(cref, "from_config"), [dict(config)], {})
    except PyRaise:
      continue      # decided by R1 on the unchanged object
    if not isinstance(q2, Obj):
      continue
    try:
      pe.rand_counter = 0
      o1 = pe.call(q, [pe.x_input()], {})
      pe.rand_counter = 0
      o2 = pe.call(q2, [pe.x_input()], {})
    except PyRaise:
      continue
    n += 1
    syms = {"post_training_scale": NF.sym("pts")}
    bad = None
    for ph in ("infer", "train"):
      f1, f2 = Fwd(ph, syms)(o1.term), Fwd(ph, syms)(o2.term)
      if not equal_mod_finite(f1, f2):
        bad = bad or (ph, f1, f2)
    changed = sorted(a for a in set(q.attrs) | set(q2.attrs)
                     if a not in ("built", "scale", "quantization_scale") and
                     not same_value(q.attrs.get(a), q2.attrs.get(a)))
    rep.check(bad is None, "R6", unit, "config-describes-construction-time",
              "%s: the quantizer rebuilt from get_config() differs from the "
              "live object (attributes %s)%s" % (
                  cfg, changed, "" if bad is None else "; %s forward %s vs "
                  "%s" % (bad[0], show(bad[1], 140), show(bad[2], 140))),
              loc=loc, instance=cfg)
  return n


def rule_setters(rep, repo, mod, cls, base, alts, rule="R7"):
  """R7: a constructor option that the class exposes through a property
  SETTER is one the class promises to honour when assigned on a live object
  (that is what the setter is for: keeping derived state in step).  After
  `q.opt = v` the object computes the function of a quantizer freshly built
  with opt=v (all other options equal), also when q was called before."""
  ci = mod.classes[cls]
  params = [p_ for p_, _ in ci.init_params()[0]]
  n = 0
  for opt in params:
    owner, fn = ci.find_method(opt + ".setter")
    if fn is None:
      continue
    unit = "%s::%s.%s.setter" % (mod.relpath, cls, opt)
    vals = []
    for v in alts.get(opt, []):
      ctx = {}
      if isinstance(v, tuple):
        v, ctx = v
      vals.append((v, ctx))
    # larger / smaller values than the lattice alternative as well
    if opt == "max_value":
      vals += [(F(64), {}), (F(16), {}), (F(1, 4), {})]
    for v, ctx in vals:
      kw_a = dict(base)
      kw_a.update(ctx)
      kw_b = dict(kw_a)
      kw_b[opt] = v
      for first, second in ((kw_a, kw_b), (kw_b, kw_a)):
        if opt not in second:
          continue
        for called in (False, True):
          cfg = "%s(%s)%s then q.%s = %s" % (
              cls, show_kw(first), " called once," if called else "", opt,
              show_kw({opt: second[opt]}).split("=", 1)[1])
          pe = PE(repo)
          cref = pe.lookup_global(cls, mod)
          try:
            q = pe.call(cref, [], dict(first))
            if called:
              pe.call(q, [pe.x_input()], {})
            pe.setattr(q, opt, second[opt])
            fresh = pe.call(cref, [], dict(second))
            pe.rand_counter = 0
            o1 = pe.call(q, [pe.x_input()], {})
            pe.rand_counter = 0
            o2 = pe.call(fresh, [pe.x_input()], {})
          except PyRaise:
            continue
          n += 1
          syms = {"post_training_scale": NF.sym("pts")}
          bad = None
          for ph in ("infer", "train"):
            f1, f2 = Fwd(ph, syms)(o1.term), Fwd(ph, syms)(o2.term)
            if not equal_mod_finite(f1, f2):
              bad = bad or (ph, f1, f2)
          rep.check(bad is None, rule, unit, "setter-leaves-stale-state",
                    "%s: the object differs from a freshly built %s(%s)%s" % (
                        cfg, cls, show_kw(second), "" if bad is None else
                        ": %s forward %s vs %s" % (
                            bad[0], show(bad[1], 140), show(bad[2], 140))),
                    loc=owner.module.loc(fn), instance=cfg)
  return n


# Options whose late assignment today's code does NOT honour, with the reason
# (confirmed by reading the constructors); everything else is read at call
# time.
NOT_LIVE = {
    ("quantized_bits", "post_training_scale"):
        "freeze_scale is decided once in __init__ from post_training_scale",
    ("quantized_po2", "bits"): "_min_exp/_max_exp are derived in __init__",
    ("quantized_po2", "max_value"):
        "the exponent sign bit is derived in __init__",
    ("quantized_po2", "quadratic_approximation"):
        "_max_exp is derived in __init__",
    ("quantized_relu_po2", "bits"):
        "_min_exp/_max_exp are derived in __init__",
    ("quantized_relu_po2", "max_value"):
        "the exponent sign bit is derived in __init__",
    ("quantized_relu_po2", "quadratic_approximation"):
        "_max_exp is derived in __init__",
}


def rule_live_options(rep, repo, mod, classes, rule="R8", only=None):
  """Live options.  The quantizers read their options when they are called,
  not when they are built (the library itself retunes live objects:
  `_set_trainable_parameter`, `update_qnoise_factor`, QAdaptiveActivation
  writes `integer` / `relu_upper_bound` / `keep_negative` into its quantizer,
  and `get_config()` / `__str__` report the current attribute values).  For
  every constructor option except the few derived-state ones in NOT_LIVE:
  after `q.opt = v` - on a fresh object and on one that was called before -
  the object computes what a quantizer built with opt=v computes, so the
  configuration it reports describes its function."""
  n = 0
  syms = {"post_training_scale": NF.sym("pts")}
  for cls in classes:
    ci = mod.classes[cls]
    base, alts = ALTS[cls]
    params = [p_ for p_, _ in ci.init_params()[0]]
    unit = "%s::%s" % (mod.relpath, cls)
    for opt, vals in sorted(alts.items()):
      if opt not in params or (cls, opt) in NOT_LIVE or opt in (
          "var_name", "use_variables") or (only and opt not in only):
        continue
      if ci.find_method(opt + ".setter")[1] is not None:
        continue      # decided by the property-setter rule (R7)
      for v in vals:
        ctx = {}
        if isinstance(v, tuple):
          v, ctx = v
        if v is PTS:
          continue
        kw_a = dict(base)
        kw_a.update(ctx)
        kw_b = dict(kw_a)
        kw_b[opt] = v
        for called in (False, True):
          cfg = "%s(%s)%s then q.%s = %s" % (
              cls, show_kw(kw_a), " called once," if called else "", opt,
              show_kw({opt: v}).split("=", 1)[1])
          pe = PE(repo)
          cref = pe.lookup_global(cls, mod)
          try:
            a = pe.call(cref, [], dict(kw_a))
            if called:
              pe.call(a, [pe.x_input()], {})
            pe.setattr(a, opt, v)
            b = pe.call(cref, [], dict(kw_b))
            pe.rand_counter = 0
            oa = pe.call(a, [pe.x_input()], {})
            pe.rand_counter = 0
            ob = pe.call(b, [pe.x_input()], {})
          except PyRaise:
            continue
          n += 1
          bad = None
          for ph in ("infer", "train"):
            f1, f2 = Fwd(ph, syms)(oa.term), Fwd(ph, syms)(ob.term)
            if not equal_mod_finite(f1, f2):
              bad = bad or (ph, f1, f2)
          rep.check(bad is None, rule, unit, "option-read-at-construction:" +
                    opt,
                    "%s: the object does not compute what %s(%s) computes%s "
                    "although get_config() / str() now report %s=%s" % (
                        cfg, cls, show_kw(kw_b), "" if bad is None else
                        " (%s forward %s vs %s)" % (
                            bad[0], show(bad[1], 120), show(bad[2], 120)),
                        opt, show_kw({opt: v}).split("=", 1)[1]),
                    loc=ci.loc(), instance=cfg)
  return n


def rule_array_layout(rep, repo, mod, rule="R9"):
  """An array-valued option keeps its LAYOUT through the configuration:
  the shape of a frozen post_training_scale is the only record of the axis
  its entries belong to (get_config does not store scale_axis), so the value
  rebuilt by from_config(get_config()) has to have the same shape and the
  same entries as the one the quantizer holds - for scales laid out along
  the first axis, a middle axis, the last axis, and for a plain vector."""
  from ..pe import NDArr, nd_equal
  n = 0
  for cls, ci in sorted(mod.classes.items()):
    params = [p for p, _ in ci.init_params()[0]]
    if "post_training_scale" not in params or cls not in ALTS:
      continue
    gc_owner, gc = ci.find_method("get_config")
    unit = "%s::%s.get_config" % (mod.relpath, cls)
    loc = gc_owner.module.loc(gc)
    vals = [F(1, 2), F(1), F(2), F(4), F(8), F(16)]
    for label, arr in (
        ("shape (4, 1)", NDArr([[v] for v in vals[:4]])),
        ("shape (1, 6)", NDArr([list(vals)])),
        ("shape (1, 1, 5, 1)", NDArr.from_flat(vals[:5], (1, 1, 5, 1))),
        ("shape (3, 1, 1)", NDArr.from_flat(vals[:3], (3, 1, 1))),
        ("vector of 6", NArr(vals))):
      cfg = "%s(alpha='auto_po2', post_training_scale of %s)" % (cls, label)
      pe = PE(repo)
      cref = pe.lookup_global(cls, mod)
      try:
        q = pe.call(cref, [], dict(alpha="auto_po2",
                                   post_training_scale=arr))
        config = pe.call(pe.getattr(q, "get_config"), [], {})
        q2 = pe.call(pe.getattr(cref, "from_config"), [dict(config)], {})
      except PyRaise as e:
        rep.fail(rule, unit, "array-option-round-trip-raises",
                 "%s: %s" % (cfg, e), loc=loc, instance=cfg)
        continue
      a1 = q.attrs.get("post_training_scale")
      a2 = q2.attrs.get("post_training_scale") if isinstance(q2, Obj) \
          else None
      n += 1

      def text(a):
        if isinstance(a, NDArr):
          return "shape %s entries %s" % (tuple(a.shape),
                                          [str(e) for e in a.flat()])
        if isinstance(a, list):
          return "shape (%d,) entries %s" % (len(a), [str(e) for e in a])
        return repr(a)
      ok = isinstance(a1, (NDArr, list)) and isinstance(a2, (NDArr, list)) \
          and nd_equal(a1, a2)
      rep.check(ok, rule, unit, "array-option-layout-lost",
                "%s: the rebuilt quantizer holds %s, the original %s" %
                (cfg, text(a2), text(a1)), loc=loc, instance=cfg)
  return n


def rule_construction_history(rep, repo, mod, classes, rule, unit_method=
                              "__call__"):
  """What a quantizer computes depends on its own options, not on the
  quantizers that were built and used before it in the same process.  In
  ONE interpreter (module globals, class attributes and memoised helpers
  persist) every option alternative of the given classes is constructed and
  called first; then the base configuration and every alternative are built
  again in that interpreter and compared - forward function in both phases,
  recorded scale, min() / max() - with the same configuration built in a
  fresh interpreter."""
  points = []
  for cls in classes:
    base, alts = ALTS[cls]
    ci = mod.classes[cls]
    params = [p for p, _ in ci.init_params()[0]]
    points.append((cls, dict(base)))
    for p, vals in sorted(alts.items()):
      if p not in params:
        continue
      for v in vals:
        ctx = {}
        if isinstance(v, tuple):
          v, ctx = v
        if v is PTS or isinstance(v, NArr) or p in ("var_name",
                                                    "use_variables"):
          continue
        points.append((cls, dict(base, **dict(ctx, **{p: v}))))
  shared = PE(repo)

  def use(pe, cls, kw):
    cref = pe.lookup_global(cls, mod)
    q = pe.call(cref, [], dict(kw))
    pe.rand_counter = 0
    out = pe.call(q, [pe.x_input()], {})
    rep_ = {}
    for m in ("min", "max"):
      try:
        rep_[m] = pe.call(pe.getattr(q, m), [], {})
      except (PyRaise, Unsupported):
        rep_[m] = None
    # its printed form and what its own configuration rebuilds
    try:
      rep_["str"] = prims.call(pe, "str", [q], {}, None)
    except (PyRaise, Unsupported):
      rep_["str"] = None
    try:
      config = pe.call(pe.getattr(q, "get_config"), [], {})
      q2 = pe.call(pe.getattr(cref, "from_config"), [dict(config)], {})
      pe.rand_counter = 0
      rep_["rebuilt"] = pe.call(q2, [pe.x_input()], {})
    except (PyRaise, Unsupported):
      rep_["rebuilt"] = None
    return q, out, rep_
  # the history: everything once
  for cls, kw in points:
    try:
      use(shared, cls, kw)
    except (PyRaise, Unsupported, ConfigRejected):
      pass
  n = 0
  for cls, kw in points:
    unit = "%s::%s.%s" % (mod.relpath, cls, unit_method)
    cfg = "%s(%s) built after %d other quantizers" % (cls, show_kw(kw),
                                                       len(points))
    try:
      qf, of, rf = use(PE(repo), cls, kw)
    except (PyRaise, Unsupported, ConfigRejected):
      continue
    try:
      qs, os_, rs = use(shared, cls, kw)
    except (PyRaise, Unsupported, ConfigRejected) as e:
      rep.fail(rule, unit, "raises-after-other-quantizers",
               "%s raises %s (alone it does not)" % (cfg, e), instance=cfg)
      continue
    n += 1
    syms = {"post_training_scale": NF.sym("pts")}
    bad = None
    for ph in ("infer", "train"):
      f1, f2 = Fwd(ph, syms)(os_.term), Fwd(ph, syms)(of.term)
      if not equal_mod_finite(f1, f2):
        bad = bad or "%s forward %s, alone %s" % (ph, show(f1, 140),
                                                  show(f2, 140))
    for m in ("min", "max"):
      if bad is None and not same_value(rs[m], rf[m]):
        bad = "%s() = %r, alone %r" % (m, rs[m], rf[m])
    if bad is None and rs["str"] != rf["str"]:
      bad = "str() = %r, alone %r" % (rs["str"], rf["str"])
    if bad is None and isinstance(rs["rebuilt"], Tensor) and isinstance(
        rf["rebuilt"], Tensor):
      for ph in ("infer", "train"):
        f1 = Fwd(ph, syms)(rs["rebuilt"].term)
        f2 = Fwd(ph, syms)(rf["rebuilt"].term)
        if bad is None and not equal_mod_finite(f1, f2):
          bad = "rebuilt from its own config: %s forward %s, alone %s" % (
              ph, show(f1, 140), show(f2, 140))
    rep.check(bad is None, rule, unit, "depends-on-earlier-quantizers",
              "%s: %s" % (cfg, bad), loc=shared.loc_of(os_.term),
              instance="%s(%s)" % (cls, show_kw(kw)))
  return n


def rule_registry(rep, repo, mod):
  reg = repo.module("qkeras.quantizer_registry")
  base = repo.module("qkeras.registry")
  imp = repo.module("qkeras.quantizer_imports")
  unit = "%s::registry" % reg.relpath
  decorated = [c.name for c in mod.classes.values()
               if any(d.endswith("register_quantizer") for d in c.decorators)]
  rep.extra["registered_quantizers"] = sorted(decorated)
  rep.check(sorted(decorated) == sorted(qref.ALL_QUANTIZERS), "R5",
            "%s::register_quantizer" % mod.relpath, "registered-set",
            "classes decorated with register_quantizer: %s; expected the 14 "
            "quantizers %s" % (sorted(decorated),
                               sorted(qref.ALL_QUANTIZERS)))
  # register_quantizer registers under the class's own name and returns it
  fn = reg.functions.get("register_quantizer")
  lk = reg.functions.get("lookup_quantizer")
  if fn is None or lk is None:
    raise AnalysisError("anchor-missing quantizer_registry functions")
  src = ast.unparse(fn)
  calls = [n for n in ast.walk(fn) if isinstance(n, ast.Call) and
           isinstance(n.func, ast.Attribute) and n.func.attr == "register"]
  ok = len(calls) == 1 and len(calls[0].args) == 1 and \
      isinstance(calls[0].args[0], ast.Name) and \
      calls[0].args[0].id == fn.args.args[0].arg and not calls[0].keywords
  rets = [n for n in ast.walk(fn) if isinstance(n, ast.Return)]
  ok = ok and len(rets) == 1 and isinstance(rets[0].value, ast.Name) and \
      rets[0].value.id == fn.args.args[0].arg
  rep.check(ok, "R5", "%s::register_quantizer" % reg.relpath,
            "decorator-shape",
            "register_quantizer must register its argument under the "
            "default name and return it: %s" % src, loc=reg.loc(fn))
  reg_recv = ast.unparse(calls[0].func.value) if calls else None
  lcalls = [n for n in ast.walk(lk) if isinstance(n, ast.Call) and
            isinstance(n.func, ast.Attribute) and n.func.attr == "lookup"]
  rep.check(len(lcalls) == 1 and ast.unparse(lcalls[0].func.value) ==
            reg_recv and len(lcalls[0].args) == 1 and
            isinstance(lcalls[0].args[0], ast.Name) and
            lcalls[0].args[0].id == lk.args.args[0].arg, "R5",
            "%s::lookup_quantizer" % reg.relpath, "lookup-shape",
            "lookup_quantizer must look its argument up in the registry "
            "that register_quantizer fills", loc=reg.loc(lk))
  # Registry.register / lookup use item.__name__ and the same container
  rc = base.classes.get("Registry")
  if rc is None:
    raise AnalysisError("anchor-missing class qkeras.registry.Registry")
  pe = PE(repo)
  robj = pe.call(ClassRef(rc), [], {})
  probe = ClassRef(mod.classes["quantized_bits"])
  pe.call(pe.getattr(robj, "register"), [probe], {})
  try:
    got = pe.call(pe.getattr(robj, "lookup"), ["quantized_bits"], {})
  except PyRaise as e:
    got = e
  rep.check(got is probe, "R5", "%s::Registry" % base.relpath,
            "register/lookup-by-__name__",
            "Registry.register(cls) followed by lookup(cls.__name__) yields "
            "%r" % (got,), loc=rc.loc())
  # every public name resolves to the class of that name: all quantizer
  # classes are registered in their definition order (a parent such as
  # `ternary` before `stochastic_ternary`, whose name ends with it) and each
  # name is then looked up
  pe3 = PE(repo)
  try:
    r_all = pe3.call(ClassRef(rc), [], {})
    for cname in qref.ALL_QUANTIZERS:
      pe3.call(pe3.getattr(r_all, "register"), [ClassRef(mod.classes[cname])],
               {})
    wrong = []
    for cname in qref.ALL_QUANTIZERS:
      try:
        g = pe3.call(pe3.getattr(r_all, "lookup"), [cname], {})
      except PyRaise as e:
        g = "raises %s" % e
      if not (isinstance(g, ClassRef) and g.cls is mod.classes[cname]):
        wrong.append("%s -> %s" % (cname, g.cls.name if isinstance(
            g, ClassRef) else g))
    try:
      unknown = pe3.call(pe3.getattr(r_all, "lookup"), ["no_such_quantizer"],
                         {})
    except PyRaise:
      unknown = None
    rep.check(not wrong and unknown is None, "R5", "%s::Registry" %
              base.relpath, "lookup-resolves-another-class",
              "with all %d quantizer classes registered: %s; an unknown name "
              "resolves to %r (expected an error)" % (
                  len(qref.ALL_QUANTIZERS), ", ".join(wrong) or
                  "every name resolves to its class", unknown), loc=rc.loc())
  except PyRaise as e:
    rep.fail("R5", "%s::Registry" % base.relpath, "registry-raises",
             "registering every quantizer class: raises %s" % e,
             loc=rc.loc())
  # registries are isolated from one another: what a second Registry()
  # registers - even under a quantizer's name - is invisible to the first
  pe2 = PE(repo)
  try:
    r1 = pe2.call(ClassRef(rc), [], {})
    pe2.call(pe2.getattr(r1, "register"), [probe], {})
    r2 = pe2.call(ClassRef(rc), [], {})
    foreign = ClassRef(mod.classes["quantized_relu"])
    pe2.call(pe2.getattr(r2, "register"), [foreign], {
        "name": "quantized_bits"})
    got1 = pe2.call(pe2.getattr(r1, "lookup"), ["quantized_bits"], {})
    got2 = pe2.call(pe2.getattr(r2, "lookup"), ["quantized_bits"], {})
    try:
      leaked = pe2.call(pe2.getattr(r2, "lookup"), ["quantized_relu"], {})
    except PyRaise:
      leaked = None
    r3 = pe2.call(ClassRef(rc), [], {})
    try:
      fresh = pe2.call(pe2.getattr(r3, "lookup"), ["quantized_bits"], {})
    except PyRaise:
      fresh = None
    rep.check(got1 is probe and got2 is foreign and leaked is None and
              fresh is None, "R5", "%s::Registry" % base.relpath,
              "registries-share-state",
              "after a second Registry() registered another object under "
              "the name 'quantized_bits' the first one resolves the name to "
              "%r (expected its own entry), the second to %r, and a third, "
              "fresh registry to %r (expected nothing)" % (got1, got2,
                                                           fresh),
              loc=rc.loc())
  except PyRaise as e:
    rep.fail("R5", "%s::Registry" % base.relpath, "registry-raises",
             "two registries: raises %s" % e, loc=rc.loc())
  # quantizer_imports re-exports exactly the registered names
  exported = sorted(n for n, t in imp.imports.items()
                    if t.startswith("qkeras.quantizers."))
  rep.check(exported == sorted(decorated), "R5",
            "%s::imports" % imp.relpath, "reexport-set",
            "quantizer_imports exports %s, registered are %s" %
            (exported, sorted(decorated)))
  for n, t in sorted(imp.imports.items()):
    if t.startswith("qkeras.quantizers."):
      rep.check(t == "qkeras.quantizers." + n, "R5",
                "%s::imports" % imp.relpath, "reexport-alias:" + n,
                "%s is bound to %s" % (n, t))
  # get_quantizer dict branch hands module globals to the deserialiser
  gq = mod.functions.get("get_quantizer")
  if gq is None:
    raise AnalysisError("anchor-missing function get_quantizer")
  ok = False
  for n in ast.walk(gq):
    if isinstance(n, ast.Call) and ast.unparse(n.func).endswith(
        "deserialize_keras_object"):
      for k in n.keywords:
        if k.arg == "module_objects" and ast.unparse(k.value) == "globals()":
          ok = True
  rep.check(ok, "R5", "%s::get_quantizer" % mod.relpath,
            "dict-branch-module-objects",
            "the dict branch of get_quantizer must deserialise with "
            "module_objects=globals()", loc=mod.loc(gq))
  for c in decorated:
    ci = mod.classes[c]
    _, fc = ci.find_method("from_config")
    owner = ci.find_method("from_config")[0]
    rep.check(fc is not None and "from_config" in owner.classmethods and
              ci.find_method("get_config")[1] is not None, "R5",
              "%s::%s" % (mod.relpath, c), "config-methods",
              "needs get_config and a from_config classmethod", loc=ci.loc())


def run(rep, repo, tier):
  mod = repo.module(quant.QMOD)
  rep.trusted.append("Keras serialize/deserialize_keras_object call "
                     "cls.from_config(config) (trusted)")
  rule_registry(rep, repo, mod)
  npoints = 0
  for cls in qref.ALL_QUANTIZERS:
    if cls not in mod.classes:
      raise AnalysisError("anchor-missing class %s" % cls)
    if cls not in ALTS:
      raise AnalysisError("anchor-missing C09 option table for %s" % cls)
    base, alts = ALTS[cls]
    ci = mod.classes[cls]
    params = [p for p, _ in ci.init_params()[0]]
    rep.unit("%s::%s" % (mod.relpath, cls))
    missing = [p for p in params if p not in alts]
    rep.check(not missing, "R2", "%s::%s.__init__" % (mod.relpath, cls),
              "option-without-roundtrip-coverage:" + ",".join(missing),
              "constructor option(s) %s are not covered by the round-trip "
              "option table of the checker" % missing, loc=ci.loc())
    roundtrip(rep, repo, mod, cls, dict(base), None)
    npoints += 1
    nchanged = roundtrip_after_change(rep, repo, mod, cls, dict(base))
    if "alpha" in params:
      nchanged += roundtrip_after_change(rep, repo, mod, cls,
                                         dict(base, alpha=None))
      nchanged += roundtrip_after_change(rep, repo, mod, cls,
                                         dict(base, alpha="auto"))
      if cls == "quantized_linear":
        nchanged += roundtrip_after_change(rep, repo, mod, cls,
                                           dict(base, alpha=F(3)))
    rep.extra["roundtrips_after_change"] = rep.extra.get(
        "roundtrips_after_change", 0) + nchanged
    rep.extra["property_setter_assignments_checked"] = rep.extra.get(
        "property_setter_assignments_checked", 0) + rule_setters(
            rep, repo, mod, cls, base, alts)
    for p, vals in sorted(alts.items()):
      if p not in params:
        continue
      for v in vals:
        ctx = {}
        if isinstance(v, tuple):
          v, ctx = v
        kw = dict(base)
        kw.update(ctx)
        kw[p] = v
        roundtrip(rep, repo, mod, cls, kw, p)
        npoints += 1
    for extra in EXTRA_POINTS.get(cls, []):
      roundtrip(rep, repo, mod, cls, dict(base, **extra),
                "+".join(sorted(extra)))
      npoints += 1
  rep.extra["live_option_assignments_checked"] = rule_live_options(
      rep, repo, mod, qref.ALL_QUANTIZERS)
  rep.require_instances("R8", 150)
  rule_array_layout(rep, repo, mod)
  rep.require_instances("R9", 5)
  rep.extra["construction_histories"] = rule_construction_history(
      rep, repo, mod, qref.ALL_QUANTIZERS, "R10")
  rep.require_instances("R10", 100)
  if tier == "thorough":
    for cls, kw in qref.lattice_all("quick", with_f=False):
      roundtrip(rep, repo, mod, cls, dict(kw), None)
      npoints += 1
    # every pair of option alternatives (an option may only matter - or only
    # be mis-serialised - together with another one)
    for cls in qref.ALL_QUANTIZERS:
      base, alts = ALTS[cls]
      params = [p for p, _ in mod.classes[cls].init_params()[0]]
      flat = []
      for p, vals in sorted(alts.items()):
        if p not in params:
          continue
        for v in vals:
          ctx = {}
          if isinstance(v, tuple):
            v, ctx = v
          if not ctx:
            flat.append((p, v))
      single_ok = {}
      for p1, v1 in flat:
        pr = _Probe()
        try:
          roundtrip(pr, repo, mod, cls, dict(base, **{p1: v1}), p1)
        except AnalysisError:
          pr.failed = True
        single_ok[(p1, repr(v1))] = not pr.failed
      for (p1, v1), (p2, v2) in itertools.combinations(flat, 2):
        if p1 == p2 or not (single_ok[(p1, repr(v1))] and
                            single_ok[(p2, repr(v2))]):
          continue    # each option alone is decided (and reported) above
        kw = dict(base)
        kw[p1], kw[p2] = v1, v2
        pr = _Probe()
        try:
          roundtrip(pr, repo, mod, cls, kw, p1 + "+" + p2)
        except AnalysisError:
          continue    # the combination is rejected by the constructor
        npoints += 1
        if pr.failed:
          roundtrip(rep, repo, mod, cls, kw, p1 + "+" + p2)
        else:
          rep.ok("R2")
  rep.extra["configuration_points"] = npoints
  rep.sample({"classes": list(qref.ALL_QUANTIZERS),
              "points": npoints,
              "example": "quantized_bits(alpha='auto',scale_axis=0): "
                         "get_config -> from_config -> forward NF compared"})
  rep.require_instances("R1", 90)
  rep.require_instances("R2", 90)
  rep.require_instances("R3", 90)
  rep.require_instances("R5", 20)
  rep.require_instances("R6", 20)
