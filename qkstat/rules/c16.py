"""C16 - qtools multiplier output types.

The multiplier factory and the IMultiplier subclasses are partially
evaluated with the operand widths kept symbolic (bits b, integer bits i per
operand; signedness enumerated), which yields closed forms for the output
type that hold for all widths at once.

R1 table shape: multiplier_impl_table is 6x6 and the mode constants of the
   IQuantizer subclasses index it in the documented order.
R2 commutativity: implementation class, output kind and output widths are
   symmetric in (weight, input).
R3 implementation kind against a reference matrix derived from the operand
   semantics; R3' output kind matrix (closure of the operand value sets).
R4 sign rule: output.is_signed == weight.is_signed | input.is_signed.
R5 both operands flow into the output widths where the kind requires it.
R6 sufficiency (max-affine forms, all widths): fixed x fixed needs
   int >= i_w + i_x and frac >= f_w + f_x; a shifter needs int >= i + max_exp
   and frac >= f + |min_exp|; selecting (mux / and) a multi-bit operand keeps
   its integer and fractional bits.
"""
from fractions import Fraction as F

from ..loader import AnalysisError
from ..pe import PE, Tensor, Obj, PyRaise, ClassRef, Unsupported
from ..qir import Fwd, simplify_app
from ..nf import NF, show
from .. import typearith as ta

TECHNIQUE = ("Partial evaluation of the multiplier factory / implementation "
             "classes with symbolic operand widths; table and symmetry "
             "checks; max-affine inequality proofs (normal-form identity, "
             "else witness search) for representability.")

MF = "qkeras.qtools.quantized_operators.multiplier_factory"

# reference: how a product of the two operand kinds is implemented
# (0 fixed, 1 po2, 2 ternary, 3 binary +-1, 4 binary 0/1, 5 float)
REF_IMPL = [
    # fixed: true multiplier; x po2: shift; x {-1,0,1}/{-1,1}: select +-x/0
    # (mux); x {0,1}: gate (and); float operand: float multiplier
    ["mul", "shifter", "mux", "mux", "and", "mul"],
    # po2 x po2: exponents add
    ["shifter", "add", "mux", "mux", "and", "mul"],
    ["mux", "mux", "mux", "mux", "and", "mul"],
    # +-1 x +-1: xor of the sign bits
    ["mux", "mux", "mux", "xor", "and", "mul"],
    ["and", "and", "and", "and", "and", "mul"],
    ["mul", "mul", "mul", "mul", "mul", "mul"],
]
REF_OUT_MODE = [
    [0, 0, 0, 0, 0, 5],
    [0, 1, 1, 1, 1, 5],
    [0, 1, 2, 2, 2, 5],
    [0, 1, 2, 3, 2, 5],
    [0, 1, 2, 2, 4, 5],
    [5, 5, 5, 5, 5, 5],
]
DOM_QUICK = {"bw": range(1, 11), "bx": range(1, 11), "iw": range(0, 7),
             "ix": range(0, 7)}
# thorough: witness search for non-identical forms over all widths up to 32
DOM_THOROUGH = {"bw": range(1, 33), "bx": range(1, 33), "iw": range(0, 17),
                "ix": range(0, 17)}
DOM = dict(DOM_QUICK)
SWAP = {("sym", "bw"): NF.sym("bx"), ("sym", "bx"): NF.sym("bw"),
        ("sym", "iw"): NF.sym("ix"), ("sym", "ix"): NF.sym("iw")}


def _show_out(o):
  return tuple(show(v) if isinstance(v, NF) else v for v in o)


def build(repo, kw, kx):
  pe = PE(repo)
  mf = repo.module(MF)
  if "MultiplierFactory" not in mf.classes:
    raise AnalysisError("anchor-missing class MultiplierFactory")
  fac = pe.call(pe.lookup_global("MultiplierFactory", mf), [], {})
  w = ta.make_operand(pe, repo, kw, "w")
  x = ta.make_operand(pe, repo, kx, "x")
  m = pe.call(pe.getattr(fac, "make_multiplier"), [w, x], {})
  return pe, fac, w, x, m


QF = "qkeras.qtools.quantized_operators.quantizer_factory"


def rule_conversion(rep, repo, tier):
  """R9 (operand types): (a) the quantizer factory is closed on qtools
  objects - handing it an operand type it produced itself (as the graph
  update does for propagated edge types) returns the same class with the
  same mode / bits / int_bits / sign; (b) conversion soundness - for qkeras
  quantizers without a data-dependent scale, every value of the quantizer's
  abstract output value set is representable in the operand type the factory
  derives from it (fixed point: grid 2**-(bits-int_bits-sign) inside the
  two's-complement range; modes 2/3/4: {-1,0,1} / {-1,1} / {0,1})."""
  import itertools
  from .. import quant
  from ..pe import ConfigRejected, Obj, Unsupported
  from ..qir import value_set
  from ..vset import VS
  qf = repo.module(QF)
  qi = repo.module(ta.QI)
  if "QuantizerFactory" not in qf.classes:
    raise AnalysisError("anchor-missing class QuantizerFactory")
  unit = "%s::QuantizerFactory" % qf.relpath
  rep.unit(unit)
  loc = qf.loc(qf.classes["QuantizerFactory"].node)
  fields = ("mode", "bits", "int_bits", "is_signed")
  # (a)
  n = 0
  for cname, ci in sorted(qi.classes.items()):
    if cname in ("IQuantizer", "FloatingPoint") or "IQuantizer" not in [
        c.name for c in ci.mro()]:
      continue
    pe = PE(repo)
    pe.opaque_ext = True
    fac = pe.call(pe.lookup_global("QuantizerFactory", qf), [], {})
    q = pe.call(pe.lookup_global(cname, qi), [], {})
    if q.attrs.get("mode") == 0:
      q.attrs["bits"], q.attrs["int_bits"] = 6, 2
    elif q.attrs.get("mode") == 1:
      q.attrs["bits"] = q.attrs["int_bits"] = 4
    before = tuple(q.attrs.get(f) for f in fields)
    try:
      r = pe.call(pe.getattr(fac, "make_quantizer"), [q], {})
    except PyRaise as e:
      rep.fail("R9", unit, "factory-not-closed:" + cname,
               "make_quantizer(%s object) raises %s" % (cname, e), loc=loc)
      continue
    n += 1
    after = tuple(r.attrs.get(f) for f in fields) if isinstance(
        r, Obj) else None
    rep.check(isinstance(r, Obj) and r.cls is ci and after == before, "R9",
              unit, "factory-not-closed:" + cname,
              "make_quantizer(%s object with %s) returns %s with %s: an "
              "edge type that is handed on through the factory changes" %
              (cname, dict(zip(fields, before)),
               r.cls.name if isinstance(r, Obj) else r,
               dict(zip(fields, after)) if after else None), loc=loc)
  if n < 8:
    raise AnalysisError("instance-count only %d operand classes" % n)
  # (b)
  unit_b = "%s::convert_qkeras_quantizer" % qi.relpath
  rep.unit(unit_b)
  bits_r = (1, 2, 3, 4, 6) if tier == "quick" else range(1, 9)
  int_r = (0, 1, 2) if tier == "quick" else (-1, 0, 1, 2, 3)
  lat = []
  for b, i in itertools.product(bits_r, int_r):
    if b >= 2:
      for kn in (True, False):
        lat.append(("quantized_bits", dict(bits=b, integer=i,
                                           keep_negative=kn)))
    lat.append(("quantized_relu", dict(bits=b, integer=i)))
  lat += [("binary", dict(use_01=u)) for u in (False, True)]
  lat += [("ternary", {}), ("stochastic_ternary", {}),
          ("stochastic_binary", {}), ("bernoulli", {})]
  lat += [("quantized_tanh", dict(bits=b)) for b in (2, 4, 6)]
  m = 0
  for cls, kw in lat:
    cfg = "%s(%s)" % (cls, ",".join("%s=%s" % kv for kv in kw.items()))
    try:
      b_ = quant.build(repo, cls, kw)
    except ConfigRejected:
      continue
    vs = value_set(b_.fwd("infer"))
    pe = b_.pe
    pe.opaque_ext = True
    fac = pe.call(pe.lookup_global("QuantizerFactory", qf), [], {})
    try:
      t = pe.call(pe.getattr(fac, "make_quantizer"), [b_.obj], {})
    except (PyRaise, Unsupported) as e:
      rep.fail("R9", unit_b, "conversion-raises", "%s: %s" % (cfg, e),
               loc=loc, instance=cfg)
      continue
    if not isinstance(t, Obj):
      continue
    mode, tb, ti, tsg = (t.attrs.get(f) for f in fields)
    sg = int(bool(tsg))
    if mode == 0:
      frac = F(tb) - F(ti) - sg
      step = F(2) ** int(-frac) if frac.denominator == 1 else None
      if step is None:
        continue
      hi = F(2) ** int(ti) - step
      lo = -(F(2) ** int(ti)) if sg else F(0)
      repset = VS.grid(step, 0, lo, hi)
      txt = "fixed point bits=%s int_bits=%s signed=%d: multiples of %s in " \
          "[%s, %s]" % (tb, ti, sg, step, lo, hi)
    elif mode == 2:
      repset, txt = VS.fin([-1, 0, 1]), "ternary {-1,0,1}"
    elif mode == 3:
      repset, txt = VS.fin([-1, 1]), "binary {-1,1}"
    elif mode == 4:
      repset, txt = VS.fin([0, 1]), "binary {0,1}"
    else:
      continue
    if mode in (2, 3, 4):
      # the sign flag of a code type is exact: the implementations OR it
      # into their output sign without widening, so a stale flag on a
      # {0,1} operand costs the product a magnitude bit
      neg = mode != 4          # ternary and +-1 binary hold -1
      rep.check(bool(tsg) == neg, "R9", unit_b,
                "sign-flag-of-converted-code-type:" + cls,
                "%s is converted to %s with is_signed=%r" % (cfg, txt, tsg),
                loc=loc, instance=cfg)
    m += 1
    rep.check(vs.subset_of(repset), "R9", unit_b,
              "value-not-representable-in-converted-type:" + cls,
              "%s emits %r, the operand type derived from it is %s" %
              (cfg, vs, txt), loc=loc, instance=cfg)
  # sign soundness for the leaky ReLU: its negative side makes the type
  # signed for every legal slope 2**-k (the grid of the leaky side is a C01
  # known finding and is not compared here)
  for b, i, slope in itertools.product((3, 4, 6), (0, 1, 2),
                                       (F(1, 2), F(1, 4), F(1, 8), F(1))):
    kw = dict(bits=b, integer=i, negative_slope=slope)
    cfg = "quantized_relu(%s)" % ",".join("%s=%s" % kv for kv in kw.items())
    try:
      b_ = quant.build(repo, "quantized_relu", kw)
    except ConfigRejected:
      continue
    lo_, _ = value_set(b_.fwd("infer")).bounds()
    pe = b_.pe
    pe.opaque_ext = True
    fac = pe.call(pe.lookup_global("QuantizerFactory", qf), [], {})
    try:
      t = pe.call(pe.getattr(fac, "make_quantizer"), [b_.obj], {})
    except (PyRaise, Unsupported) as e:
      rep.fail("R9", unit_b, "conversion-raises", "%s: %s" % (cfg, e),
               loc=loc, instance=cfg)
      continue
    if not isinstance(t, Obj):
      continue
    m += 1
    rep.check(lo_ is None or lo_ >= 0 or bool(t.attrs.get("is_signed")),
              "R9", unit_b, "negative-values-in-unsigned-type:quantized_relu",
              "%s emits values down to %s, the operand type derived from it "
              "is unsigned (is_signed=%r)" % (cfg, lo_,
                                              t.attrs.get("is_signed")),
              loc=loc, instance=cfg)
  if m < 30:
    raise AnalysisError("instance-count only %d conversions checked" % m)
  # (c) the way back: an operand type converted to a qkeras quantizer
  # (convert_to_qkeras_quantizer: how an accumulator type becomes a bias
  # quantizer) and converted again is the same operand type
  unit_c = "%s::convert_to_qkeras_quantizer" % qi.relpath
  rep.unit(unit_c)
  back = [("quantized_bits", dict(bits=6, integer=2, keep_negative=True)),
          ("quantized_bits", dict(bits=5, integer=0, keep_negative=False)),
          ("quantized_bits", dict(bits=12, integer=7, keep_negative=True)),
          ("quantized_relu", dict(bits=6, integer=2)),
          ("quantized_relu", dict(bits=3, integer=0)),
          ("quantized_tanh", dict(bits=4)), ("quantized_ulaw", dict(bits=6,
                                                                    integer=1)),
          ("quantized_po2", dict(bits=4)),
          ("quantized_po2", dict(bits=5, max_value=2)),
          ("quantized_relu_po2", dict(bits=4)),
          ("quantized_relu_po2", dict(bits=3, max_value=4)),
          ("binary", dict(use_01=False)), ("binary", dict(use_01=True)),
          ("ternary", {}), ("stochastic_binary", {}),
          ("stochastic_ternary", {}), ("bernoulli", {})]
  fields_c = fields + ("max_val_po2",)
  k = 0
  for cls, kw in back:
    cfg = "%s(%s)" % (cls, ",".join("%s=%s" % kv for kv in kw.items()))
    try:
      pe, qk = quant.construct(repo, cls, kw)
    except ConfigRejected:
      continue
    pe.opaque_ext = True
    fac = pe.call(pe.lookup_global("QuantizerFactory", qf), [], {})
    try:
      t1 = pe.call(pe.getattr(fac, "make_quantizer"), [qk], {})
      qk2 = pe.call(pe.getattr(t1, "convert_to_qkeras_quantizer"), [], {})
      t2 = pe.call(pe.getattr(fac, "make_quantizer"), [qk2], {})
    except (PyRaise, Unsupported) as e:
      rep.fail("R9", unit_c, "reverse-conversion-raises", "%s: %s" % (cfg, e),
               loc=loc, instance=cfg)
      continue
    if not (isinstance(t1, Obj) and isinstance(t2, Obj)):
      continue
    k += 1
    f1 = {f_: t1.attrs.get(f_) for f_ in fields_c}
    f2 = {f_: t2.attrs.get(f_) for f_ in fields_c}
    rep.check(t1.cls is t2.cls and f1 == f2, "R9", unit_c,
              "reverse-conversion-changes-type",
              "%s: operand type %s %r becomes %s %r after "
              "convert_to_qkeras_quantizer and back" % (
                  cfg, t1.cls.name, f1, t2.cls.name, f2), loc=loc,
              instance=cfg, observed="%s %r" % (t2.cls.name, f2))
  if k < 14:
    raise AnalysisError("instance-count only %d reverse conversions" % k)


def rule_po2_product(rep, repo, tier):
  """R10: po2 x po2 products (the Adder cell).  For concrete operand types
  (signed / unsigned, bits, max_value cap) the exponent range the output type
  reports through get_min_max_exp must contain every sum of two operand
  exponents."""
  import itertools
  mf = repo.module(MF)
  qi = repo.module(ta.QI)
  unit = "qkeras/qtools/quantized_operators/multiplier_impl.py::Adder"
  rep.unit(unit)
  bits_r = (2, 3, 4) if tier == "quick" else (2, 3, 4, 5, 6)
  caps = (-1, 1, 2, 8) if tier == "quick" else (-1, F(1, 2), 1, 2, 4, 8, 64)
  ops = [(c, b, mv) for c in ("PowerOfTwo", "ReluPowerOfTwo")
         for b in bits_r for mv in caps]
  n = 0
  for (c1, b1, m1), (c2, b2, m2) in itertools.product(ops, ops):
    if (c1, b1, str(m1)) > (c2, b2, str(m2)) and tier == "quick":
      continue   # the symmetric call is covered by R2
    pe = PE(repo)
    fac = pe.call(pe.lookup_global("MultiplierFactory", mf), [], {})

    def mk(c, b, m):
      q = pe.call(pe.lookup_global(c, qi), [], {})
      q.attrs["bits"] = q.attrs["int_bits"] = b
      q.attrs["max_val_po2"] = m
      return q
    w, x = mk(c1, b1, m1), mk(c2, b2, m2)
    try:
      mn1, mx1 = pe.call(pe.getattr(w, "get_min_max_exp"), [], {})
      mn2, mx2 = pe.call(pe.getattr(x, "get_min_max_exp"), [], {})
      m = pe.call(pe.getattr(fac, "make_multiplier"), [w, x], {})
      o = m.attrs["output"]
      mno, mxo = pe.call(pe.getattr(o, "get_min_max_exp"), [], {})
    except PyRaise as e:
      rep.fail("R10", unit, "po2-product-raises", "raises %s" % e)
      continue
    n += 1
    show_op = lambda c, b, mv: "%s(bits=%d%s)" % (
        "po2" if c == "PowerOfTwo" else "relu_po2", b,
        "" if mv == -1 else ",max_value=%s" % mv)
    cfg = "%s x %s" % (show_op(c1, b1, m1), show_op(c2, b2, m2))
    capped = "one-sided-cap" if (m1 == -1) != (m2 == -1) else (
        "no-cap" if m1 == -1 else "both-capped")
    mixed = "mixed-sign" if c1 != c2 else (
        "signed" if c1 == "PowerOfTwo" else "unsigned")
    import math as _m

    def true_max(mx, cap):
      # get_min_max_exp never reports a negative maximum; with a cap below
      # one the largest exponent really is ceil(log2(cap)) < 0
      return min(F(mx), F(_m.ceil(_m.log2(float(cap))))) if cap != -1 \
          else F(mx)
    mx1, mx2 = true_max(mx1, m1), true_max(mx2, m2)
    rep.check(F(mxo) >= F(mx1) + F(mx2), "R10", unit,
              "product-max-exponent-too-small:%s:%s" % (capped, mixed),
              "%s: operand exponents reach %s and %s, the product type "
              "reports max exponent %s" % (cfg, mx1, mx2, mxo), instance=cfg,
              observed="max exponent %s" % mxo)
    rep.check(F(mno) >= F(mn1) + F(mn2), "R10", unit,
              "product-min-exponent-too-large:%s:%s" % (capped, mixed),
              "%s: operand exponents reach -%s and -%s, the product type "
              "reports min exponent -%s" % (cfg, mn1, mn2, mno), instance=cfg,
              observed="min exponent -%s" % mno)
  if n < 100:
    raise AnalysisError("instance-count only %d po2 x po2 pairs" % n)


def rule_products_are_independent(rep, repo):
  """R11: a multiplier keeps the type it was built with.  One factory builds
  two multipliers of the same operand kinds but different widths / signs;
  the first one's output type must not change, must not be the second one's
  object, and must not be one of the operands handed in (a shared prototype
  or an aliased operand lets a later call rewrite an earlier result)."""
  mf = repo.module(MF)
  unit = "%s::MultiplierFactory.make_multiplier" % mf.relpath
  rep.unit(unit)
  loc = mf.loc(mf.classes["MultiplierFactory"].node)
  fields = ("mode", "bits", "int_bits", "is_signed", "max_val_po2", "name")
  pairs = [("fixed_s", "fixed_s"), ("fixed_u", "fixed_s"),
           ("po2_s", "fixed_s"), ("fixed_s", "po2_u"), ("po2_s", "po2_s"),
           ("ternary", "fixed_s"), ("binary", "fixed_u"),
           ("binary01", "fixed_s"), ("fixed_s", "ternary")]
  n = 0
  for kw, kx in pairs:
    pe = PE(repo)
    fac = pe.call(pe.lookup_global("MultiplierFactory", mf), [], {})

    def operand(kind, tag, bits, ib):
      q = ta.make_operand(pe, repo, kind, tag)
      if kind.startswith("fixed"):
        q.attrs["bits"], q.attrs["int_bits"] = bits, ib
      elif kind.startswith("po2"):
        q.attrs["bits"] = q.attrs["int_bits"] = bits
      return q
    cfg = "make_multiplier(%s, %s) twice on one factory" % (kw, kx)
    try:
      w1, x1 = operand(kw, "w", 5, 2), operand(kx, "x", 6, 1)
      a = pe.call(pe.getattr(fac, "make_multiplier"), [w1, x1], {})
      before = {f_: a.attrs["output"].attrs.get(f_) for f_ in fields}
      w2, x2 = operand(kw, "w", 3, 0), operand(kx, "x", 2, 0)
      b = pe.call(pe.getattr(fac, "make_multiplier"), [w2, x2], {})
    except PyRaise as e:
      rep.fail("R11", unit, "factory-raises", "%s raises %s" % (cfg, e),
               loc=loc, instance=cfg)
      continue
    n += 1
    after = {f_: a.attrs["output"].attrs.get(f_) for f_ in fields}
    ao, bo = a.attrs["output"], b.attrs["output"]
    rep.check(after == before and ao is not bo, "R11", unit,
              "earlier-product-changed-by-later-call",
              "%s: the first multiplier reported %r, after the second call "
              "it reports %r (%s)" % (
                  cfg, before, after, "both share one output object"
                  if ao is bo else "distinct objects"), loc=loc,
              instance=cfg)
    rep.check(all(ao is not q for q in (w1, x1, w2, x2)), "R11", unit,
              "output-type-is-an-operand-object",
              "%s: the output type of the multiplier is one of the operand "
              "objects handed in" % cfg, loc=loc, instance=cfg)
  if n < 8:
    raise AnalysisError("instance-count only %d factory sequences" % n)


CF = "qkeras.qtools.quantized_operators.accumulator_factory"


def rule_history_independence(rep, repo):
  """R13: the type of a product depends on the operand TYPES, not on what
  the operand objects were used for before.  In a model one activation type
  object feeds several consumers and one weight type is asked for its range
  by several operators, so every operand is first used in products (and
  accumulators) with partners of every kind - which makes it answer all its
  range queries - and only then in the product under test; multiplier and
  accumulator types must equal the ones obtained from freshly made operands
  of the same types."""
  mf = repo.module(MF)
  cf = repo.module(CF)
  unit = "%s::MultiplierFactory.make_multiplier" % mf.relpath
  loc = mf.loc(mf.classes["MultiplierFactory"].node)
  fields = ("mode", "bits", "int_bits", "is_signed", "max_val_po2", "name",
            "is_floating_point")
  kinds = ("fixed_s", "fixed_u", "po2_s", "po2_u", "ternary", "binary",
           "binary01")
  widths = {"w": (5, 2), "x": (6, 1), "p": (3, 0)}

  def operand(pe, kind, tag):
    q = ta.make_operand(pe, repo, kind, tag)
    bits, ib = widths[tag]
    if kind.startswith("fixed"):
      q.attrs["bits"], q.attrs["int_bits"] = bits, ib
    elif kind.startswith("po2"):
      q.attrs["bits"] = q.attrs["int_bits"] = bits
    return q

  def snap(q):
    return {f_: q.attrs.get(f_) for f_ in fields} if isinstance(
        q, Obj) else q

  def product(pe, w, x):
    fac = pe.call(pe.lookup_global("MultiplierFactory", mf), [], {})
    m = pe.call(pe.getattr(fac, "make_multiplier"), [w, x], {})
    afac = pe.call(pe.lookup_global("AccumulatorFactory", cf), [], {})
    acc = pe.call(pe.getattr(afac, "make_accumulator"), [[3, 3, 4, 8], m],
                  {"use_bias": True})
    return snap(m.attrs.get("output")), snap(acc.attrs.get("output"))
  n = 0
  for kw in kinds:
    for kx in kinds:
      cfg = "make_multiplier(%s, %s) + accumulator after the operands " \
          "served other products" % (kw, kx)
      pe = PE(repo)
      try:
        fresh = product(pe, operand(pe, kw, "w"), operand(pe, kx, "x"))
      except PyRaise:
        continue        # the pair itself is rejected (decided by R1/R2)
      w, x = operand(pe, kw, "w"), operand(pe, kx, "x")
      for kp in kinds:
        for pair in ((w, None), (None, x)):
          try:
            partner = operand(pe, kp, "p")
            product(pe, pair[0] or partner, pair[1] or partner)
          except PyRaise:
            pass
      try:
        used = product(pe, w, x)
      except PyRaise as e:
        rep.fail("R13", unit, "factory-raises-on-used-operands",
                 "%s raises %s although fresh operands are accepted" % (
                     cfg, e), loc=loc, instance=cfg)
        continue
      n += 1
      rep.check(used == fresh, "R13", unit,
                "product-depends-on-operand-history",
                "%s: multiplier / accumulator types %r, with freshly made "
                "operands of the same types %r" % (cfg, used, fresh),
                loc=loc, instance=cfg)
  if n < 30:
    raise AnalysisError("instance-count only %d operand pairs" % n)
  # the same for an operand that is re-sized through its own API after it
  # has answered range queries (through a product and directly): the product follows the operand's current
  # type (what a freshly made operand re-sized the same way gives)
  qi = repo.module(ta.QI)
  qmod = repo.module("qkeras.quantizers")
  unit2 = "%s::PowerOfTwo" % qi.relpath

  def upd(val, reset):
    return lambda pe, q: pe.call(pe.getattr(q, "update_quantizer"), [val],
                                 {"reset": reset})

  def conv(cls, **kw):
    return lambda pe, q: pe.call(
        pe.getattr(q, "convert_qkeras_quantizer"),
        [pe.call(pe.lookup_global(cls, qmod), [], dict(kw))], {})
  changes = [
      ("po2_s", "update_quantizer(2**-8, reset=True)", upd(F(1, 256), True)),
      ("po2_s", "update_quantizer(-2**-8, reset=True)", upd(F(-1, 256),
                                                            True)),
      ("po2_u", "update_quantizer(16, reset=True)", upd(F(16), True)),
      ("po2_s", "update_quantizer(1/2)", upd(F(1, 2), False)),
      ("po2_s", "convert_qkeras_quantizer(quantized_po2(6))",
       conv("quantized_po2", bits=6)),
      ("po2_s", "convert_qkeras_quantizer(quantized_po2(4, max_value=2))",
       conv("quantized_po2", bits=4, max_value=2)),
      ("po2_u", "convert_qkeras_quantizer(quantized_relu_po2(6))",
       conv("quantized_relu_po2", bits=6)),
  ]
  m = 0
  for kind, label, change in changes:
    for partner in ("fixed_s", "fixed_u", "po2_s", "binary"):
      for side in ("weight", "input"):
        cfg = "%s operand (%s side, partner %s): used, then %s, then " \
            "used again" % (kind, side, partner, label)
        pe = PE(repo)

        def run_(q):
          other = operand(pe, partner, "x")
          return product(pe, q, other) if side == "weight" else product(
              pe, other, q)
        try:
          q1 = operand(pe, kind, "w")
          change(pe, q1)
          fresh = run_(q1)
          q2 = operand(pe, kind, "w")
          run_(q2)
          if hasattr(q2, "cls") and q2.cls.find_method(
              "get_min_max_exp")[1] is not None:
            pe.call(pe.getattr(q2, "get_min_max_exp"), [], {})
          change(pe, q2)
          used = run_(q2)
        except PyRaise:
          continue
        m += 1
        rep.check(used == fresh, "R13", unit2,
                  "product-ignores-resized-operand",
                  "%s: multiplier / accumulator types %r; an operand "
                  "re-sized the same way without the earlier use gives %r" %
                  (cfg, used, fresh), loc=loc, instance=cfg)
  rep.extra["resized_operand_sequences"] = m
  if m < 30:
    raise AnalysisError("instance-count only %d re-sized operand sequences"
                        % m)


def rule_conversion_follows_object(rep, repo, rule="R13"):
  """The operand type derived from a qkeras quantizer describes the
  quantizer as it is NOW: a quantizer object that was converted, then
  re-parameterised in place (as QAdaptiveActivation does with bits /
  integer), and converted again - by the same or by a new factory - gives
  the type a freshly built quantizer with those parameters gives.  Nothing
  a factory keeps between conversions may stand in for the object."""
  from .. import quant
  from ..pe import ConfigRejected
  qf = repo.module(QF)
  unit = "%s::QuantizerFactory.make_quantizer" % qf.relpath
  rep.unit(unit)
  loc = qf.loc(qf.classes["QuantizerFactory"].node)
  fields = ("mode", "bits", "int_bits", "is_signed", "max_val_po2",
            "use_01")
  cases = [
      ("quantized_bits", dict(bits=4, integer=0, keep_negative=True),
       dict(bits=8)),
      ("quantized_bits", dict(bits=6, integer=0, keep_negative=True),
       dict(integer=3)),
      ("quantized_bits", dict(bits=6, integer=1, keep_negative=True),
       dict(keep_negative=False)),
      ("quantized_relu", dict(bits=4, integer=0), dict(bits=7)),
      ("quantized_relu", dict(bits=6, integer=0), dict(integer=2)),
      ("binary", dict(use_01=False), dict(use_01=True)),
  ]
  n = 0
  for cls, kw, change in cases:
    for same_factory in (True, False):
      cfg = "%s(%s) converted, then %s, converted again by %s factory" % (
          cls, ",".join("%s=%s" % kv for kv in sorted(kw.items())),
          ", ".join("q.%s = %s" % kv for kv in sorted(change.items())),
          "the same" if same_factory else "a new")
      try:
        b_ = quant.build(repo, cls, kw)
        pe = b_.pe
        pe.opaque_ext = True
        fac = pe.call(pe.lookup_global("QuantizerFactory", qf), [], {})
        pe.call(pe.getattr(fac, "make_quantizer"), [b_.obj], {})
        for k_, v_ in change.items():
          pe.setattr(b_.obj, k_, v_)
        fac2 = fac if same_factory else pe.call(
            pe.lookup_global("QuantizerFactory", qf), [], {})
        t2 = pe.call(pe.getattr(fac2, "make_quantizer"), [b_.obj], {})
        fresh = quant.build(repo, cls, dict(kw, **change))
        pf = fresh.pe
        pf.opaque_ext = True
        tf_ = pf.call(pf.getattr(pf.call(pf.lookup_global(
            "QuantizerFactory", qf), [], {}), "make_quantizer"),
                      [fresh.obj], {})
      except (PyRaise, Unsupported, ConfigRejected) as e:
        rep.extra.setdefault("conversion_sequences_skipped", {})[cfg] = \
            str(e)[:100]
        continue
      if not isinstance(t2, Obj) or not isinstance(tf_, Obj):
        continue
      n += 1
      got = tuple(t2.attrs.get(f) for f in fields)
      want = tuple(tf_.attrs.get(f) for f in fields)
      rep.check(got == want and t2.cls is tf_.cls, rule, unit,
                "conversion-ignores-current-parameters",
                "%s: the second conversion gives %s %s, a freshly built "
                "quantizer with these parameters %s %s" % (
                    cfg, t2.cls.name, dict(zip(fields, got)), tf_.cls.name,
                    dict(zip(fields, want))), loc=loc, instance=cfg)
  return n


def rule_per_channel_integer_bits(rep, repo, rule="R14"):
  """A quantizer may hold its integer bits per channel (QAdaptiveActivation
  keeps one entry per channel): whatever the converted operand type looks
  like - one type per channel or one for all - every code of every channel
  is a code of it: enough integer bits and enough fractional bits."""
  from .. import quant
  from ..pe import ConfigRejected, NArr, Mock
  qf = repo.module(QF)
  unit = "%s::QuantizerFactory.make_quantizer" % qf.relpath
  loc = qf.loc(qf.classes["QuantizerFactory"].node)
  n = 0
  for cls, kw, ints in (
      ("quantized_bits", dict(bits=8, integer=0, keep_negative=True),
       (1, 3)),
      ("quantized_bits", dict(bits=8, integer=0, keep_negative=True),
       (3, 1)),
      ("quantized_bits", dict(bits=8, integer=0, keep_negative=True),
       (2, 2)),
      ("quantized_relu", dict(bits=6, integer=0), (0, 2))):
    for as_var in (False, True):
      cfg = "%s(%s) with per-channel integer bits %s%s" % (
          cls, ",".join("%s=%s" % kv for kv in sorted(kw.items())), list(ints),
          " held in a variable" if as_var else "")
      try:
        b_ = quant.build(repo, cls, kw)
        pe = b_.pe
        pe.opaque_ext = True
        held = NArr(list(ints))
        if as_var:
          held = Mock("variable", {"numpy": lambda pe_, a, k, v=held: v,
                                   "shape": (len(ints),)})
        pe.setattr(b_.obj, "integer", held)
        fac = pe.call(pe.lookup_global("QuantizerFactory", qf), [], {})
        t = pe.call(pe.getattr(fac, "make_quantizer"), [b_.obj], {})
      except (PyRaise, Unsupported, ConfigRejected) as e:
        rep.extra.setdefault("conversion_sequences_skipped", {})[cfg] = \
            str(e)[:100]
        continue
      if not isinstance(t, Obj):
        continue

      def chan(v, c):
        if isinstance(v, (list, tuple)):
          return v[c] if len(v) > 1 else v[0]
        return v
      bad = []
      for c, ib in enumerate(ints):
        try:
          bits = int(chan(t.attrs.get("bits"), c))
          tib = int(chan(t.attrs.get("int_bits"), c))
          sg = int(bool(chan(t.attrs.get("is_signed"), c)))
        except (TypeError, ValueError):
          bad.append("channel %d: type (%r, %r, %r) is not numeric" % (
              c, t.attrs.get("bits"), t.attrs.get("int_bits"),
              t.attrs.get("is_signed")))
          continue
        q_sg = 1 if cls == "quantized_bits" else 0
        q_frac = kw["bits"] - q_sg - ib
        if tib < ib or bits - sg - tib < q_frac or sg < q_sg:
          bad.append("channel %d emits codes with %d integer and %d "
                     "fractional bits, the operand type has %d and %d" % (
                         c, ib, q_frac, tib, bits - sg - tib))
      n += 1
      rep.check(not bad, rule, unit, "per-channel-integer-bits-not-covered",
                "%s: %s" % (cfg, "; ".join(bad)), loc=loc, instance=cfg)
  return n


def rule_float_products(rep, repo):
  """R12: floating-point operands.  The product type is floating point, as
  wide as the widest floating-point operand (a product of an fp32 and an
  fp16 value is not representable in fp16), whichever side it is on; a
  fixed-point / po2 / binary operand does not widen or narrow it."""
  mf = repo.module(MF)
  qi = repo.module(ta.QI)
  unit = "qkeras/qtools/quantized_operators/multiplier_impl.py::" \
      "FloatingPointMultiplier"
  rep.unit(unit)
  loc = mf.loc(mf.classes["MultiplierFactory"].node)
  n = 0
  cases = [((("float", bw), ("float", bx)), max(bw, bx))
           for bw in (16, 32, 64) for bx in (16, 32, 64)]
  for other in ("fixed_s", "fixed_u", "po2_s", "ternary", "binary",
                "binary01"):
    for fb in (16, 32):
      cases.append(((("float", fb), (other, None)), fb))
      cases.append((((other, None), ("float", fb)), fb))
  for (w_spec, x_spec), want in cases:
    pe = PE(repo)

    def operand(spec, tag):
      kind, bits = spec
      if kind == "float":
        return pe.call(pe.lookup_global("FloatingPoint", qi), [],
                       {"bits": bits})
      q = ta.make_operand(pe, repo, kind, tag)
      if kind.startswith("fixed"):
        q.attrs["bits"], q.attrs["int_bits"] = 40, 3
      elif kind.startswith("po2"):
        q.attrs["bits"] = q.attrs["int_bits"] = 6
      return q
    cfg = "make_multiplier(%s%s, %s%s)" % (
        w_spec[0], w_spec[1] or "", x_spec[0], x_spec[1] or "")
    try:
      fac = pe.call(pe.lookup_global("MultiplierFactory", mf), [], {})
      m = pe.call(pe.getattr(fac, "make_multiplier"),
                  [operand(w_spec, "w"), operand(x_spec, "x")], {})
    except PyRaise as e:
      rep.fail("R12", unit, "factory-raises", "%s raises %s" % (cfg, e),
               loc=loc, instance=cfg)
      continue
    n += 1
    o = m.attrs.get("output")
    isf = bool(o.attrs.get("is_floating_point"))
    bits = o.attrs.get("bits")
    rep.check(isf and bits == want, "R12", unit, "float-product-width",
              "%s: the product type is %s with %r bits, expected floating "
              "point with %d bits" % (cfg, "floating point" if isf else
                                      "not floating point", bits, want),
              loc=loc, instance=cfg, observed="%s/%r" % (isf, bits))
  if n < 30:
    raise AnalysisError("instance-count only %d float products" % n)


def run(rep, repo, tier):
  DOM.clear()
  DOM.update(DOM_THOROUGH if tier == "thorough" else DOM_QUICK)
  mf = repo.module(MF)
  unit_t = "%s::MultiplierFactory.multiplier_impl_table" % mf.relpath
  rep.unit(unit_t)
  rep.trusted.append("two's-complement value ranges of the qtools types "
                     "(bits, int_bits, is_signed); po2 exponent range as "
                     "reported by the repository's get_min_max_exp, itself "
                     "checked against the qkeras quantizers by R8")
  rep.assumptions.append("representability for power-of-two cells beyond the "
                         "exponent bookkeeping and max_value clamps is not "
                         "decided; -1 x most-negative code in mux cells is "
                         "not decided")
  pe = PE(repo)
  fac = pe.call(pe.lookup_global("MultiplierFactory", mf), [], {})
  tab = fac.attrs.get("multiplier_impl_table")
  loc = mf.loc(mf.classes["MultiplierFactory"].node)
  ok = isinstance(tab, list) and len(tab) == 6 and all(
      isinstance(r, list) and len(r) == 6 for r in tab)
  rep.check(ok, "R1", unit_t, "table-shape", "multiplier_impl_table is not a "
            "6x6 table", loc=loc)
  if not ok:
    return
  # mode constants of the operand kinds
  for kind, (cls, over, mode) in sorted(ta.KINDS.items()):
    q = ta.make_operand(PE(repo), repo, kind, "w")
    rep.check(q.attrs.get("mode") == mode, "R1",
              "%s::%s" % (ta.QI.replace(".", "/") + ".py", cls),
              "mode-constant:" + kind,
              "operand kind %s has mode %r, the table order expects %d" %
              (kind, q.attrs.get("mode"), mode))
  # table cells
  impl_name = {}
  for i in range(6):
    for j in range(6):
      cell = tab[i][j]
      okc = isinstance(cell, tuple) and len(cell) == 2 and \
          isinstance(cell[0], ClassRef) and isinstance(cell[1], Obj)
      rep.check(okc, "R1", unit_t, "cell-shape[%d][%d]" % (i, j),
                "cell is not (implementation class, output quantizer)",
                loc=loc)
      if not okc:
        continue
      ic = cell[0]
      as_ = pe.call(pe.getattr(ic, "implemented_as"), [], {})
      impl_name[(i, j)] = (ic.cls.name, as_, cell[1].cls.name,
                           cell[1].attrs.get("mode"))
  for i in range(6):
    for j in range(6):
      if (i, j) not in impl_name:
        continue
      cname, as_, ocls, omode = impl_name[(i, j)]
      rep.check(as_ == REF_IMPL[i][j], "R3", unit_t,
                "impl-kind[%d][%d]" % (i, j),
                "cell [%d][%d] is implemented as %r (%s), the operand kinds "
                "call for %r" % (i, j, as_, cname, REF_IMPL[i][j]), loc=loc)
      rep.check(omode == REF_OUT_MODE[i][j], "R3'", unit_t,
                "output-kind[%d][%d]" % (i, j),
                "cell [%d][%d] reports output kind %s (mode %r), the closure "
                "of the operand value sets is mode %d" %
                (i, j, ocls, omode, REF_OUT_MODE[i][j]), loc=loc)
      if (j, i) in impl_name:
        rep.check(impl_name[(j, i)][:2] == impl_name[(i, j)][:2] and
                  impl_name[(j, i)][3] == omode, "R2", unit_t,
                  "table-asymmetric[%d][%d]" % (min(i, j), max(i, j)),
                  "cells [%d][%d]=%s and [%d][%d]=%s differ: multiplication "
                  "is commutative" % (i, j, impl_name[(i, j)], j, i,
                                      impl_name[(j, i)]), loc=loc)
  # symbolic output types for every pair of operand kinds
  kinds = [k for k in ta.KINDS if k != "float"]
  results = {}
  fw = Fwd()
  for kw in kinds:
    for kx in kinds:
      try:
        pe2, fac2, w, x, m = build(repo, kw, kx)
      except PyRaise as e:
        rep.fail("R1", unit_t, "factory-raises:%s,%s" % (kw, kx),
                 "make_multiplier(%s, %s) raises %s" % (kw, kx, e), loc=loc)
        continue
      o = m.attrs.get("output")
      results[(kw, kx)] = (pe2, w, x, m, o)
  for (kw, kx), (pe2, w, x, m, o) in sorted(results.items()):
    cfg = "make_multiplier(weight=%s, input=%s)" % (kw, kx)
    unit = "%s::%s" % ("qkeras/qtools/quantized_operators/multiplier_impl.py",
                       m.cls.name)
    rep.unit(unit)
    bits, ib = ta.field(o, "bits", fw), ta.field(o, "int_bits", fw)
    sg = o.attrs.get("is_signed")
    sw, sx = int(bool(w.attrs["is_signed"])), int(bool(x.attrs["is_signed"]))
    # R4
    rep.check(int(bool(sg)) == (sw | sx), "R4", unit, "sign-rule",
              "output.is_signed = %r for operand signs (%d, %d)" %
              (sg, sw, sx), instance=cfg)
    # R2 semantic commutativity
    if (kx, kw) in results:
      o2 = results[(kx, kw)][4]
      b2 = ta.field(o2, "bits", fw).subst(SWAP, simplify_app)
      i2 = ta.field(o2, "int_bits", fw).subst(SWAP, simplify_app)
      rep.check(b2 == bits and i2 == ib and
                bool(o2.attrs.get("is_signed")) == bool(sg), "R2", unit,
                "widths-not-commutative",
                "%s gives bits=%s int=%s, the swapped call gives bits=%s "
                "int=%s" % (cfg, show(bits), show(ib), show(b2), show(i2)),
                instance=cfg, observed="bits=%s int=%s / swapped bits=%s "
                "int=%s" % (show(bits), show(ib), show(b2), show(i2)))
    impl = pe2.call(pe2.getattr(m, "implemented_as"), [], {})
    multi = lambda k: k.startswith("fixed") or k.startswith("po2")
    deps_b = {a[1] for a in bits.atoms() if a[0] == "sym"}
    deps_i = {a[1] for a in ib.atoms() if a[0] == "sym"}
    # R5 operand dependence
    need_b, need_i = set(), set()
    if impl == "mul" and multi(kw) and multi(kx):
      need_b, need_i = {"bw", "bx"}, {"iw", "ix"}
    elif impl == "shifter":
      need_b = {"bw", "bx"}
      need_i = {"ix", "bw"} if kw.startswith("po2") else {"iw", "bx"}
    elif impl == "add":
      need_b = {"bw", "bx"}
    elif impl in ("mux", "and"):
      if multi(kw) and not multi(kx):
        need_b = {"bw"}
      elif multi(kx) and not multi(kw):
        need_b = {"bx"}
    rep.check(need_b <= deps_b and need_i <= deps_i, "R5", unit,
              "operand-does-not-flow",
              "%s: output bits depend on %s, int_bits on %s; required %s / "
              "%s" % (cfg, sorted(deps_b), sorted(deps_i), sorted(need_b),
                      sorted(need_i)), instance=cfg)
    # R6 sufficiency
    fo = bits - int(bool(sg)) - ib
    fwq = ta.frac_bits(w, fw)
    fxq = ta.frac_bits(x, fw)
    reqs = []
    if kw.startswith("fixed") and kx.startswith("fixed"):
      reqs = [("int", ib, ta.field(w, "int_bits", fw) +
               ta.field(x, "int_bits", fw)), ("frac", fo, fwq + fxq)]
    elif impl == "shifter":
      po2, fx_ = (w, x) if kw.startswith("po2") else (x, w)
      mn, mx = pe2.call(pe2.getattr(po2, "get_min_max_exp"), [], {})
      mn = fw(mn.term) if isinstance(mn, Tensor) else NF.const(F(mn))
      mx = fw(mx.term) if isinstance(mx, Tensor) else NF.const(F(mx))
      reqs = [("int", ib, ta.field(fx_, "int_bits", fw) + mx),
              ("frac", fo, ta.frac_bits(fx_, fw) + mn)]
    elif impl in ("mux", "and") and (kw.startswith("fixed") !=
                                      kx.startswith("fixed")) and not (
                                          kw.startswith("po2") or
                                          kx.startswith("po2")):
      fx_ = w if kw.startswith("fixed") else x
      reqs = [("int", ib, ta.field(fx_, "int_bits", fw)),
              ("frac", fo, ta.frac_bits(fx_, fw))]
    for what, have, need in reqs:
      verdict, wit = ta.prove_ge(have, need, DOM)
      rep.check(verdict != "refuted", "R6", unit,
                "insufficient-%s-bits" % what,
                "%s: output %s bits = %s, the product needs %s; "
                "counterexample %s" % (cfg, what, show(have), show(need),
                                       ta.show_env(wit)), instance=cfg,
                facts={"verdict": verdict})
    if len(rep.samples) < 10:
      rep.sample({"call": cfg, "impl": impl, "bits": show(bits),
                  "int_bits": show(ib), "is_signed": bool(sg)})
  rep.extra["operand_kind_pairs"] = len(results)
  # R7 sibling operand classes (StochasticBinary, StochasticTernary,
  # Bernoulli, QuantizedTanh, QuantizedUlaw, ...) describe the same value
  # sets as the class they derive from, so the factory must give them the
  # same implementation and output type, in both operand positions
  sibs = ta.sibling_operands(repo)
  rep.extra["sibling_operand_classes"] = ["%s~%s" % sk for sk in sibs]
  for cname, kind in sibs:
    ref_q = ta.make_operand(PE(repo), repo, kind, "w")
    sib_q = ta.make_sibling(PE(repo), repo, cname, kind, "w")
    if sib_q.attrs.get("mode") != ref_q.attrs.get("mode"):
      # e.g. Bernoulli derives from Binary but is its 0/1 variant
      alt = [k for k in ta.KINDS if ta.KINDS[k][2] == sib_q.attrs.get("mode")
             and ta.KINDS[k][1] is None]
      if len(alt) != 1:
        continue
      kind = alt[0]
    for kp in kinds:
      for pos in ("weight", "input"):
        outs = []
        for use_sib in (False, True):
          pe3 = PE(repo)
          fac3 = pe3.call(pe3.lookup_global("MultiplierFactory", mf), [], {})
          a = ta.make_sibling(pe3, repo, cname, kind, "w" if pos == "weight"
                              else "x") if use_sib else ta.make_operand(
                                  pe3, repo, kind, "w" if pos == "weight"
                                  else "x")
          b = ta.make_operand(pe3, repo, kp, "x" if pos == "weight" else "w")
          args = [a, b] if pos == "weight" else [b, a]
          try:
            m3 = pe3.call(pe3.getattr(fac3, "make_multiplier"), args, {})
            o3 = m3.attrs.get("output")
            outs.append((m3.cls.name, o3.attrs.get("mode"),
                         ta.field(o3, "bits", fw),
                         ta.field(o3, "int_bits", fw),
                         bool(o3.attrs.get("is_signed"))))
          except PyRaise as e:
            outs.append(("raises %s" % e.exc_name,))
        cfg = "make_multiplier(%s=%s, other=%s)" % (pos, cname, kp)
        unit = "qkeras/qtools/quantized_operators/multiplier_impl.py::%s" % (
            outs[0][0] if not outs[0][0].startswith("raises") else "factory")
        rep.check(outs[0] == outs[1], "R7", unit,
                  "sibling-operand-class-treated-differently",
                  "%s gives %s, the same call with the %s class it derives "
                  "from gives %s" % (cfg, _show_out(outs[1]), kind,
                                     _show_out(outs[0])), instance=cfg)
  rep.require_instances("R7", 40)
  # R8: what the shifter cells trust (get_min_max_exp) is checked against
  # the qkeras po2 quantizers' own exponent sets (rule shared with C18)
  from .c18 import rule_po2_exponents
  rule_po2_exponents(rep, repo, tier, rule="R8")
  rep.require_instances("R8", 200)
  rule_conversion(rep, repo, tier)
  rep.require_instances("R9", 40)
  rule_po2_product(rep, repo, tier)
  rule_products_are_independent(rep, repo)
  rep.require_instances("R11", 16)
  rule_float_products(rep, repo)
  if rule_conversion_follows_object(rep, repo) < 8:
    raise AnalysisError("instance-count conversion sequences: %r" %
                        rep.extra.get("conversion_sequences_skipped"))
  if rule_per_channel_integer_bits(rep, repo) < 6:
    raise AnalysisError("instance-count per-channel integer bits: %r" %
                        rep.extra.get("conversion_sequences_skipped"))
  rule_history_independence(rep, repo)
  rep.require_instances("R12", 30)
  rep.require_instances("R10", 200)
  rep.require_instances("R1", 36)
  rep.require_instances("R2", 60)
  rep.require_instances("R3", 36)
  rep.require_instances("R4", 40)
  rep.require_instances("R6", 20)
