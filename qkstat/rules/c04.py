"""C04 - binary / ternary code sets and scales.

With S the value stored in self.scale during the call and F the forward
value:
R5 product form: q := F / S is free of the scale atoms (output = scale x code)
R1 code set: the value set of q is inside {-1,+1}, {0,1} or {-1,0,+1}.
R2 sign / threshold: by region of x the code is +1 for x>0 (zero counts as
   positive), -1 (or 0 in 0/1 mode) for x<0; ternary with a constant
   threshold t: 0 on |x|<t, sign(x) on |x|>=t.
R3 least-squares form for alpha='auto': S == reduce(x*q; A) /
   (reduce(q*q; A) + eps) with the same reduction and axes in numerator and
   denominator, keepdims, q the code node of R1.
R4 alpha='auto_po2': the value set of S is a positive power-of-two set,
   inside the configured exponent bounds when given.
The stochastic classes are decided in both arms of their learning-phase
conditional (attributes the two arms store differently are phase-dependent
values in the evaluator).  In the training arm the emitted code is a random
draw: R5 / R1 / R4 as above; R3 asks that the scale is the least-squares
form for the emitted code or for a deterministic, sign-correct code with the
same value set (the repository fits it to the deterministic code).
"""
from fractions import Fraction as F
import itertools

from ..loader import AnalysisError
from ..pe import ConfigRejected, Tensor, PyRaise, Unsupported
from .. import quant, oracle
from ..qir import Fwd, Eval, Env, value_set, mk_app, equal_mod_finite
from ..nf import NF, show
from ..vset import VS

TECHNIQUE = ("Normal-form factorisation output = scale x code on the "
             "partially evaluated IR; finite-set value analysis of the code "
             "by region of x; structural match of the least-squares scale; "
             "power-of-two domain for auto_po2 scales.")


def lattice(tier):
  # (a constant alpha also as a Python int, the kind a quantizer string such
  # as 'ternary(alpha=2)' parses to)
  alphas = (None, F(1), F(5, 2), 2, "auto", "auto_po2")
  for use01, alpha in itertools.product((False, True), alphas):
    bounds = [(None, None)]
    if alpha == "auto_po2":
      bounds += [(-2, 3), (None, 0), (0, None)]
      if tier == "thorough":
        bounds += [(None, 1), (-4, None)]
    for mn, mx in bounds:
      yield "binary", dict(use_01=use01, alpha=alpha, min_po2_exponent=mn,
                           max_po2_exponent=mx)
  thrs = (None, F(1, 2), 0)
  if tier == "thorough":
    thrs += (F(1, 8), 2, F(0))
  for alpha, thr in itertools.product(alphas, thrs):
    if isinstance(alpha, str) and thr is not None:
      continue   # rejected by the quantizer's own assertion
    yield "ternary", dict(alpha=alpha, threshold=thr)
  for alpha in (None, F(2), 3, "auto", "auto_po2"):
    yield "stochastic_binary", dict(alpha=alpha)
    yield "stochastic_ternary", dict(alpha=alpha)


def scale_nf(b, fw):
  s = b.obj.attrs.get("scale")
  if isinstance(s, Tensor):
    return fw(s.term)
  if s is None:
    return None
  return NF.const(F(s))


def check_least_squares(rep, unit, cfg, loc, s_nf, q_nf, x_nf, codes=None,
                        is_bin=False, hi_lo=(1, -1), emitted=None):
  """q_nf None (training arm of the stochastic quantizers, whose emitted
  code is random): the scale has to be the least-squares form for SOME
  deterministic code c, read off the numerator reduce(x*c): c's value set is
  inside `codes`, c is sign-correct by region of x, and the denominator
  reduces c^2."""
  sm = s_nf.single_monomial()
  why = None
  derive = q_nf is None
  if sm is None or sm[1] != 1:
    why = "scale is not a single quotient: %s" % show(s_nf, 200)
  else:
    num = [a for a, e in sm[0] if e == 1 and a[0] == "app" and
           a[1].startswith("reduce_")]
    den = [a for a, e in sm[0] if e == 1 and a[0] == "app" and
           a[1] == "recip"]
    if len(num) != 1 or len(den) != 1 or len(sm[0]) != 2:
      why = "scale is not reduce(x*q)/(reduce(q*q)+eps): %s" % show(s_nf,
                                                                    200)
    else:
      n_at = num[0]
      d_nf = den[0][3][0]
      eps = d_nf.terms.get((), F(0))
      rest = d_nf - eps
      d_at = rest.single_atom()
      if d_at is None or d_at[0] != "app" or d_at[1] != n_at[1]:
        why = "numerator and denominator use different reductions: %s" % \
            show(s_nf, 200)
      elif d_at[2] != n_at[2]:
        why = "numerator axes %s differ from denominator axes %s" % (
            n_at[2], d_at[2])
      elif not n_at[2][1]:
        why = "reduction does not keep dims (scale would not broadcast)"
      elif not (eps > 0):
        why = "no positive epsilon in the denominator"
      elif derive:
        c = n_at[3][0] * x_nf.inverse()
        def on(lo, hi, xs=None):
          return Eval(Env(x=VS.real(lo, hi) if lo != hi else VS.const(lo),
                          xsign=xs)).nf(c)
        if any(a == ("x",) and e < 0 for m in c.terms for a, e in m):
          why = "numerator reduces %s, which is not x*code" % show(
              n_at[3][0], 120)
        elif emitted is not None and c == emitted:
          # fitted to the very code that is emitted
          if d_at[3][0] != c * c:
            why = "denominator reduces %s, expected code^2 = %s" % (
                show(d_at[3][0], 120), show(c * c, 120))
        elif any(a[0] == "app" and a[1] == "rand" for a in c.atoms()):
          why = "the code %s the scale is fitted to is random and not the " \
              "emitted code" % show(c, 120)
        elif not value_set(c).subset_of(codes):
          why = "the code %s the scale is fitted to has values %r, not " \
              "inside %r" % (show(c, 120), value_set(c), codes)
        elif d_at[3][0] != c * c:
          why = "denominator reduces %s, expected code^2 = %s" % (
              show(d_at[3][0], 120), show(c * c, 120))
        elif n_at[1] not in ("reduce_mean", "reduce_sum"):
          why = "reduction %s is neither a mean nor a sum" % n_at[1]
        else:
          pos, neg, zero = on(F(0), None, 1), on(None, F(0), -1), \
              on(F(0), F(0), 0)
          if is_bin:
            if not (pos.const_value() == hi_lo[0] and
                    neg.const_value() == hi_lo[1] and
                    zero.const_value() == hi_lo[0]):
              why = "the code the scale is fitted to is %r for x>0, %r " \
                  "for x<0, %r for x=0 (expected %s / %s / %s)" % (
                      pos, neg, zero, hi_lo[0], hi_lo[1], hi_lo[0])
          elif not (pos.subset_of(VS.fin([0, 1])) and
                    neg.subset_of(VS.fin([-1, 0]))):
            why = "the code the scale is fitted to is %r for x>0, %r for " \
                "x<0" % (pos, neg)
      elif n_at[3][0] != x_nf * q_nf:
        why = "numerator reduces %s, expected x*code = %s" % (
            show(n_at[3][0], 120), show(x_nf * q_nf, 120))
      elif d_at[3][0] != q_nf * q_nf:
        why = "denominator reduces %s, expected code^2 = %s" % (
            show(d_at[3][0], 120), show(q_nf * q_nf, 120))
      elif n_at[1] not in ("reduce_mean", "reduce_sum"):
        why = "reduction %s is neither a mean nor a sum" % n_at[1]
  rep.check(why is None, "R3", unit, "scale-not-least-squares",
            "the data-dependent scale is not the least-squares optimum "
            "sum(x*code)/sum(code^2): %s" % why, loc=loc, instance=cfg,
            facts={"config": cfg, "scale": show(s_nf, 400)})


REDUCTIONS = ("reduce_mean", "reduce_sum", "reduce_max", "reduce_min")
SHAPE_OPS = ("reshape", "repeat", "tile", "expand_dims")


class GroupInconclusive(Exception):
  pass


class GroupMismatch(Exception):
  """Two operands of one element-wise operation (e.g. numerator and
  denominator of the scale) are reduced over different groups."""


def _apply_shape_op(t, arr):
  import numpy as np
  f, attrs = t[1], t[2]
  if f == "reshape":
    return arr.reshape(tuple(attrs[0]))
  if f == "repeat":
    return np.repeat(arr, attrs[0], axis=attrs[1])
  if f == "tile":
    return np.tile(arr, tuple(attrs[0]))
  if f == "expand_dims":
    return np.expand_dims(arr, attrs[0])
  raise GroupInconclusive("shape operation %s" % f)


def group_labels(term, x_shape):
  """Which elements share a scale.  Index arrays are pushed through the
  shape operations of the raw IR term (reshape / repeat / tile /
  expand_dims; element-wise operators keep positions): below the outermost
  reductions the positions of x tell which elements each reduced cell
  averages, above them the cell numbers tell which cell every position of
  the final scale reads.  Returns (cell_of_position, source_cell_of_position)
  as flat lists over the positions of x, or raises GroupInconclusive."""
  import numpy as np
  n = int(np.prod(x_shape))
  memo_down = {}

  def down(t):
    """array of x positions at every position of the value of t"""
    if id(t) in memo_down:
      return memo_down[id(t)]
    r = _down(t)
    memo_down[id(t)] = r
    return r

  def _down(t):
    k = t[0]
    if k == "x":
      return np.arange(n).reshape(x_shape)
    if k in ("c", "sym"):
      return None
    if k == "app" and t[1] in SHAPE_OPS:
      arr = down(t[3][0])
      return None if arr is None else _apply_shape_op(t, arr)
    if k == "app" and (t[1] in REDUCTIONS or t[1] == "repeat"):
      return None
    parts = [down(a) for a in (t[3] if k == "app" else t[1:])
             if isinstance(a, tuple)]
    parts = [p for p in parts if p is not None]
    if not parts:
      return None
    shp = parts[0].shape
    for p in parts[1:]:
      if p.shape != shp or not (p == parts[0]).all():
        # operands that carry different positions (e.g. an earlier scale
        # estimate broadcast against x): keep the full-size one
        if p.size > parts[0].size:
          parts[0] = p
    return parts[0]
  cells = {}     # id(reduction term) -> (cell number array, membership)
  memo_up = {}

  def up(t):
    """array of cell numbers at every position of the value of t"""
    if id(t) in memo_up:
      return memo_up[id(t)]
    r = _up(t)
    memo_up[id(t)] = r
    return r

  def _up(t):
    k = t[0]
    if k in ("c", "sym", "x"):
      return None
    if k == "app" and t[1] in REDUCTIONS:
      src = down(t[3][0])
      if src is None:
        raise GroupInconclusive("reduction over a value without positions")
      axes, keep = t[2]
      if axes == ("all",):
        axes = tuple(range(src.ndim))
      if not keep:
        raise GroupInconclusive("reduction without keepdims")
      out_shape = tuple(1 if i in axes else d
                        for i, d in enumerate(src.shape))
      cell = np.arange(int(np.prod(out_shape))).reshape(out_shape)
      member = np.broadcast_to(cell, src.shape)
      owner = np.full(n, -1)
      owner[src.reshape(-1)] = member.reshape(-1)
      key = tuple(owner.tolist())
      cells[id(t)] = key
      return ("cells", key, cell)
    if k == "app" and t[1] in SHAPE_OPS:
      v = up(t[3][0])
      if v is None:
        return None
      return ("cells", v[1], _apply_shape_op(t, v[2]))
    parts = [up(a) for a in (t[3] if k == "app" else t[1:])
             if isinstance(a, tuple)]
    parts = [p for p in parts if p is not None]
    if not parts:
      return None
    first = parts[0]
    for p in parts[1:]:
      if p[1] != first[1] or p[2].shape != first[2].shape or \
          not (p[2] == first[2]).all():
        raise GroupMismatch("operands of %s are reduced over different "
                            "groups" % (t[1] if k == "app" else k))
    return first
  v = up(term)
  if v is None:
    raise GroupInconclusive("no reduction feeds the scale")
  _, owner, final = v
  try:
    reads = np.broadcast_to(final, x_shape).reshape(-1).tolist()
  except ValueError:
    raise GroupInconclusive("scale of shape %s does not broadcast to %s" %
                            (final.shape, x_shape))
  return list(owner), reads


def rule_groups(rep, repo, classes, rule="R6", tier="quick"):
  """Grouped scales (scale_axis / elements_per_scale): the recorded scale
  must be built from means over exactly one group each - the tensor is
  unrolled so that axis `a` of length L becomes (L/e, e), the mean runs over
  every axis except the group-count axis, and the per-group value is repeated
  e times along `a` (element j of the axis belongs to group j // e).  Without
  elements_per_scale the mean runs over every axis except scale_axis.
  (Rank-1 tensors are left out: the library scales them per tensor in some
  quantizers and per element in others, and documents neither.)"""
  mod = repo.module(quant.QMOD)
  shapes = [(4, 6), (2, 3, 8)] if tier == "quick" else \
      [(4, 6), (2, 3, 8), (2, 4, 6, 8)]
  n = 0
  for cls, base in classes:
    unit = "%s::%s.__call__" % (mod.relpath, cls)
    rep.unit(unit)
    for shp in shapes:
      rank = len(shp)
      for a in range(rank):
        L = shp[a]
        for e in [None] + [d for d in range(1, L + 1) if L % d == 0]:
          if rank == 1 and e is not None:
            continue
          for spelled_as_lists in ((False, True) if e is not None
                                   else (False,)):
            kw = dict(base, scale_axis=a)
            if e is not None:
              kw["elements_per_scale"] = e
            if spelled_as_lists:
              # the list spelling of the same grouping
              kw["scale_axis"], kw["elements_per_scale"] = [a], [e]
            cfg = "%s(%s)@shape%s" % (cls, oracle.show_kwargs(kw), shp)
            try:
              b = quant.build(repo, cls, kw, x_shape=shp)
            except ConfigRejected:
              continue
            sattr = "scale" if cls != "quantized_linear" else \
                "quantization_scale"
            sc = b.obj.attrs.get(sattr)
            if not isinstance(sc, Tensor):
              rep.fail(rule, unit, "no-scale-recorded", "%s: no scale" % cfg,
                       instance=cfg)
              continue
            n += 1
            loc = b.pe.loc_of(sc.term)
            import numpy as np
            try:
              owner, reads = group_labels(sc.term, shp)
            except GroupInconclusive as ex:
              raise AnalysisError("unsupported-construct grouped scale of %s: "
                                  "%s" % (cfg, ex))
            except GroupMismatch as ex:
              rep.fail(rule, unit, "group-membership",
                       "%s: %s" % (cfg, ex), loc=loc, instance=cfg)
              continue
            ee = 1 if e is None else e
            # expected: positions with the same index j // e along axis a (and
            # any index along the other axes) form one group
            idx = np.indices(shp)[a] // ee if e is not None else \
                np.indices(shp)[a]
            want = idx.reshape(-1).tolist()
            # the partition induced by `owner` must be the expected one
            pairs = {}
            ok_part = True
            for o, w in zip(owner, want):
              if pairs.setdefault(o, w) != w:
                ok_part = False
            ok_part = ok_part and len(set(pairs.values())) == len(pairs) and \
                -1 not in pairs
            rep.check(ok_part, rule, unit, "group-membership",
                      "%s: the means that feed the scale do not average "
                      "exactly the elements of one group (groups of %d along "
                      "axis %d, all other axes reduced); cell of each element: "
                      "%s" % (cfg, ee, a, owner[:48]), loc=loc, instance=cfg)
            rep.check(reads == owner, rule, unit, "group-scale-misplaced",
                      "%s: position p of the tensor is scaled with the value "
                      "computed for another group: cells read %s, cells the "
                      "positions belong to %s" % (cfg, reads[:48], owner[:48]),
                      loc=loc, instance=cfg)
  if n < 20:
    raise AnalysisError("instance-count only %d grouped-scale "
                        "configurations" % n)


def rule_late_data_format(rep, repo, configs, rule):
  """The image data format is global state that may be switched after the
  library was imported: a quantizer used afterwards behaves as if the format
  had been set before the import - nothing is read at import time, e.g. in a
  default argument (shared with C05)."""
  from ..qir import equal_mod_finite as _eqf
  mod = repo.module(quant.QMOD)

  def late_switch(pe, m):
    pe.module_globals(m)                      # the import happens now ...
    pe.image_data_format = "channels_first"   # ... the switch afterwards
  n9 = 0
  for cls, kw in configs:
    for shp in ((4, 6), (4, 3, 3, 5)):
      cfg = "%s(%s)@shape%s, channels_first selected after import" % (
          cls, oracle.show_kwargs(kw), shp)
      try:
        early = quant.build(repo, cls, kw, x_shape=shp,
                            image_data_format="channels_first")
        late = quant.build(repo, cls, kw, x_shape=shp,
                           image_data_format="channels_last",
                           setup=late_switch)
      except ConfigRejected:
        continue
      n9 += 1
      unit9 = "%s::%s.__call__" % (mod.relpath, cls)
      same = all(_eqf(early.fwd(ph), late.fwd(ph)) for ph in ("infer",
                                                              "train"))
      for sattr in ("scale", "quantization_scale"):
        s1, s2 = early.obj.attrs.get(sattr), late.obj.attrs.get(sattr)
        if same and isinstance(s1, Tensor) and isinstance(s2, Tensor):
          same = _eqf(Fwd()(s1.term), Fwd()(s2.term))
      rep.check(same, rule, unit9, "data-format-read-at-import",
                "%s: the quantizer computes %s, with the format selected "
                "before the import %s" % (cfg, show(late.fwd(), 160),
                                          show(early.fwd(), 160)),
                loc=late.pe.loc_of(late.term), instance=cfg)
      # ... nor remembered from a call made under the other format: a
      # quantizer of the class is used under channels_last, the format is
      # switched, and a new quantizer is built and called
      try:
        first = quant.build(repo, cls, kw, x_shape=shp,
                            image_data_format="channels_last")
        pe_ = first.pe
        pe_.image_data_format = "channels_first"
        q2 = pe_.call(pe_.lookup_global(cls, mod), [], dict(kw))
        pe_.rand_counter = 0
        out2 = pe_.call(q2, [pe_.x_input()], {})
      except (ConfigRejected, PyRaise):
        continue
      same2 = all(_eqf(Fwd(ph)(out2.term), early.fwd(ph))
                  for ph in ("infer", "train"))
      rep.check(same2, rule, unit9, "data-format-remembered-from-earlier-call",
                "%s, after a quantizer of the class was used under "
                "channels_last: the new quantizer computes %s, in a process "
                "that only ever used channels_first %s" % (
                    cfg, show(Fwd()(out2.term), 160), show(early.fwd(), 160)),
                loc=pe_.loc_of(out2.term), instance=cfg)
  return n9


def rule_default_axes(rep, repo, configs, rule):
  """Per-channel statistics under both image data formats (shared with C05).
  With scale_axis left at its default every data-derived statistic of a
  quantizer (scale fit, maximum, deviation, threshold) is taken per output
  channel.  The library's convention, read off its reduction sites and
  frozen here: channels_last - one value per index of the last axis
  (reduction over axes 0..rank-2); channels_first - one value per index of
  axis 0 (reduction over axes 1..rank-1); keepdims, so that the value
  broadcasts.  Decided for ranks 2, 3 and 4 in both phases; a site that
  reduces over other axes is reported with the axes it uses."""
  mod = repo.module(quant.QMOD)
  n = 0
  for cls, kw in configs:
    unit = "%s::%s.__call__" % (mod.relpath, cls)
    for fmt in ("channels_last", "channels_first"):
      for shp in ((4, 6), (4, 3, 5), (4, 3, 3, 5)):
        rank = len(shp)
        want = tuple(range(rank - 1)) if fmt == "channels_last" else \
            tuple(range(1, rank))
        cfg = "%s(%s)@shape%s, %s" % (cls, oracle.show_kwargs(kw), shp, fmt)
        try:
          b = quant.build(repo, cls, kw, x_shape=shp, image_data_format=fmt)
        except ConfigRejected:
          continue
        n += 1
        seen = {}
        terms = [b.term]
        for sattr in ("scale", "quantization_scale"):
          sv = b.obj.attrs.get(sattr)
          if isinstance(sv, Tensor):
            terms.append(sv.term)
        for ph in ("infer", "train"):
          for t in terms:
            for a in Fwd(ph)(t).atoms():
              if a[0] == "app" and a[1].startswith("reduce_"):
                seen.setdefault(tuple(a[2]), a[1])
        bad = sorted((ax, fn) for ax, fn in seen.items()
                     if ax != (want, True))
        rep.check(not bad, rule, unit, "statistic-not-per-channel",
                  "%s: %s; the per-channel convention reduces over axes %s "
                  "with keepdims" % (cfg, "; ".join(
                      "%s over axes %s (keepdims %s)" % (fn, ax[0], ax[1])
                      for ax, fn in bad), want),
                  loc=b.pe.loc_of(b.term), instance=cfg)
  return n


def rule_call_is_pure(rep, repo, classes, rule, tier):
  """A call leaves the configuration alone: after q(x) every constructor
  option still has the value it had (lists included - an option list that
  is modified in place changes the next call), and a second call on the
  same input gives the same function as the first (shared with C05)."""
  import copy as _copy
  from ..qir import equal_mod_finite
  from ..pe import PyRaise
  mod = repo.module(quant.QMOD)
  n = 0
  for cls, base in classes:
    ci = mod.classes.get(cls)
    if ci is None:
      raise AnalysisError("anchor-missing class %s" % cls)
    params = [p_ for p_, _ in ci.init_params()[0]]
    unit = "%s::%s.__call__" % (mod.relpath, cls)
    rep.unit(unit)
    variants = [dict(base)]
    if "scale_axis" in params and "elements_per_scale" in params:
      variants += [dict(base, scale_axis=[0, 1], elements_per_scale=2),
                   dict(base, scale_axis=[0, 2], elements_per_scale=[2, 4]),
                   dict(base, scale_axis=[1], elements_per_scale=[3]),
                   dict(base, scale_axis=1, elements_per_scale=3),
                   dict(base, scale_axis=[1, 2], elements_per_scale=1)]
    for kw in variants:
      cfg = "%s(%s)@shape(4, 6, 8)" % (cls, oracle.show_kwargs(kw))
      try:
        pe, q = quant.construct(repo, cls, {k_: _copy.deepcopy(v_)
                                            for k_, v_ in kw.items()},
                                x_shape=(4, 6, 8))
        before = {p_: _copy.deepcopy(q.attrs.get(p_)) for p_ in params
                  if not isinstance(q.attrs.get(p_), Tensor)}
        pe.rand_counter = 0
        o1 = pe.call(q, [pe.x_input()], {})
      except (ConfigRejected, PyRaise):
        continue
      n += 1
      after = {p_: q.attrs.get(p_) for p_ in before}
      changed = sorted(p_ for p_ in before if type(before[p_]) != type(
          after[p_]) or before[p_] != after[p_])
      # documented adjustments made by the call itself are not options
      rep.check(not changed, rule, unit, "call-changes-configuration",
                "%s: after one call %s" % (cfg, ", ".join(
                    "%s is %r (was %r)" % (p_, after[p_], before[p_])
                    for p_ in changed)), loc=pe.loc_of(o1.term),
                instance=cfg, observed=str([(p_, after[p_])
                                            for p_ in changed]))
      try:
        pe.rand_counter = 0
        o2 = pe.call(q, [pe.x_input()], {})
      except PyRaise as e:
        rep.fail(rule, unit, "second-call-raises", "%s: the second call of "
                 "the same object raises %s" % (cfg, e),
                 loc=pe.loc_of(o1.term), instance=cfg)
        continue
      same = all(equal_mod_finite(Fwd(ph)(o1.term), Fwd(ph)(o2.term))
                 for ph in ("infer", "train"))
      rep.check(same, rule, unit, "second-call-differs",
                "%s: the second call of the same object on the same input "
                "computes %s, the first %s" % (cfg, show(Fwd()(o2.term), 160),
                                               show(Fwd()(o1.term), 160)),
                loc=pe.loc_of(o1.term), instance=cfg)
      # ... the SAME weight variable with new contents (an optimiser step, a
      # set_weights) is quantized from its current contents
      try:
        from ..pe import Var as _Var
        from ..qir import simplify_app as _sa
        pe3, q3 = quant.construct(repo, cls, {k_: _copy.deepcopy(v_)
                                              for k_, v_ in kw.items()},
                                  x_shape=(4, 6, 8))
        var = _Var(("app", "variable", (), (("x",),)), (4, 6, 8))
        pe3.rand_counter = 0
        pe3.call(q3, [var], {})
        pe3.call(pe3.getattr(var, "assign"),
                 [Tensor(("sym", "w_new"), (4, 6, 8))], {})
        pe3.rand_counter = 0
        o_new = pe3.call(q3, [var], {})
        pe4, q4 = quant.construct(repo, cls, {k_: _copy.deepcopy(v_)
                                              for k_, v_ in kw.items()},
                                  x_shape=(4, 6, 8))
        pe4.rand_counter = 0
        o_ref = pe4.call(q4, [Tensor(("sym", "w_new"), (4, 6, 8))], {})
        stale = [ph for ph in ("infer", "train") if not equal_mod_finite(
            Fwd(ph)(o_new.term), Fwd(ph)(o_ref.term))]
        rep.check(not stale, rule, unit, "stale-after-variable-update",
                  "%s: the same weight variable, assigned new contents, is "
                  "quantized to %s; its current contents give %s" % (
                      cfg, show(Fwd()(o_new.term), 160),
                      show(Fwd()(o_ref.term), 160)),
                  loc=pe.loc_of(o1.term), instance=cfg)
      except (ConfigRejected, PyRaise, Unsupported):
        pass
      # ... and a later call on a tensor of another rank is the call a fresh
      # object would make (nothing derived from the first tensor is kept)
      try:
        pe2, q2 = quant.construct(repo, cls, {k_: _copy.deepcopy(v_)
                                              for k_, v_ in kw.items()},
                                  x_shape=(5, 7))
        pe2.rand_counter = 0
        fresh = pe2.call(q2, [pe2.x_input()], {})
      except (ConfigRejected, PyRaise):
        continue
      try:
        pe.rand_counter = 0
        o3 = pe.call(q, [Tensor(("x",), (5, 7))], {})
      except PyRaise as e:
        rep.fail(rule, unit, "call-on-another-rank-raises", "%s: after the "
                 "calls on a rank-3 tensor a call on a rank-2 tensor raises "
                 "%s (a fresh object accepts it)" % (cfg, e),
                 loc=pe.loc_of(o1.term), instance=cfg)
        continue
      same = all(equal_mod_finite(Fwd(ph)(o3.term), Fwd(ph)(fresh.term))
                 for ph in ("infer", "train"))
      rep.check(same, rule, unit, "call-depends-on-earlier-tensor",
                "%s: after calls on a rank-3 tensor a rank-2 tensor gives "
                "%s, a fresh object %s" % (cfg, show(Fwd()(o3.term), 160),
                                           show(Fwd()(fresh.term), 160)),
                loc=pe.loc_of(o1.term), instance=cfg)
  return n


def rule_follows_the_magnitude(rep, repo, configs, rule):
  """With alpha='auto' the threshold and the scale are derived from the data
  alone, so the quantizer follows the magnitude of its input: the emitted
  value (scale * code) and the recorded scale are homogeneous of degree 1 in
  x - the code is the same for x, 1000*x and x/1000, huge or tiny.  Decided
  by degree typing of the forward term (qkstat/homog.py): an additive
  constant next to a data-sized quantity inside a rounding, comparison or
  quotient has no degree."""
  from .. import homog
  from ..pe import show_term
  mod = repo.module(quant.QMOD)
  n = 0
  for cls, kw in configs:
    cfg0 = "%s(%s)" % (cls, oracle.show_kwargs(kw))
    unit = "%s::%s.__call__" % (mod.relpath, cls)
    try:
      b = quant.build(repo, cls, kw)
    except ConfigRejected:
      continue
    # (the training arm of the stochastic quantizers emits a random draw
    # whose probabilities are normalised with an epsilon: not part of the
    # clause)
    for phase in ("infer",):
      cfg = cfg0
      sc = b.obj.attrs.get("scale")
      try:
        d_out = homog.Degree(phase)
        deg = d_out(b.term)
        d_sc = homog.Degree(phase)
        deg_s = d_sc(b.pe.as_term(sc)) if sc is not None else None
      except homog.Inconclusive as e:
        rep.extra.setdefault("magnitude_inconclusive", {})[cfg] = str(e)
        continue
      n += 1
      loc = b.pe.loc_of(b.term)
      ok = deg in (1, homog.ANY) and deg_s in (1, homog.ANY)
      why = d_out.why if d_out.why is not None else d_sc.why
      rep.check(ok, rule, unit, "does-not-follow-the-magnitude",
                "%s: output has degree %s and the recorded scale degree %s "
                "in x (expected 1 and 1: codes independent of the magnitude "
                "of the data)%s" % (
                    cfg, deg, deg_s, "; no degree: %s" % show_term(why)[:200]
                    if why is not None else ""), loc=loc, instance=cfg)
  return n


def run(rep, repo, tier):
  mod = repo.module(quant.QMOD)
  rep.trusted.append("semantics table of TF/Keras primitives")
  rep.assumptions.append("non-negativity of the scale in 0/1 mode and the "
                         "epsilon term's numerical effect are not decided")
  n = 0
  for cls, kw in lattice(tier):
    if cls not in mod.classes:
      raise AnalysisError("anchor-missing class %s" % cls)
    cfg = "%s(%s)" % (cls, oracle.show_kwargs(kw))
    unit = "%s::%s.__call__" % (mod.relpath, cls)
    try:
      b = quant.build(repo, cls, kw)
    except ConfigRejected:
      continue
    cfg0 = cfg
    for phase in (("infer", "train") if cls.startswith("stochastic")
                  else ("infer",)):
      train = phase == "train"
      cfg = cfg0 + (" [training arm]" if train else "")
      fw = Fwd(phase)
      f = fw(b.term)
      if any(a[0] == "sym" and str(a[1]).startswith("RAISES")
             for a in f.atoms()):
        continue
      n += 1
      rep.unit(unit)
      loc = b.pe.loc_of(b.term)
      s_nf = scale_nf(b, fw)
      facts = {"config": cfg, "forward": show(f, 400),
               "scale": show(s_nf, 300) if s_nf is not None else None}
      if s_nf is None or s_nf.is_zero():
        rep.fail("R5", unit, "no-scale-recorded",
                 "self.scale is not set by the call", loc=loc, instance=cfg,
                 facts=facts)
        continue
      if s_nf.single_monomial() is None:
        rep.fail("R5", unit, "scale-not-a-factor",
                 "the recorded scale %s is not a single factor" %
                 show(s_nf, 200), loc=loc, instance=cfg, facts=facts)
        continue
      # a constant alpha IS the scale, whatever kind of number spells it
      # (without alpha: the class default, 1)
      a_ = kw.get("alpha")
      if not isinstance(a_, str):
        want_s = F(a_) if a_ is not None else None
        if want_s is None:
          da = b.obj.attrs.get("default_alpha")
          try:
            want_s = F(da) if da is not None else F(1)
          except (TypeError, ValueError):
            want_s = None
        if want_s is not None:
          rep.check(s_nf.const_value() == want_s, "R5", unit,
                    "scale-is-not-the-configured-constant",
                    "%s: the recorded scale is %s, the configured constant "
                    "is %s" % (cfg, show(s_nf, 120), want_s), loc=loc,
                    instance=cfg, facts=facts)
      q = f * s_nf.inverse()
      s_atoms = {a for a in s_nf.atoms(deep=False)}
      leftover = [a for a in q.atoms(deep=False) if a in s_atoms]
      rep.check(not leftover, "R5", unit, "output!=scale*code",
                "output / recorded scale still contains scale factors: %s" %
                show(q, 200), loc=loc, instance=cfg, facts=facts)
      is_bin = "binary" in cls
      if is_bin:
        codes = VS.fin([0, 1]) if kw.get("use_01") else VS.fin([-1, 1])
      else:
        codes = VS.fin([-1, 0, 1])
      got = value_set(q)
      rep.check(got.subset_of(codes), "R1", unit, "code-set",
                "code value set %r is not inside %r (code = %s)" %
                (got, codes, show(q, 200)), loc=loc, instance=cfg, facts=facts)
      if n % 5 == 1:
        rep.sample({"config": cfg, "code": show(q, 160),
                    "code_values": repr(got), "scale": show(s_nf, 160)})
      # R2 by region
      def on(lo, hi, xs=None):
        return Eval(Env(x=VS.real(lo, hi) if lo != hi else VS.const(lo),
                        xsign=xs)).nf(q)
      pos, neg, zero = on(F(0), None, 1), on(None, F(0), -1), on(F(0), F(0), 0)
      if train:
        pass    # the emitted code is a random draw; its sign is not decided
      elif is_bin:
        hi_code, lo_code = (1, 0) if kw.get("use_01") else (1, -1)
        ok = pos.const_value() == hi_code and neg.const_value() == lo_code \
            and zero.const_value() == hi_code
        rep.check(ok, "R2", unit, "sign-orientation",
                  "code by region: x>0 -> %r, x<0 -> %r, x=0 -> %r; expected "
                  "%s / %s / %s" % (pos, neg, zero, hi_code, lo_code, hi_code),
                  loc=loc, instance=cfg, facts=facts)
      else:
        ok = pos.subset_of(VS.fin([0, 1])) and neg.subset_of(VS.fin([-1, 0]))
        rep.check(ok, "R2", unit, "sign-orientation",
                  "ternary code by region: x>0 -> %r, x<0 -> %r" % (pos, neg),
                  loc=loc, instance=cfg, facts=facts)
        if not isinstance(kw.get("alpha"), str):
          # constant threshold (documented default 0.33)
          t = F(kw["threshold"]) if kw.get("threshold") is not None else None
          if t is None:
            dt = b.obj.attrs.get("default_threshold")
            t = F(dt) if dt is not None else None
          if t is not None and t == 0:
            # no dead band: every non-zero input keeps its sign
            rep.check(pos.const_value() == 1 and neg.const_value() == -1,
                      "R2", unit, "threshold-orientation",
                      "with threshold 0: x>0 -> %r, x<0 -> %r (expected 1 / "
                      "-1)" % (pos, neg), loc=loc, instance=cfg, facts=facts)
          elif t is not None:
            e = t / 1000
            inner = on(-t + e, t - e)
            up = on(t, None, 1)
            dn = on(None, -t, -1)
            rep.check(inner.const_value() == 0 and up.const_value() == 1 and
                      dn.const_value() == -1, "R2", unit,
                      "threshold-orientation",
                      "with threshold %s: |x|<t -> %r, x>=t -> %r, x<=-t -> %r "
                      "(expected 0 / 1 / -1)" % (t, inner, up, dn), loc=loc,
                      instance=cfg, facts=facts)
      # R3 / R4
      alpha = kw.get("alpha")
      if alpha == "auto":
        x_nf = NF.x()
        if train:
          check_least_squares(rep, unit, cfg, loc, s_nf, None, x_nf,
                              codes=codes, is_bin=is_bin, emitted=q)
        else:
          check_least_squares(rep, unit, cfg, loc, s_nf, q, x_nf)
      if alpha == "auto_po2":
        sv = value_set(s_nf)
        ok = sv.kind == "po2" and sv.signs == frozenset([1])
        mn, mx = kw.get("min_po2_exponent"), kw.get("max_po2_exponent")
        if ok and (mn is not None or mx is not None):
          ok = sv.exps.subset_of(VS.grid(1, 0, mn, mx))
        rep.check(ok, "R4", unit, "scale-not-power-of-two",
                  "auto_po2 scale value set is %r (expected a positive power "
                  "of two%s)" % (sv, "" if mn is None and mx is None else
                                 " with exponent in [%s, %s]" % (mn, mx)),
                  loc=loc, instance=cfg, facts=facts)
  rep.extra["configuration_points"] = n
  rule_groups(rep, repo, [("binary", dict(alpha="auto")),
                          ("binary", dict(alpha="auto_po2", use_01=True)),
                          ("ternary", dict(alpha="auto"))], "R6", tier)
  n9 = rule_late_data_format(rep, repo, [
      ("binary", dict(alpha="auto")), ("binary", dict(alpha="auto_po2")),
      ("binary", dict(alpha="auto", use_01=True)),
      ("ternary", dict(alpha="auto")), ("ternary", dict(alpha="auto_po2")),
      ("stochastic_binary", dict(alpha="auto")),
      ("stochastic_ternary", dict(alpha="auto"))], "R9")
  if n9 < 10:
    raise AnalysisError("instance-count only %d data-format scenarios" % n9)
  n8 = rule_call_is_pure(rep, repo, [
      ("binary", dict(alpha="auto")), ("binary", dict(alpha="auto_po2",
                                                      use_01=True)),
      ("binary", dict(alpha=None)), ("ternary", dict(alpha="auto")),
      ("ternary", dict(alpha="auto_po2")), ("ternary", dict(alpha=None)),
      ("stochastic_binary", dict(alpha="auto")),
      ("stochastic_ternary", dict(alpha="auto"))], "R8", tier)
  n10 = rule_default_axes(rep, repo, [
      ("binary", dict(alpha="auto")), ("binary", dict(alpha="auto_po2")),
      ("binary", dict(alpha="auto", use_stochastic_rounding=True)),
      ("ternary", dict(alpha="auto")), ("ternary", dict(alpha="auto_po2")),
      ("ternary", dict(alpha="auto", use_stochastic_rounding=True)),
      ("stochastic_binary", dict(alpha="auto")),
      ("stochastic_ternary", dict(alpha="auto"))], "R10")
  if n10 < 40:
    raise AnalysisError("instance-count only %d per-channel axis points" %
                        n10)
  if n8 < 15:
    raise AnalysisError("instance-count only %d call-purity configurations"
                        % n8)
  # R7: a quantizer installed as weight quantizer (after its own
  # _set_trainable_parameter()) equals the directly constructed one
  from .c05 import rule_installed

  def installed(cls, tier_):
    for cls_, kw in lattice(tier_):
      if cls_ == cls:
        yield kw
    if cls == "bernoulli":
      for alpha in (None, F(2), "auto"):
        yield dict(alpha=alpha)
    if cls == "binary":
      # options that only matter once the adjustment has switched the
      # quantizer to a power-of-two scale
      for use01, (mn, mx) in itertools.product(
          (False, True), ((-2, 3), (None, 0), (0, None))):
        yield dict(use_01=use01, alpha=None, min_po2_exponent=mn,
                   max_po2_exponent=mx)
  if rule_follows_the_magnitude(rep, repo, [
      ("binary", dict(alpha="auto")), ("binary", dict(alpha="auto",
                                                      use_01=True)),
      ("ternary", dict(alpha="auto")),
      ("ternary", dict(alpha="auto", use_stochastic_rounding=True)),
      ("ternary", dict(alpha="auto", number_of_unrolls=2)),
      ("stochastic_ternary", dict(alpha="auto")),
      ("stochastic_binary", dict(alpha="auto"))], "R11") < 7:
    raise AnalysisError("instance-count magnitude typing: %r" %
                        rep.extra.get("magnitude_inconclusive"))
  n7 = rule_installed(rep, repo, ("binary", "ternary", "stochastic_binary",
                                  "stochastic_ternary", "bernoulli"), "R7",
                      tier, installed)
  if n7 < 25:
    raise AnalysisError("instance-count only %d installed-quantizer "
                        "configurations" % n7)
  rep.require_instances("R6", 40)
  rep.require_instances("R1", 25)
  rep.require_instances("R2", 25)
  rep.require_instances("R3", 3)
  rep.require_instances("R4", 4)
  rep.require_instances("R5", 25)

  # R20: construction history (shared with C09 R10): every option
  # alternative of these classes is built and used first in ONE interpreter;
  # each configuration then computes / prints / rebuilds what it does alone
  from . import c09 as _c09
  from .. import qref as _qref
  if _c09.rule_construction_history(
      rep, repo, repo.module(quant.QMOD), ('binary', 'ternary', 'stochastic_binary', 'stochastic_ternary'), "R20") < 5:
    raise AnalysisError("instance-count construction histories")
