"""C20 - AutoQKeras trials respect the search limits; forgiving factor.

AutoQKHyperModel._get_quantizer / quantize_model and the forgiving-factor
classes are partially evaluated on tagged configurations: every
quantization-config table has its own keys and every limit index its own
bound, so the list offered to the tuner reveals which table and which limit
the code used.

R1 limit filter: the offered list is exactly {k in table(role): bits(k) <=
   limit[name][index(role)]} (or the explicit sub-list), and the returned bit
   width is the table's.
R2 role -> (table, limit index): kernel 0, bias 1, pointwise/recurrent kernel
   2, activations -1 - for neutral layer names and for layer names that
   themselves contain "kernel"/"bias".
R3 layers outside `limit` (and outside layer_indexes) create no tuner
   variable and no entry in the quantization dictionary.
R4 layers matched by one limit pattern share one tuner variable per role.
R5 every key AutoQKeras writes for a layer is a key model_quantize reads for
   that layer class.
R6 forgiving factor: c*log(ref/trial)/log(rate) with c = delta_p for smaller
   and delta_n for larger trials: zero at trial == ref, strictly decreasing in
   trial size, sign as documented (delta_p, delta_n > 0, rate > 1).
R7 size model: parameters = sum(elements * bits of the paired quantizer, or
   the reference width), activations likewise.
"""
import ast
from fractions import Fraction as F

from ..loader import AnalysisError
from ..pe import (PE, Tensor, Obj, Mock, PyRaise, Fork, Func, ClassRef,
                  Unsupported)
from ..qir import Fwd, Eval, Env, simplify_app, mk_app, expand_logs
from ..nf import NF, show
from ..vset import VS
from .. import pwa

TECHNIQUE = ("Partial evaluation of _get_quantizer / quantize_model on "
             "tagged configurations (which table and limit index reach the "
             "tuner); key-set comparison with model_quantize; symbolic "
             "normal form + polarity of the forgiving factor; symbolic size "
             "model.")

AQ = "qkeras.autoqkeras.autoqkeras_internal"
FFM = "qkeras.autoqkeras.forgiving_metrics.forgiving_factor"
FBM = "qkeras.autoqkeras.forgiving_metrics.forgiving_bits"

FIELDS = ("kernel", "bias", "pointwise_kernel", "recurrent_kernel",
          "recurrent_activation", "activation", "linear")
BITS = (2, 4, 8, 16)


def tagged_config():
  return {f: {"%s_%d" % (f, b): b for b in BITS} for f in FIELDS}


class Hp(object):
  def __init__(self):
    self.calls = []

  def mock(self):
    def choice(pe, args, kwargs):
      vals = args[1] if len(args) > 1 else kwargs.get("values")
      self.calls.append(("Choice", args[0], list(vals)))
      if not list(vals):
        raise PyRaise("ValueError", "hp.Choice with no values")
      if str(args[0]).startswith("network_filters"):
        return list(vals)[-1]   # a visible (non-1.0) filter scaling
      if "default" in kwargs:
        return kwargs["default"]
      return list(vals)[0]

    def fixed(pe, args, kwargs):
      self.calls.append(("Fixed", args[0], [args[1]]))
      return args[1]
    return Mock("hp", {"Choice": choice, "Fixed": fixed})


NOT_GIVEN = object()


def hyper(repo, limit, layer_indexes=NOT_GIVEN, tune_filters="none",
          exceptions="^$"):
  """An AutoQKHyperModel as its own __init__ leaves it (limit adjustment,
  normalisation of the options), for the given limit / layer_indexes."""
  aq = repo.module(AQ)
  c = aq.classes.get("AutoQKHyperModel")
  if c is None:
    raise AnalysisError("anchor-missing class AutoQKHyperModel")
  pe = PE(repo)
  pe.opaque_ext = True
  kw = dict(model=Mock("model", {}), metrics=[],
            target=Mock("target", {"get_reference": lambda pe, a, k: 1}),
            limit=limit, tune_filters=tune_filters,
            tune_filters_exceptions=exceptions,
            quantization_config=tagged_config(), activation_bits=4)
  if layer_indexes is not NOT_GIVEN:
    kw["layer_indexes"] = layer_indexes
  try:
    o = pe.call(pe.lookup_global("AutoQKHyperModel", aq), [], kw)
  except PyRaise as e:
    raise AnalysisError("unsupported-construct AutoQKHyperModel.__init__ "
                        "raises on the synthetic options: %s" % e)
  if tune_filters == "none":
    # the regular expression object is replaced by a stand-in that never
    # matches (it is not consulted when tune_filters is "none")
    o.attrs["tune_filters_exceptions"] = Mock("regex", {
        "search": lambda pe, a, k: None})
  return aq, c, o


# Documented limit formats: non-recurrent classes [weight, bias,
# activation], recurrent classes [weight, bias, recurrent, activation].  A
# pointwise kernel is a weight ("limit is same as kernel"); the recurrent
# kernel has its own entry.  role -> (table, index into the class's list)
EXPECT = {
    "LSTM": ([4, 8, 2, 16], {
        "kernel": ("kernel", 0), "bias": ("bias", 1),
        "recurrent_kernel": ("recurrent_kernel", 2),
        "recurrent_activation": ("recurrent_activation", -1),
        "activation": ("activation", -1)}),
    "SeparableConv2D": ([4, 8, 16], {
        "kernel": ("kernel", 0), "bias": ("bias", 1),
        "pointwise_kernel": ("pointwise_kernel", 0),
        "activation": ("activation", -1)}),
}


def explain_offer(offered, lim):
  """Which (table, limit entry) yields exactly this offer."""
  if offered is None:
    return "nothing"
  for table in FIELDS:
    for idx in range(len(lim)):
      if sorted(offered) == sorted("%s_%d" % (table, b) for b in BITS
                                   if b <= lim[idx]):
        return "%s table filtered by limit[%d]" % (table, idx)
  return "an offer no (table, limit entry) pair explains"


def rule_get_quantizer(rep, repo):
  aq, c, _ = hyper(repo, {})
  fn = c.methods.get("_get_quantizer")
  if fn is None:
    raise AnalysisError("anchor-missing method _get_quantizer")
  unit = "%s::AutoQKHyperModel._get_quantizer" % aq.relpath
  rep.unit(unit)
  loc = aq.loc(fn)
  for cls, (lim, roles) in sorted(EXPECT.items()):
    for lname in ("L", "kernel_L", "bias_L"):
      for role, (table, idx) in sorted(roles.items()):
        _, _, o = hyper(repo, {cls: list(lim)})
        pe = PE(repo)
        hp = Hp()
        f = Func(fn, aq, [], "_get_quantizer", o, c)
        try:
          r = pe.call_func(f, [hp.mock(), lname + "_" + role, lname, cls],
                           {"is_kernel": "kernel" in role})
        except PyRaise as e:
          rep.fail("R2", unit, "raises:%s" % role, "_get_quantizer raises "
                   "%s for role %s of a %s" % (e, role, cls), loc=loc)
          continue
        offered = hp.calls[-1][2] if hp.calls else None
        want = sorted("%s_%d" % (table, b) for b in BITS
                      if b <= lim[idx])
        tag = role if lname == "L" else "%s@layer-name-contains-%s" % (
            role, lname.split("_")[0])
        ok = offered is not None and sorted(offered) == want
        # the finding is identified by what is offered instead, so that a
        # different wrong table / limit entry is a different finding
        rep.check(ok, "R2", unit, "role-limit:%s:%s:gets %s" % (
            cls, tag, explain_offer(offered, lim)),
                  "for the %s of a %s layer named %r the tuner is offered "
                  "%s; the %s table filtered by limit[%d]=%d is %s" %
                  (role, cls, lname, offered, table, idx, lim[idx], want),
                  loc=loc, facts={"role": role, "layer_name": lname,
                                  "class": cls})
        if ok:
          name, bits = r
          rep.check(tagged_config()[table].get(name) == bits, "R1", unit,
                    "returned-bits:" + tag,
                    "returned (%r, %r): the bit width is not the table's" %
                    (name, bits), loc=loc)
  # R1 orientation with every limit value, kernel role
  for limit_bits in (1, 2, 3, 8, 16, 32):
    _, _, o = hyper(repo, {"Dense": [limit_bits, 4, 4]})
    pe = PE(repo)
    hp = Hp()
    f = Func(fn, aq, [], "_get_quantizer", o, c)
    try:
      r = pe.call_func(f, [hp.mock(), "L_kernel", "L", "Dense"], {})
      offered = sorted(hp.calls[-1][2]) if hp.calls else []
    except PyRaise as e:
      # an empty candidate list cannot be offered: acceptable only then
      offered = "raises %s" % e.exc_name
    want = sorted("kernel_%d" % b for b in BITS if b <= limit_bits)
    ok = offered == want or (not want and not isinstance(offered, list))
    rep.check(ok, "R1", unit, "limit-filter",
              "with a kernel limit of %d bits the tuner is offered %s, "
              "expected %s" % (limit_bits, offered, want), loc=loc,
              instance="limit=%d" % limit_bits)
  # explicit sub-list
  _, _, o = hyper(repo, {"Dense": [["kernel_8", "kernel_2"], 4, 4]})
  pe = PE(repo)
  hp = Hp()
  f = Func(fn, aq, [], "_get_quantizer", o, c)
  r = pe.call_func(f, [hp.mock(), "L_kernel", "L", "Dense"], {})
  rep.check(hp.calls and sorted(hp.calls[-1][2]) == ["kernel_2", "kernel_8"]
            and r[1] == tagged_config()["kernel"][r[0]], "R1", unit,
            "explicit-sublist",
            "an explicit list of allowed quantizers is offered as %s and "
            "returns %r" % (hp.calls[-1][2] if hp.calls else None, r),
            loc=loc)
  # R3: class not in limit, no pattern
  _, _, o = hyper(repo, {"Conv2D": [4, 4, 4]})
  pe = PE(repo)
  hp = Hp()
  r = pe.call_func(Func(fn, aq, [], "_get_quantizer", o, c),
                   [hp.mock(), "L_kernel", "L", "Dense"], {})
  rep.check(not hp.calls and isinstance(r, tuple) and r[0] is None, "R3",
            unit, "unlisted-class-gets-quantizer",
            "a layer whose class is not in `limit` gets %r and %d tuner "
            "variable(s)" % (r, len(hp.calls)), loc=loc)
  # R4: pattern group shares one variable per role
  _, _, o = hyper(repo, {"^conv.*": [4, 8, 2], "Conv2D": [16, 16, 16]})
  pe = PE(repo)
  hp = Hp()
  f = Func(fn, aq, [], "_get_quantizer", o, c)
  r1 = pe.call_func(f, [hp.mock(), "conv_a_kernel", "conv_a", "Conv2D"], {})
  r2 = pe.call_func(f, [hp.mock(), "conv_b_kernel", "conv_b", "Conv2D"], {})
  rep.check(len(hp.calls) == 1 and r1 == r2, "R4", unit,
            "pattern-group-not-shared",
            "two layers matched by one limit pattern create %d tuner "
            "variables and get %r / %r" % (len(hp.calls), r1, r2), loc=loc)
  rep.check(hp.calls and sorted(hp.calls[0][2]) == ["kernel_2", "kernel_4"],
            "R4", unit, "pattern-limit-not-applied",
            "the pattern's own limit (4 bits) must filter the offer, got %s"
            % (hp.calls[0][2] if hp.calls else None), loc=loc)
  r3 = pe.call_func(f, [hp.mock(), "conv_a_bias", "conv_a", "Conv2D"],
                    {"is_kernel": False})
  rep.check(len(hp.calls) == 2 and r3 != r1, "R4", unit,
            "pattern-group-mixes-roles",
            "the bias of a grouped layer must get its own variable (got %r)"
            % (r3,), loc=loc)
  # two pattern groups: each group registers its own tuner variable per role
  # and is filtered by its own limit - a choice made for one group is not
  # handed to the other
  _, _, o = hyper(repo, {"^enc_.*": [8, 8, 8], "^dec_.*": [2, 4, 4],
                         "Dense": [16, 16, 16]})
  pe = PE(repo)
  hp = Hp()
  f = Func(fn, aq, [], "_get_quantizer", o, c)
  try:
    pe.call_func(f, [hp.mock(), "enc_0_kernel", "enc_0", "Dense"], {})
    n_enc = len(hp.calls)
    rd = pe.call_func(f, [hp.mock(), "dec_0_kernel", "dec_0", "Dense"], {})
    off_d = sorted(hp.calls[-1][2]) if len(hp.calls) > n_enc else None
    rep.check(off_d == ["kernel_2"] and isinstance(rd, tuple) and
              rd[0] == "kernel_2", "R4", unit, "pattern-groups-share-choices",
              "with two pattern groups ('^enc_.*' up to 8 bits, '^dec_.*' up "
              "to 2 bits) the kernel of dec_0 is offered %s and gets %r after "
              "enc_0 was served; expected its own variable over ['kernel_2']"
              % (off_d, rd), loc=loc)
  except PyRaise as e:
    rep.fail("R4", unit, "pattern-groups-share-choices",
             "_get_quantizer raises %s with two pattern groups" % e, loc=loc)
  # overlapping name entries: a specific entry written before a broader one
  # that also matches (the idiom {"dense_0": ..., "dense": ...}) keeps its own
  # limit - whether the first written or the most specific entry wins, the
  # layer named by the specific entry is not folded into the broader group
  _, _, o = hyper(repo, {"dense_0": [2, 4, 4], "dense": [8, 8, 8],
                         "Dense": [16, 16, 16]})
  pe = PE(repo)
  hp = Hp()
  f = Func(fn, aq, [], "_get_quantizer", o, c)
  try:
    ra = pe.call_func(f, [hp.mock(), "dense_0_kernel", "dense_0", "Dense"],
                      {})
    off_a = sorted(hp.calls[-1][2]) if hp.calls else None
    n_a = len(hp.calls)
    rb = pe.call_func(f, [hp.mock(), "dense_1_kernel", "dense_1", "Dense"],
                      {})
    off_b = sorted(hp.calls[-1][2]) if len(hp.calls) > n_a else None
    rep.check(off_a == ["kernel_2"] and off_b == sorted(
        "kernel_%d" % b for b in BITS if b <= 8), "R4", unit,
              "overlapping-name-entries",
              "with limit entries 'dense_0' (2 bits) written before 'dense' "
              "(8 bits) the kernel of layer dense_0 is offered %s and the "
              "kernel of layer dense_1 %s; expected ['kernel_2'] and the "
              "table up to 8 bits" % (off_a, off_b), loc=loc)
  except PyRaise as e:
    rep.fail("R4", unit, "overlapping-name-entries",
             "_get_quantizer raises %s with overlapping name entries" % e,
             loc=loc)


def mock_layer(cname, name, **extra):
  attrs = {
      "__class__": Mock("class", {"__name__": cname}), "name": name,
      "use_bias": True, "activation": Mock("relu", {"__name__": "relu"}),
      "get_weights": lambda pe, a, k: [Mock("w", {"shape": (3, 3, 4, 8)})],
      "units": 8, "filters": 8,
  }
  attrs.update(extra)
  return Mock(cname, attrs)


def reader_keys(repo):
  """Per source class: keys model_quantize reads from the per-layer config
  (get_config(quantizer_config, layer, q_name, key))."""
  um = repo.module("qkeras.utils")
  fn = um.functions.get("model_quantize")
  if fn is None:
    raise AnalysisError("anchor-missing function utils.model_quantize")
  out = {}

  def keys_in(stmts):
    ks = set()
    for st in stmts:
      for n in ast.walk(st):
        if isinstance(n, ast.Call) and isinstance(n.func, ast.Name) and \
            n.func.id == "get_config" and len(n.args) >= 4 and \
            isinstance(n.args[3], ast.Constant):
          ks.add(n.args[3].value)
    return ks
  rnn = None
  for st in fn.body:
    if isinstance(st, ast.FunctionDef) and st.name == "quantize_rnn":
      rnn = keys_in(st.body)
  for n in ast.walk(fn):
    if isinstance(n, ast.For) and ast.unparse(n.target) == "layer":
      for st in n.body:
        node = st
        while isinstance(node, ast.If):
          t = node.test
          names = set()
          if isinstance(t, ast.Compare) and \
              ast.unparse(t.left) == 'layer["class_name"]'.replace('"', "'"):
            comp = t.comparators[0]
            if isinstance(comp, (ast.List, ast.Tuple)):
              names = {e.value for e in comp.elts
                       if isinstance(e, ast.Constant)}
            elif isinstance(comp, ast.Constant):
              names = {comp.value}
          ks = keys_in(node.body)
          calls_rnn = any(isinstance(x, ast.Call) and
                          isinstance(x.func, ast.Name) and
                          x.func.id == "quantize_rnn"
                          for s2 in node.body for x in ast.walk(s2))
          if calls_rnn and rnn:
            ks |= rnn
          for nm in names:
            out[nm] = ks
          if len(node.orelse) == 1 and isinstance(node.orelse[0], ast.If):
            node = node.orelse[0]
          else:
            break
  return out


def rule_quantize_model(rep, repo):
  aq, c, o = hyper(repo, {"Dense": [4, 4, 4], "Conv2D": [4, 4, 4],
                          "SeparableConv2D": [4, 4, 4, 4],
                          "DepthwiseConv2D": [4, 4, 4],
                          "LSTM": [4, 4, 4, 4], "Activation": [4]},
                   layer_indexes=[0, 1, 3, 4, 5, 6, 7])
  fn = c.methods.get("quantize_model")
  if fn is None:
    raise AnalysisError("anchor-missing method quantize_model")
  unit = "%s::AutoQKHyperModel.quantize_model" % aq.relpath
  rep.unit(unit)
  loc = aq.loc(fn)
  layers = [
      mock_layer("Dense", "d0"),
      mock_layer("Conv2D", "c1"),
      mock_layer("Dense", "d2_not_in_indexes"),
      mock_layer("Conv1D", "c3_class_not_in_limit"),
      mock_layer("SeparableConv2D", "s4"),
      mock_layer("DepthwiseConv2D", "dw5"),
      mock_layer("LSTM", "l6"),
      mock_layer("Activation", "a7"),
  ]
  model = Mock("model", {"layers": layers})
  o.attrs["model"] = model
  captured = {}

  def clone(pe, a, k):
    return model

  def mq(pe, a, k):
    captured["q_dict"] = a[1]
    return Mock("qmodel", {})
  pe = PE(repo, module_overrides={AQ: {"clone_model": clone,
                                       "model_quantize": mq}})
  hp = Hp()
  try:
    pe.call_func(Func(fn, aq, [], "quantize_model", o, c), [hp.mock()], {})
  except PyRaise as e:
    rep.fail("R3", unit, "quantize_model-raises",
             "quantize_model raises %s on the synthetic model" % e, loc=loc)
    return
  qd = captured.get("q_dict")
  if not isinstance(qd, dict):
    raise AnalysisError("unsupported-construct quantize_model did not hand "
                        "a dictionary to model_quantize")
  rep.extra["autoqkeras_q_dict_keys"] = {k: sorted(v) if isinstance(v, dict)
                                         else "<activation string>"
                                         for k, v in qd.items()}
  rep.sample({"q_dict": rep.extra["autoqkeras_q_dict_keys"]})
  rep.check("d2_not_in_indexes" not in qd, "R3", unit,
            "layer-outside-layer_indexes-quantized",
            "a layer whose index is not in layer_indexes is in the "
            "quantization dictionary", loc=loc)
  rep.check("c3_class_not_in_limit" not in qd, "R3", unit,
            "layer-outside-limit-quantized",
            "a layer whose class is not in `limit` is in the quantization "
            "dictionary", loc=loc)
  vars_for = [n for _, n, _ in hp.calls if "d2_not_in_indexes" in n or
              "c3_class_not_in_limit_bias" in n or
              "c3_class_not_in_limit_activation" in n]
  rep.check("d0" in qd and "c1" in qd, "R3", unit, "selected-layer-missing",
            "selected layers are missing from the quantization dictionary: "
            "%s" % sorted(qd), loc=loc)
  # R3 other forms of the selection: none given (no restriction), a tuple,
  # and the empty selection (nothing may be quantized)
  LIMIT = {"Dense": [4, 4, 4], "Conv2D": [4, 4, 4],
           "SeparableConv2D": [4, 4, 4, 4], "DepthwiseConv2D": [4, 4, 4],
           "LSTM": [4, 4, 4, 4], "Activation": [4]}
  in_limit = {"d0", "c1", "d2_not_in_indexes", "s4", "dw5", "l6", "a7"}
  for li, label, want in (
      (NOT_GIVEN, "not given", in_limit),
      (None, "None", in_limit),
      ((0, 1), "(0, 1)", {"d0", "c1"}),
      ([2], "[2]", {"d2_not_in_indexes"}),
      ([], "[] (empty list)", set()),
      ((), "() (empty tuple)", set())):
    _, _, o2 = hyper(repo, dict(LIMIT), layer_indexes=li)
    o2.attrs["model"] = model
    cap2 = {}

    def mq2(pe, a, k, cap2=cap2):
      cap2["q_dict"] = a[1]
      return Mock("qmodel", {})
    pe2 = PE(repo, module_overrides={AQ: {"clone_model": clone,
                                          "model_quantize": mq2}})
    hp2 = Hp()
    try:
      pe2.call_func(Func(fn, aq, [], "quantize_model", o2, c), [hp2.mock()],
                    {})
    except PyRaise as e:
      rep.fail("R3", unit, "quantize_model-raises:layer_indexes=" + label,
               "quantize_model raises %s with layer_indexes %s" % (e, label),
               loc=loc)
      continue
    got = {k for k in (cap2.get("q_dict") or {})
           if k in in_limit or k == "c3_class_not_in_limit"}
    rep.check(got == want, "R3", unit,
              "layer_indexes-selection:" + label,
              "with layer_indexes %s the layers handed to model_quantize "
              "are %s, expected %s" % (label, sorted(got), sorted(want)),
              loc=loc)
  # R3 limits keyed by layer-NAME patterns: a pattern selects the layers whose
  # name it matches from the start (re.match, as everywhere else in
  # AutoQKeras); layers that are not registered for tuning (batch
  # normalisation, pooling) are marked for conversion under the same rule
  _, _, o4 = hyper(repo, {"conv1": [4, 4, 4], "^fc": [4, 4, 4]})
  ls4 = [mock_layer("Conv2D", "conv1"),
         mock_layer("BatchNormalization", "bn_conv1"),
         mock_layer("BatchNormalization", "conv1_bn"),
         mock_layer("AveragePooling2D", "pool_after_conv1"),
         mock_layer("Conv2D", "res2a_conv1x"),
         mock_layer("Dense", "fc"),
         mock_layer("BatchNormalization", "prefc_bn")]
  model4 = Mock("model", {"layers": ls4})
  o4.attrs["model"] = model4
  cap4 = {}

  def mq4(pe, a, k):
    cap4["q_dict"] = a[1]
    return Mock("qmodel", {})
  pe4 = PE(repo, module_overrides={AQ: {
      "clone_model": lambda pe, a, k: model4, "model_quantize": mq4}})
  try:
    pe4.call_func(Func(fn, aq, [], "quantize_model", o4, c), [Hp().mock()],
                  {})
    got = sorted(cap4.get("q_dict") or {})
    want = ["conv1", "conv1_bn", "fc"]
    rep.check(got == want, "R3", unit, "name-pattern-selection",
              "with limits keyed by the name patterns 'conv1' and '^fc' the "
              "layers handed to model_quantize are %s, expected %s (a "
              "pattern selects names it matches from the start)" % (
                  got, want), loc=loc, observed=str(got))
  except PyRaise as e:
    rep.fail("R3", unit, "quantize_model-raises:name-patterns",
             "quantize_model raises %s with limits keyed by name patterns" %
             e, loc=loc)
  # R3 filter scaling: with tune_filters "layer" / "block" every quantized
  # Dense / Conv layer is rescaled by the chosen factor, except the layers
  # whose name the exception pattern matches anywhere (search semantics:
  # "_out$" protects fc_out) - those keep the reference architecture
  for mode in ("layer", "block"):
    _, _, o3 = hyper(repo, {"Dense": [4, 4, 4], "Conv2D": [4, 4, 4]},
                     tune_filters=mode, exceptions="_out$")
    ls = [mock_layer("Dense", "d0", units=16),
          mock_layer("Conv2D", "c1", filters=8),
          mock_layer("Dense", "fc_out", units=3),
          mock_layer("Conv2D", "conv_out", filters=5)]
    model3 = Mock("model", {"layers": ls})
    o3.attrs["model"] = model3
    pe3 = PE(repo, module_overrides={AQ: {
        "clone_model": lambda pe, a, k: model3,
        "model_quantize": lambda pe, a, k: Mock("qmodel", {})}})
    hp3 = Hp()
    try:
      pe3.call_func(Func(fn, aq, [], "quantize_model", o3, c), [hp3.mock()],
                    {})
    except PyRaise as e:
      rep.fail("R3", unit, "quantize_model-raises:tune_filters=" + mode,
               "quantize_model raises %s with tune_filters=%s" % (e, mode),
               loc=loc)
      continue
    got = {l.attrs["name"]: l.attrs["units" if l.attrs["__class__"].attrs[
        "__name__"] == "Dense" else "filters"] for l in ls}
    want = {"d0": 32, "c1": 16, "fc_out": 3, "conv_out": 5}
    rep.check(got == want, "R3", unit, "filter-scaling:" + mode,
              "tune_filters=%s with exception pattern '_out$' and factor 2.0 "
              "gives units/filters %s, expected %s (layers the pattern "
              "matches keep the reference architecture)" % (mode, got, want),
              loc=loc)
    names = [n_ for _, n_, _ in hp3.calls if str(n_).startswith(
        "network_filters")]
    want_n = ["network_filters_d0", "network_filters_c1"] \
        if mode == "layer" else ["network_filters"]
    rep.check(sorted(set(names)) == sorted(want_n), "R3", unit,
              "filter-hyperparameters:" + mode,
              "tune_filters=%s creates the filter hyper-parameters %s, "
              "expected %s" % (mode, sorted(set(names)), sorted(want_n)),
              loc=loc)
    # two consecutive trials of one hyper-model: every trial scales the
    # REFERENCE architecture (clone_model hands out a fresh copy per call,
    # as the real one does); neither the reference nor an earlier trial's
    # scaling carries over
    _, _, o5 = hyper(repo, {"Dense": [4, 4, 4], "Conv2D": [4, 4, 4]},
                     tune_filters=mode, exceptions="_out$")
    ref = Mock("model", {"layers": [mock_layer("Dense", "d0", units=16),
                                    mock_layer("Conv2D", "c1", filters=8)]})
    clones = []

    def fresh(pe, a, k, ref=ref, clones=clones):
      src = a[0] if a and isinstance(a[0], Mock) else ref
      cp = Mock("model", {"layers": [
          mock_layer(l.attrs["__class__"].attrs["__name__"],
                     l.attrs["name"], units=l.attrs["units"],
                     filters=l.attrs["filters"])
          for l in src.attrs["layers"]]})
      clones.append(cp)
      return cp
    o5.attrs["model"] = ref
    seen = []
    handed = []
    pe5 = PE(repo, module_overrides={AQ: {
        "clone_model": fresh,
        "model_quantize": lambda pe, a, k: (handed.append(a[0]),
                                            Mock("qmodel", {}))[1]}})
    try:
      for _ in range(2):
        pe5.call_func(Func(fn, aq, [], "quantize_model", o5, c),
                      [Hp().mock()], {})
        m_ = handed[-1] if handed else None
        seen.append({l.attrs["name"]: l.attrs["units" if l.attrs[
            "__class__"].attrs["__name__"] == "Dense" else "filters"]
                     for l in m_.attrs["layers"]} if isinstance(
                         m_, Mock) and "layers" in m_.attrs else None)
    except PyRaise as e:
      rep.fail("R3", unit, "second-trial-raises:tune_filters=" + mode,
               "a second quantize_model call raises %s" % e, loc=loc)
      continue
    want2 = {"d0": 32, "c1": 16}
    refnow = {l.attrs["name"]: l.attrs["units" if l.attrs["__class__"].attrs[
        "__name__"] == "Dense" else "filters"] for l in ref.attrs["layers"]}
    rep.check(seen == [want2, want2] and refnow == {"d0": 16, "c1": 8},
              "R3", unit, "filter-scaling-second-trial:" + mode,
              "tune_filters=%s, factor 2.0 in two consecutive trials: the "
              "models handed to model_quantize have units/filters %s, "
              "expected %s both times; the reference model now has %s" %
              (mode, seen, want2, refnow), loc=loc)
  # R5 key agreement with model_quantize
  rk = reader_keys(repo)
  if len(rk) < 8:
    raise AnalysisError("instance-count model_quantize class arms: %d" %
                        len(rk))
  rep.extra["model_quantize_reads"] = {k: sorted(v) for k, v in rk.items()}
  for lyr in layers:
    cname = lyr.attrs["__class__"].attrs["__name__"]
    ent = qd.get(lyr.attrs["name"])
    if not isinstance(ent, dict) or cname not in rk:
      continue
    for key in sorted(ent):
      rep.check(key in rk[cname], "R5", unit,
                "key-ignored-by-model_quantize:%s:%s" % (cname, key),
                "AutoQKeras writes %r for %s layers, model_quantize only "
                "reads %s for that class: the chosen quantizer is ignored" %
                (key, cname, sorted(rk[cname])), loc=loc)


def rule_forgiving(rep, repo):
  fm = repo.module(FFM)
  c = fm.classes.get("ForgivingFactor")
  if c is None or "delta" not in c.methods:
    raise AnalysisError("anchor-missing ForgivingFactor.delta")
  unit = "%s::ForgivingFactor.delta" % fm.relpath
  rep.unit(unit)
  loc = fm.loc(c.methods["delta"])
  o = Obj(c)
  for a, s in (("delta_p", "dp"), ("delta_n", "dn"), ("rate", "rate"),
               ("trial_size", "t"), ("reference_size", "R")):
    o.attrs[a] = Tensor(("sym", s), ())
  pe = PE(repo)
  r = pe.call_func(Func(c.methods["delta"], fm, [], "delta", o, c), [], {})
  fw = Fwd()
  nf = fw(r.term)
  at = nf.single_atom()
  ok = at is not None and at[0] == "app" and at[1] == "where"
  rep.check(ok, "R6", unit, "not-a-two-arm-selection",
            "delta() is %s, expected where(trial < ref, ., .)" % show(nf, 200),
            loc=loc)
  if not ok:
    return
  cond, a_true, a_false = at[3]
  ca = cond.single_atom()
  t, R = NF.sym("t"), NF.sym("R")
  smaller_is_true = None
  if ca is not None and ca[1] == "cmp":
    op, (l, rr) = ca[2][0], ca[3]
    if (l, rr) == (t, R) and op in ("lt", "le"):
      smaller_is_true = True
    elif (l, rr) == (R, t) and op in ("gt", "ge"):
      smaller_is_true = True
    elif (l, rr) == (t, R) and op in ("gt", "ge"):
      smaller_is_true = False
    elif (l, rr) == (R, t) and op in ("lt", "le"):
      smaller_is_true = False
  rep.check(smaller_is_true is not None, "R6", unit, "guard-shape",
            "the guard %s does not compare trial_size with reference_size" %
            show(cond), loc=loc)
  if smaller_is_true is None:
    return
  arm_small, arm_large = (a_true, a_false) if smaller_is_true else (a_false,
                                                                    a_true)
  # substitute t = R*u
  u = NF.x()
  for arm, coef, urange, sign_want, what in (
      (arm_small, "dp", (F(1, 1000), F(1)), 1, "smaller"),
      (arm_large, "dn", (F(1), F(1000)), -1, "larger")):
    rep.check(arm.depends_on(("sym", coef)) and not arm.depends_on(
        ("sym", "dn" if coef == "dp" else "dp")), "R6", unit,
              "wrong-coefficient:" + what,
              "the arm for %s trials is %s; it must be scaled by %s" %
              (what, show(arm, 160), "delta_p" if coef == "dp" else
               "delta_n"), loc=loc)
    at_ref = expand_logs(arm.subst({("sym", "t"): R}, simplify_app))
    rep.check(at_ref.is_zero(), "R6", unit, "nonzero-at-reference:" + what,
              "at trial == reference the %s-trial arm is %s, not 0" %
              (what, show(at_ref, 120)), loc=loc)
    # sizes, rate and the deltas are positive: log of a product is expanded
    sub = expand_logs(arm.subst({("sym", "t"): R * u}, simplify_app))
    env = Env(x=VS.real(urange[0], urange[1]), xsign=1,
              syms={"R": VS.real(F(1), None), "dp": VS.real(F(1, 1000), None),
                    "dn": VS.real(F(1, 1000), None),
                    "rate": VS.real(F(11, 10), None)})
    ev = Eval(env)
    p = pwa.polarity(sub, ev)
    rep.check(p == "-", "R6", unit, "not-decreasing:" + what,
              "the %s-trial arm %s is not decreasing in the trial size "
              "(polarity %s)" % (what, show(sub, 160), p), loc=loc)
    vs = ev.nf(sub)
    lo, hi = vs.bounds()
    okk = (lo is not None and lo >= 0) if sign_want > 0 else \
        (hi is not None and hi <= 0)
    rep.check(okk, "R6", unit, "wrong-sign:" + what,
              "for %s trials the bonus ranges over %r; it must be %s" %
              (what, vs, "non-negative" if sign_want > 0 else
               "non-positive"), loc=loc)


def rule_forgiving_constructor(rep, repo):
  """R6 (constructor side): ForgivingFactorBits built by its own constructors
  with symbolic options: delta_p / delta_n are percentages (stored / 100),
  rate, stress and the bit widths are stored under the names delta(),
  get_reference() and the size model read; delta() of the built object has
  the two-arm form in the object's own options."""
  fb = repo.module(FBM)
  ci = fb.classes.get("ForgivingFactorBits")
  if ci is None:
    raise AnalysisError("anchor-missing class ForgivingFactorBits")
  unit = "%s::ForgivingFactorBits.__init__" % fb.relpath
  rep.unit(unit)
  loc = ci.loc()
  fw = Fwd()

  def S(n):
    return Tensor(("sym", n), ())
  pe = PE(repo)
  try:
    o = pe.call(ClassRef(ci), [S("DP"), S("DN"), S("RATE")], {
        "stress": S("STRESS"), "input_bits": S("IB"), "output_bits": S("OB"),
        "ref_bits": S("RB"), "config": {"default": ["parameters"]}})
  except PyRaise as e:
    rep.fail("R6", unit, "constructor-raises", "raises %s" % e, loc=loc)
    return
  N = NF.sym
  want = {"delta_p": N("DP") * F(1, 100), "delta_n": N("DN") * F(1, 100),
          "rate": N("RATE"), "stress": N("STRESS"), "input_bits": N("IB"),
          "output_bits": N("OB"), "ref_bits": N("RB")}
  for a, w in sorted(want.items()):
    v = o.attrs.get(a)
    got = fw(pe.as_term(v)) if v is not None else None
    rep.check(got == w, "R6", unit, "option-stored-wrongly:" + a,
              "ForgivingFactorBits(delta_p=DP, delta_n=DN, rate=RATE, "
              "stress=STRESS, input_bits=IB, output_bits=OB, ref_bits=RB) "
              "stores %s = %s, expected %s" % (
                  a, show(got) if got is not None else None, show(w)),
              loc=loc, observed=show(got) if got is not None else "None")
  rep.check(o.attrs.get("config") == {"default": ["parameters"]}, "R6", unit,
            "option-stored-wrongly:config",
            "config is stored as %r" % (o.attrs.get("config"),), loc=loc)
  o.attrs["trial_size"] = S("t")
  o.attrs["reference_size"] = S("R")
  try:
    d = fw(pe.call(pe.getattr(o, "delta"), [], {}).term)
    rep.check(d.depends_on(("sym", "DP")) and d.depends_on(("sym", "DN"))
              and d.depends_on(("sym", "RATE")) and not d.depends_on(
                  ("sym", "STRESS")), "R6", unit, "delta-ignores-options",
              "delta() of the constructed object is %s" % show(d, 200),
              loc=loc)
  except PyRaise as e:
    rep.fail("R6", unit, "delta-raises", "raises %s" % e, loc=loc)


def rule_size(rep, repo):
  fb = repo.module(FBM)
  c = fb.classes.get("ForgivingFactorBits")
  if c is None:
    raise AnalysisError("anchor-missing ForgivingFactorBits")
  unit = "%s::ForgivingFactorBits" % fb.relpath
  rep.unit(unit)
  fw = Fwd()

  def S(n):
    return Tensor(("sym", n), ())
  o = Obj(c)
  o.attrs.update({"ref_bits": S("ref"), "input_bits": S("ib"),
                  "output_bits": S("ob")})
  w = [Mock("w", {"shape": (S("a"), S("b"))}), Mock("b", {"shape": (S("b"),)})]

  def layer(cname, quantizers=None, activation=None):
    attrs = {"__class__": Mock("class", {"__name__": cname}),
             "get_weights": lambda pe, a, k: list(w),
             "activation": activation,
             "output": Mock("out", {"shape": Mock("shape", {
                 "as_list": lambda pe, a, k: [None, S("o1"), S("o2")],
                 "__getitem__": None})})}
    if quantizers is not None:
      attrs["get_quantizers"] = lambda pe, a, k: list(quantizers)
    return Mock(cname, attrs)
  N = NF.sym
  cases = [
      ("Dense", layer("Dense"), N("ref") * (N("a") * N("b") + N("b"))),
      ("QDense", layer("QDense", [Mock("q", {"bits": S("kb")}), None]),
       N("kb") * N("a") * N("b") + N("ref") * N("b")),
      ("QConv2D", layer("QConv2D", [Mock("q", {"bits": S("kb")}),
                                    Mock("q", {"bits": S("bb")})]),
       N("kb") * N("a") * N("b") + N("bb") * N("b")),
  ]
  m = c.methods.get("_param_size")
  if m is None:
    raise AnalysisError("anchor-missing ForgivingFactorBits._param_size")
  for cname, lyr, want in cases:
    pe = PE(repo)
    try:
      r = pe.call_func(Func(m, fb, [], "_param_size", o, c), [lyr], {})
      got = fw(r.term) if isinstance(r, Tensor) else NF.const(F(r))
    except PyRaise as e:
      rep.fail("R7", unit + "._param_size", "raises:" + cname,
               "_param_size raises %s" % e, loc=fb.loc(m))
      continue
    rep.check(got == want, "R7", unit + "._param_size",
              "param-size:" + cname,
              "parameter size of a %s layer is %s, expected elements x bits "
              "of the paired quantizer (reference width where none): %s" %
              (cname, show(got), show(want)), loc=fb.loc(m))
    rep.sample({"size_model": cname, "parameters": show(got)})


def rule_act_size(rep, repo):
  """R7 (activations / totals): _act_size, compute_model_size and
  adjusted_score interpreted on stand-in layers with symbolic sizes."""
  from ..pe import ShapeV
  fb = repo.module(FBM)
  c = fb.classes["ForgivingFactorBits"]
  fw = Fwd()
  N = NF.sym

  def S(n):
    return Tensor(("sym", n), ())
  m = c.methods.get("_act_size")
  if m is None:
    raise AnalysisError("anchor-missing ForgivingFactorBits._act_size")
  unit = "%s::ForgivingFactorBits._act_size" % fb.relpath
  rep.unit(unit)
  loc = fb.loc(m)
  o = Obj(c)
  o.attrs.update({"ref_bits": S("ref"), "input_bits": S("ib"),
                  "output_bits": S("ob")})
  fnm = lambda name: Mock(name, {"__name__": name})
  qobj = Mock("quantized_relu object", {"bits": S("ab")})
  nobits = Mock("callable without bits", {})

  def layer(cname, activation):
    return Mock(cname, {
        "__class__": Mock("class", {"__name__": cname}),
        "activation": activation,
        "output": Mock("out", {"shape": ShapeV((None, S("o1"), S("o2")))})})
  out = N("o1") * N("o2")
  cases = [
      ("InputLayer", layer("InputLayer", None), N("ib") * out),
      ("Dense(relu)", layer("Dense", fnm("relu")), N("ref") * out),
      ("Dense(linear)", layer("Dense", fnm("linear")), NF.const(0)),
      ("Conv2D(no activation)", layer("Conv2D", None), NF.const(0)),
      ("QDense(quantizer object)", layer("QDense", qobj), N("ab") * out),
      ("QConv2D('softmax')", layer("QConv2D", "softmax"), N("ob") * out),
      ("QDense('linear')", layer("QDense", "linear"), NF.const(0)),
      ("QDense(linear function)", layer("QDense", fnm("linear")),
       NF.const(0)),
      ("QDense(no activation)", layer("QDense", None), NF.const(0)),
      ("QDense(callable without bits)", layer("QDense", nobits),
       N("ref") * out),
      ("QActivation(quantizer object)", layer("QActivation", Mock(
          "q", {"bits": S("ab"), "__name__": "quantized_relu"})),
       N("ab") * out),
      ("QActivation('quantized_relu(4)')",
       layer("QActivation", "quantized_relu(4)"), 4 * out),
      ("Activation('softmax')", layer("Activation", "softmax"),
       N("ob") * out),
      ("Activation('sigmoid')", layer("Activation", "sigmoid"),
       N("ob") * out),
      ("Activation('linear')", layer("Activation", "linear"), NF.const(0)),
      # quantizers / activations whose NAME merely contains "sigmoid",
      # "softmax" or "linear": the applied quantizer's bits count
      ("QActivation('quantized_sigmoid(4)')",
       layer("QActivation", "quantized_sigmoid(4)"), 4 * out),
      ("QActivation('quantized_sigmoid(2)')",
       layer("QActivation", "quantized_sigmoid(2)"), 2 * out),
      ("QActivation(quantized_sigmoid object)", layer("QActivation", Mock(
          "q", {"bits": S("ab"), "__name__": "quantized_sigmoid"})),
       N("ab") * out),
      ("QActivation('quantized_tanh(3)')",
       layer("QActivation", "quantized_tanh(3)"), 3 * out),
      ("QActivation('quantized_linear(5,1)')",
       layer("QActivation", "quantized_linear(5,1)"), 5 * out),
      ("Activation(hard_sigmoid function)",
       layer("Activation", fnm("hard_sigmoid")), N("ref") * out),
      ("QDense(quantized_sigmoid object)", layer("QDense", Mock(
          "q", {"bits": S("ab"), "__name__": "quantized_sigmoid"})),
       N("ab") * out),
      ("MaxPooling2D", layer("MaxPooling2D", None), NF.const(0)),
  ]
  for label, lyr, want in cases:
    pe = PE(repo)
    pe.opaque_ext = True
    try:
      r = pe.call_func(Func(m, fb, [], "_act_size", o, c), [lyr], {})
      got = fw(r.term) if isinstance(r, Tensor) else NF.const(F(r))
    except PyRaise as e:
      rep.fail("R7", unit, "act-size-raises:" + label,
               "_act_size raises %s for %s" % (e, label), loc=loc)
      continue
    rep.check(got == want, "R7", unit, "act-size:" + label,
              "activation size of %s is %s, expected output elements x bits "
              "of the applied activation quantizer (reference / input / "
              "output width as documented): %s" % (label, show(got),
                                                    show(want)), loc=loc)
    # the size model counts the elements of ONE sample: a reference model
    # built with a fixed batch size gives the same number
    lyr_b = Mock(lyr.name, dict(lyr.attrs, output=Mock("out", {
        "shape": ShapeV((4, S("o1"), S("o2")))})))
    pe = PE(repo)
    pe.opaque_ext = True
    try:
      rb = pe.call_func(Func(m, fb, [], "_act_size", o, c), [lyr_b], {})
      got_b = fw(rb.term) if isinstance(rb, Tensor) else NF.const(F(rb))
    except PyRaise as e:
      got_b = None
      rep.fail("R7", unit, "act-size-raises:" + label,
               "_act_size raises %s for %s in a model with batch size 4" %
               (e, label), loc=loc)
    if got_b is not None:
      rep.check(got_b == got, "R7", unit,
                "act-size-depends-on-batch",
                "activation size of %s is %s in a model built with batch "
                "size 4 and %s with an unspecified batch size" %
                (label, show(got_b), show(got)), loc=loc, instance=label)
  # compute_model_size: totals are the selected parts
  cm = c.methods.get("compute_model_size")
  unit2 = "%s::ForgivingFactorBits.compute_model_size" % fb.relpath
  rep.unit(unit2)
  if cm is None:
    raise AnalysisError("anchor-missing compute_model_size")
  o2 = Obj(c)
  o2.attrs.update({"config": {"QDense": ["parameters", "activations"],
                              "QActivation": ["activations"],
                              "default": ["parameters"]}})
  o2.attrs["_param_size"] = lambda pe, a, k: S("p_" + a[0].attrs["name"])
  o2.attrs["_act_size"] = lambda pe, a, k: S("a_" + a[0].attrs["name"])
  L = lambda cn, nm: Mock(nm, {"name": nm, "__class__": Mock(
      "class", {"__name__": cn})})
  model = Mock("model", {"layers": [L("QDense", "d"), L("QActivation", "q"),
                                    L("Flatten", "f")]})
  pe = PE(repo)
  try:
    r = pe.call_func(Func(cm, fb, [], "compute_model_size", o2, c), [model],
                     {})
    g = lambda v: fw(v.term) if isinstance(v, Tensor) else NF.const(F(v))
    tot, ps, as_ = g(r[0]), g(r[1]), g(r[2])
    wp = N("p_d") + N("p_f")
    wa = N("a_d") + N("a_q")
    rep.check(ps == wp and as_ == wa and tot == wp + wa, "R7", unit2,
              "model-size-totals",
              "compute_model_size returns total=%s parameters=%s "
              "activations=%s; expected the parts selected by the "
              "configuration: %s / %s" % (show(tot), show(ps), show(as_),
                                          show(wp), show(wa)),
              loc=fb.loc(cm))
    d = r[3]
    okd = isinstance(d, dict) and set(d) == {"d", "q", "f"} and \
        g(d["d"]["total"]) == N("p_d") + N("a_d") and \
        g(d["q"]["total"]) == N("a_q") and g(d["f"]["total"]) == N("p_f")
    rep.check(okd, "R7", unit2, "per-layer-totals",
              "per-layer totals are not parameters/activations selected by "
              "the configuration: %s" % (sorted(d) if isinstance(d, dict)
                                         else d), loc=fb.loc(cm))
  except PyRaise as e:
    rep.fail("R7", unit2, "model-size-raises", "raises %s" % e,
             loc=fb.loc(cm))
  # a class the configuration EXCLUDES with an empty entry contributes
  # nothing (it does not fall back to the default entry)
  o3 = Obj(c)
  o3.attrs.update({"config": {"QActivation": [], "Flatten": (),
                              "default": ["parameters", "activations"]}})
  o3.attrs["_param_size"] = lambda pe, a, k: S("p_" + a[0].attrs["name"])
  o3.attrs["_act_size"] = lambda pe, a, k: S("a_" + a[0].attrs["name"])
  pe = PE(repo)
  try:
    r = pe.call_func(Func(cm, fb, [], "compute_model_size", o3, c), [model],
                     {})
    tot = fw(r[0].term) if isinstance(r[0], Tensor) else NF.const(F(r[0]))
    rep.check(tot == N("p_d") + N("a_d"), "R7", unit2,
              "excluded-class-counted",
              "with the configuration {'QActivation': [], 'Flatten': (), "
              "'default': ['parameters', 'activations']} the model size is "
              "%s; expected the QDense layer only: %s" % (
                  show(tot), show(N("p_d") + N("a_d"))), loc=fb.loc(cm))
  except PyRaise as e:
    rep.fail("R7", unit2, "model-size-raises", "with an empty class entry: "
             "raises %s" % e, loc=fb.loc(cm))
  # adjusted_score = metric * (1 + delta)
  aq = repo.module(AQ)
  hm = aq.classes["AutoQKHyperModel"]
  am = hm.methods.get("adjusted_score")
  unit3 = "%s::AutoQKHyperModel.adjusted_score" % aq.relpath
  rep.unit(unit3)
  if am is None:
    raise AnalysisError("anchor-missing AutoQKHyperModel.adjusted_score")
  pe = PE(repo)
  pe.opaque_ext = True
  try:
    sc = pe.call_func(Func(am, aq, [], "adjusted_score", None, hm),
                      [None, S("delta"),
                       lambda pe, a, k: S("metric")], {})
    yt = Mock("y_true", {"shape": ShapeV((None, 10))})
    yp = Mock("y_pred", {"shape": ShapeV((None, 10))})
    r = pe.call(sc, [yt, yp], {})
    got = fw(r.term)
    want = N("metric") * (1 + N("delta"))
    rep.check(got == want, "R7", unit3, "score!=metric*(1+delta)",
              "the trial score is %s, expected metric*(1+delta)" %
              show(got), loc=aq.loc(am))
  except PyRaise as e:
    rep.fail("R7", unit3, "score-raises", "raises %s" % e, loc=aq.loc(am))


def _snapshot_metrics(m):
  if isinstance(m, dict):
    return {k: (list(v) if isinstance(v, list) else v) for k, v in m.items()}
  return list(m) if isinstance(m, list) else m


def rule_build_sequence(rep, repo):
  """R10: AutoQKHyperModel.build interpreted for two consecutive trials on
  one hyper-model (own __init__; quantize_model, the forgiving-factor target
  and the Keras model are stand-ins).  The target is one object shared by all
  trials and remembers only the trial it was shown last, so the bonus in a
  trial's score, and the size its trial-size metric reports, must be the ones
  computed when THAT trial was built: the score kept for / compiled into
  trial A is metric x (1 + bonus of A) also after trial B has been built."""
  from ..pe import ShapeV
  aq, c, o = hyper(repo, {"Dense": [8, 8, 8]})
  bm = c.methods.get("build")
  if bm is None:
    raise AnalysisError("anchor-missing AutoQKHyperModel.build")
  unit = "%s::AutoQKHyperModel.build" % aq.relpath
  rep.unit(unit)
  loc = aq.loc(bm)
  fw = Fwd()
  N = NF.sym

  def S(n):
    return Tensor(("sym", n), ())
  for metrics_label, metrics in (
      ("metric function", [lambda pe, a, k: S("metric")]),
      ("metrics by head", {"head": [lambda pe, a, k: S("metric")]})):
    compiled = {}
    state = {"shown": None}

    def qmodel(tag):
      return Mock("q_model_" + tag, {
          "tag": tag, "summary": lambda pe, a, k: None,
          "compile": lambda pe, a, k, tag=tag: compiled.__setitem__(
              tag, _snapshot_metrics(k.get("metrics"))),
          "get_layer": lambda pe, a, k: Mock("layer", {})})
    models = [qmodel("A"), qmodel("B")]
    queue = list(models)
    target = Mock("target", {
        "get_reference": lambda pe, a, k: S("size_ref"),
        "get_trial": lambda pe, a, k: (state.__setitem__(
            "shown", a[0].attrs["tag"]), S("size_" + a[0].attrs["tag"]))[1],
        "delta": lambda pe, a, k: S("bonus_" + str(state["shown"])),
        "get_total_factor": lambda pe, a, k: F(0),
        "print_stats": lambda pe, a, k: None})
    lr = Mock("lr", {"numpy": lambda pe, a, k: F(1, 100)})
    model = Mock("model", {"optimizer": Mock("optimizer", {
        "lr": lr, "learning_rate": lr}), "loss": "mse"})
    pe = PE(repo, module_overrides={AQ: {
        "print_qmodel_summary": lambda pe_, a, k: None}})
    pe.opaque_ext = True
    o.attrs.update({
        "target": target, "model": model, "metrics": metrics,
        "head_name": None, "learning_rate_optimizer": False,
        "frozen_layers": [], "extend_model_metrics": True,
        "quantize_model": lambda pe_, a, k: (queue.pop(0), None)})
    cfg = "build(trial A) then build(trial B), %s" % metrics_label
    given = _snapshot_metrics(metrics)
    try:
      scores = []
      for _ in range(2):
        pe.call(pe.getattr(o, "build"), [Mock("hp", {})], {})
        scores.append(o.attrs.get("score"))
      # the caller's metrics are not extended in place, and every trial is
      # compiled with the caller's metrics plus its own two
      def count(mm):
        if isinstance(mm, dict):
          return {k_: len(v_) if isinstance(v_, list) else 1
                  for k_, v_ in mm.items()}
        return len(mm) if isinstance(mm, list) else 1
      rep.check(count(_snapshot_metrics(metrics)) == count(given) and
                count(compiled.get("A")) == count(compiled.get("B")), "R10",
                unit, "metrics-accumulate-over-trials",
                "%s: the caller's metrics had %s entries and have %s after "
                "two builds; trial A was compiled with %s, trial B with %s" %
                (cfg, count(given), count(_snapshot_metrics(metrics)),
                 count(compiled.get("A")), count(compiled.get("B"))),
                loc=loc, instance=cfg)
      yt = Mock("y_true", {"shape": ShapeV((None, 10))})
      yp = Mock("y_pred", {"shape": ShapeV((None, 10))})
      for tag, sc in zip("AB", scores):
        want = N("metric") * (1 + N("bonus_" + tag))
        got = fw(pe.call(sc, [yt, yp], {}).term)
        rep.check(got == want, "R10", unit, "score-of-another-trial",
                  "%s: the score kept for trial %s evaluates to %s after "
                  "both builds, expected %s" % (cfg, tag, show(got),
                                                show(want)), loc=loc,
                  instance="%s/score of %s" % (cfg, tag),
                  observed=show(got))
        mets = compiled.get(tag)
        if isinstance(mets, dict):
          mets = mets.get("head")
        fns = [m for m in (mets or []) if isinstance(m, Func)]
        vals = []
        for m in fns:
          r = pe.call(m, [yt, yp], {})
          vals.append(fw(pe.as_term(r)))
        rep.check(want in vals and N("size_" + tag) in vals, "R10", unit,
                  "compiled-metrics-of-another-trial",
                  "%s: the metrics compiled into trial %s evaluate to %s; "
                  "expected its own score %s and size %s among them" % (
                      cfg, tag, [show(v) for v in vals], show(want),
                      "size_" + tag), loc=loc,
                  instance="%s/compiled metrics of %s" % (cfg, tag),
                  observed=str(sorted(show(v) for v in vals)))
    except PyRaise as e:
      rep.fail("R10", unit, "build-raises", "%s raises %s" % (cfg, e),
               loc=loc, instance=cfg)


def rule_default_table(rep, repo):
  """R11: the shipped quantization configuration.  `_get_quantizer` filters
  the candidates of a limit by the width DECLARED in the table, so each
  declared width has to be the width of the quantizer its text builds
  (interpreted `get_quantizer`): `bits` of a parametrised quantizer, 1 for
  the binary family, 2 for the ternary family."""
  qcm = repo.module("qkeras.autoqkeras.quantization_config")
  qm = repo.module("qkeras.quantizers")
  unit = "%s::default_quantization_config" % qcm.relpath
  rep.unit(unit)
  pe = PE(repo)
  try:
    table = pe.lookup_global("default_quantization_config", qcm)
  except Exception as e:  # pylint: disable=broad-except
    raise AnalysisError("anchor-missing default_quantization_config (%s)" %
                        e)
  if not isinstance(table, dict) or not table:
    raise AnalysisError("anchor-missing default_quantization_config is %r" %
                        (table,))
  n = 0
  for role, entries in sorted(table.items()):
    rep.check(isinstance(entries, dict) and bool(entries), "R11", unit,
              "table-shape:" + str(role), "entry %r is %r" % (role, entries))
    if not isinstance(entries, dict):
      continue
    for text, declared in sorted(entries.items()):
      inst = "%s[%r]" % (role, text)
      try:
        q = pe.call(pe.lookup_global("get_quantizer", qm), [text], {})
      except PyRaise as e:
        rep.fail("R11", unit, "entry-does-not-parse",
                 "%s: get_quantizer raises %s" % (inst, e), instance=inst)
        continue
      width = None
      if isinstance(q, Obj) and "bits" in q.attrs:
        width = q.attrs["bits"]
      else:
        base = text.split("(")[0]
        if base in ("binary", "stochastic_binary", "bernoulli"):
          width = 1
        elif base in ("ternary", "stochastic_ternary"):
          width = 2
      n += 1
      rep.check(width is not None and F(declared) == F(width), "R11", unit,
                "declared-width!=quantizer-width",
                "%s is declared as %r bits, the quantizer it builds has %r"
                % (inst, declared, width), instance=inst,
                observed="%r/%r" % (declared, width))
  if n < 20:
    raise AnalysisError("instance-count only %d table entries" % n)


def rule_adjust_limit(rep, repo):
  """R1 (limit completion): a short per-class limit list is completed from
  the default limit role by role - kernel, bias, [recurrent kernel for
  sequence layers,] activation - so the activation slot (the last one, which
  _get_quantizer reads at index -1) gets the default ACTIVATION limit."""
  aq = repo.module(AQ)
  c = aq.classes["AutoQKHyperModel"]
  unit = "%s::AutoQKHyperModel._adjust_limit" % aq.relpath
  rep.unit(unit)
  m = c.methods.get("_adjust_limit")
  loc = aq.loc(m) if m is not None else None
  seqs = aq.assigns.get("SEQUENCE_LAYERS")
  cases = [
      # default, given limits, expected after completion
      (8, {"Dense": [4], "Conv2D": [4, 3], "LSTM": [4, 3, 2, 1]}, None),
      ([8, 7, 5], {"Dense": [4], "Conv2D": [4, 3], "Dense2": None}, None),
      ([8, 7, 16, 5], {"Dense": [4], "Conv2D": [4, 3], "LSTM": [4],
                       "GRU": [4, 3, 2]}, None),
  ]
  for default, given, _ in cases:
    limit = {k: list(v) for k, v in given.items() if v is not None}
    limit["default"] = default
    try:
      _, _, o = hyper(repo, limit)
    except AnalysisError as e:
      rep.fail("R1", unit, "adjust-limit-raises", "default=%r limits=%r: %s"
               % (default, given, e), loc=loc)
      continue
    got = o.attrs.get("limit", {})
    dl = default if isinstance(default, list) else [default] * 3
    for cls, lst in sorted(given.items()):
      if lst is None:
        continue
      is_seq = cls in ("SimpleRNN", "LSTM", "GRU", "Bidirectional")
      want = list(lst)
      if is_seq:
        if len(want) < 4:
          if len(dl) == 4:
            want = want + dl[len(want):]
          else:
            continue   # the constructor asserts a 4-element default
      elif len(want) < 3:
        roles = [dl[0], dl[1], dl[-1]]     # kernel, bias, activation
        want = want + roles[len(want):]
      cfg = "default=%r,%s=%r" % (default, cls, lst)
      rep.check(got.get(cls) == want, "R1", unit, "limit-completion",
                "%s: the completed limit is %r, expected %r (kernel, bias, "
                "%sactivation from the default)" % (
                    cfg, got.get(cls), want,
                    "recurrent kernel, " if is_seq else ""), loc=loc,
                instance=cfg)


def rule_reference_cache(rep, repo):
  """R9: ForgivingFactorBits.get_reference caches the reference in the
  attribute that ForgivingFactor.delta() reads.  With a symbolic stress
  factor and model size: the value handed to the caller, the value returned
  by a second (cached) call and the attribute delta() compares against are
  all stress x size; get_trial stores the un-stressed trial size that
  delta() reads."""
  fb = repo.module(FBM)
  ci = fb.classes.get("ForgivingFactorBits")
  if ci is None or "get_reference" not in ci.methods:
    raise AnalysisError("anchor-missing ForgivingFactorBits.get_reference")
  unit = "%s::ForgivingFactorBits.get_reference" % fb.relpath
  rep.unit(unit)
  loc = fb.loc(ci.methods["get_reference"])
  fw = Fwd()
  o = Obj(ci)
  o.attrs["stress"] = Tensor(("sym", "stress"), ())
  sizes = {"ref": Tensor(("sym", "Sref"), ()),
           "trial": Tensor(("sym", "Strial"), ())}
  o.attrs["compute_model_size"] = lambda pe, a, k: (
      sizes[a[0]], Tensor(("sym", "P_" + a[0]), ()),
      Tensor(("sym", "A_" + a[0]), ()), {"which": a[0]})
  pe = PE(repo)
  try:
    r1 = pe.call(pe.getattr(o, "get_reference"), ["ref"], {})
    attr1 = o.attrs.get("reference_size")
    r2 = pe.call(pe.getattr(o, "get_reference"), ["trial"], {})
    t1 = pe.call(pe.getattr(o, "get_trial"), ["trial"], {})
  except PyRaise as e:
    rep.fail("R9", unit, "reference-raises", "raises %s" % e, loc=loc)
    return
  want = NF.sym("stress") * NF.sym("Sref")

  def nf(v):
    return fw(pe.as_term(v)) if v is not None else None
  rep.check(nf(r1) == want, "R9", unit, "reference-not-stressed-size",
            "get_reference returns %s, documented stress x model size" %
            show(nf(r1)), loc=loc, observed=show(nf(r1)))
  rep.check(nf(attr1) == want, "R9", unit,
            "cached-reference-differs-from-returned-one",
            "get_reference returns %s but stores %s in reference_size, "
            "which delta() compares the trial with" % (
                show(nf(r1)), show(nf(attr1)) if attr1 is not None else
                None), loc=loc, observed=str(attr1 is not None and show(
                    nf(attr1))))
  rep.check(nf(r2) == want, "R9", unit, "second-call-differs",
            "a second get_reference (another model) returns %s; the "
            "reference is computed once: %s" % (show(nf(r2)), show(want)),
            loc=loc)
  rep.check(nf(t1) == NF.sym("Strial") and nf(o.attrs.get("trial_size"))
            == NF.sym("Strial"), "R9", unit, "trial-size",
            "get_trial returns %s and stores %s" % (
                show(nf(t1)), o.attrs.get("trial_size")), loc=loc)
  rep.check(o.attrs.get("reference_size_dict") == {"which": "ref"} and
            nf(o.attrs.get("ref_p")) == NF.sym("P_ref") and
            nf(o.attrs.get("ref_a")) == NF.sym("A_ref"), "R9", unit,
            "reference-statistics",
            "reference statistics after two calls: %r" % (
                o.attrs.get("reference_size_dict"),), loc=loc)


def rule_scheduler_limit(rep, repo):
  """R8: AutoQKerasScheduler.get_limit builds the limit dictionary of the
  hyper-model that searches one block.  Interpreted on synthetic blocks: a
  layer enters the block limit only through its own class entry (under its
  own name) or through a name pattern (patterns merged into one exact
  '^(a|b)$' entry); a layer covered by neither stays out, wherever it stands
  in the block - the hyper-model quantizes every layer it finds a limit
  for."""
  aq = repo.module(AQ)
  ci = aq.classes.get("AutoQKerasScheduler")
  if ci is None or "get_limit" not in ci.methods:
    raise AnalysisError("anchor-missing AutoQKerasScheduler.get_limit")
  unit = "%s::AutoQKerasScheduler.get_limit" % aq.relpath
  rep.unit(unit)
  loc = aq.loc(ci.methods["get_limit"])

  def L(cls, name):
    return Mock(name, {"name": name,
                       "__class__": Mock("class", {"__name__": cls})})
  limit = {"Dense": [4, 4, 4], "^c.*": [2, 2, 2], "QActivation": [8]}
  layers = {n: L(c, n) for c, n in (
      ("Dense", "d0"), ("Activation", "a0"), ("Conv2D", "c0"),
      ("Flatten", "f0"), ("Conv2D", "c1"), ("Dense", "d1"),
      ("BatchNormalization", "b0"), ("QActivation", "q0"))}
  blocks = {
      "covered then uncovered": (["d0", "a0"], {"d0": [4, 4, 4]}),
      "uncovered first": (["a0", "d0", "b0"], {"d0": [4, 4, 4]}),
      "pattern, uncovered, class": (
          ["c0", "f0", "d1", "a0"], {"^(c0)$": [2, 2, 2],
                                      "d1": [4, 4, 4]}),
      "two pattern members around an uncovered layer": (
          ["c0", "b0", "c1", "q0", "a0"], {"^(c0|c1)$": [2, 2, 2],
                                            "q0": [8]}),
      "nothing covered": (["a0", "f0", "b0"], {}),
  }
  for bname, (names, want) in sorted(blocks.items()):
    o = Obj(ci)
    o.attrs.update({"limit": {k: list(v) for k, v in limit.items()},
                    "grouped_patterns": {"P": list(names)}})
    model = Mock("model", {"get_layer": lambda pe, a, k: layers[a[0]]})
    pe = PE(repo)
    pe.opaque_ext = True
    cfg = "block %s: %s" % (bname, "/".join(names))
    try:
      got = pe.call(pe.getattr(o, "get_limit"), [model, "P"], {})
    except PyRaise as e:
      rep.fail("R8", unit, "get_limit-raises", "%s raises %s" % (cfg, e),
               loc=loc, instance=cfg)
      continue
    got = {k: list(v) if isinstance(v, (list, tuple)) else v
           for k, v in dict(got).items()} if isinstance(got, dict) else got
    rep.check(got == want, "R8", unit, "block-limit",
              "%s: the block limit is %r, expected %r (limit %r)" % (
                  cfg, got, want, limit), loc=loc, instance=cfg,
              observed=str(got))
    rep.check(o.attrs["limit"] == limit, "R8", unit, "user-limit-modified",
              "%s: the user's limit dictionary became %r" % (
                  cfg, o.attrs["limit"]), loc=loc, instance=cfg)


def run(rep, repo, tier):
  rep.trusted.append("keras-tuner's hp.Choice / hp.Fixed return one of the "
                     "offered values; re.match semantics")
  rep.assumptions.append("the set of hyper-parameter assignments the tuner "
                         "can reach and architecture equality up to filter "
                         "scaling are not decided")
  rule_get_quantizer(rep, repo)
  rule_adjust_limit(rep, repo)
  rule_quantize_model(rep, repo)
  rule_forgiving(rep, repo)
  rule_forgiving_constructor(rep, repo)
  rule_size(rep, repo)
  rule_act_size(rep, repo)
  rule_scheduler_limit(rep, repo)
  rep.require_instances("R8", 10)
  rule_reference_cache(rep, repo)
  rep.require_instances("R9", 5)
  rule_build_sequence(rep, repo)
  rep.require_instances("R10", 8)
  rule_default_table(rep, repo)
  rep.require_instances("R11", 20)
  rep.require_instances("R1", 8)
  rep.require_instances("R2", 18)
  rep.require_instances("R3", 4)
  rep.require_instances("R4", 3)
  rep.require_instances("R5", 6)
  rep.require_instances("R6", 8)
  rep.require_instances("R7", 20)
