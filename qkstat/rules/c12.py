"""C12 - model_quantize converts exactly what the configuration names.

utils.model_quantize works on the JSON dictionary of the model, so the whole
rewriting loop is partially evaluated on synthetic model dictionaries whose
quantizer strings are distinct tags (one per layer / role / source of the
entry); Keras (de)serialisation is stubbed.  The resulting dictionary is then
compared with what the property demands.

R1 key agreement: every key a rewriting branch adds to a layer config is a
   named constructor parameter of the Q class the layer is turned into.
R2 precedence: a layer-name entry wins over the class entry.
R3 biasless layers get bias_quantizer None.
R4 layers not selected by the dictionary are left exactly as they were
   (class, config, registered_name).
R5 the caller's quantizer dictionary and custom_objects are not modified;
   the source model receives no mutating call.
R6 every selected layer converts without raising (LeakyReLU / ReLU arms).
R7 expected quantizers: each selected layer carries the configured kernel /
   bias / recurrent / activation strings (activation_bits fallback for
   relu/tanh/sigmoid).
R8 weight transfer copies get_weights() of every source layer into the
   layer at the same position of the new model.
"""
import ast
import copy as _copy

from ..loader import AnalysisError
from ..pe import PE, Mock, PyRaise, Func, Obj, Tensor, Unsupported
from ..nf import show

TECHNIQUE = ("Partial evaluation of model_quantize on synthetic JSON model "
             "dictionaries with tagged quantizer strings (Keras "
             "(de)serialisation stubbed); comparison of the rewritten "
             "dictionary with the specification; class-model lookup of "
             "constructor parameters.")

UM = "qkeras.utils"


def L(cls, name, **cfg):
  c = {"name": name}
  c.update(cfg)
  return {"class_name": cls, "name": name, "config": c,
          "inbound_nodes": [], "registered_name": None}


def base_layers():
  rnn = dict(use_bias=True, activation="tanh",
             recurrent_activation="sigmoid", units=4)
  return [
      L("InputLayer", "in"),
      L("Dense", "d1", use_bias=True, activation="relu", units=8),
      L("Dense", "d2", use_bias=False, activation="linear", units=8),
      L("Dense", "d_unselected", use_bias=True, activation="relu", units=8),
      L("Dense", "d_optout", use_bias=True, activation="relu", units=8),
      L("Activation", "act_optout", activation="relu"),
      L("Conv2D", "c1", use_bias=True, activation="tanh", filters=4),
      L("Conv1D", "c1d", use_bias=True, activation="sigmoid", filters=4),
      L("Conv2DTranspose", "ct", use_bias=True, activation=None, filters=4),
      L("DepthwiseConv2D", "dw", use_bias=True, activation="relu"),
      L("SeparableConv2D", "sep", use_bias=True, activation="relu",
        filters=4),
      L("SeparableConv1D", "sep1d", use_bias=True, activation="relu",
        filters=4),
      L("SimpleRNN", "rnn", **rnn),
      L("LSTM", "lstm", **rnn),
      L("GRU", "gru", **rnn),
      L("Activation", "act", activation="relu"),
      L("Activation", "act_softmax", activation="softmax"),
      L("BatchNormalization", "bn", axis=-1),
      L("AveragePooling2D", "ap", pool_size=(2, 2)),
      L("GlobalAveragePooling2D", "gap"),
      # a second layer served by the same class entry
      L("AveragePooling2D", "ap2", pool_size=(3, 3)),
      L("GlobalAveragePooling2D", "gap2"),
      L("Flatten", "flat"),
      dict(L("MyLayer", "custom"), registered_name="Custom>MyLayer"),
      L("ReLU", "relu6", max_value=6.0, negative_slope=0.0, threshold=0.0),
      L("LeakyReLU", "leaky", alpha=0.25),
      # every spelling of the slope: Keras ReLU stores it as negative_slope,
      # the legacy relu layer and LeakyReLU as alpha
      L("ReLU", "relu_leaky", max_value=None, negative_slope=0.25,
        threshold=0.0),
      L("relu", "relu_legacy", max_value=None, alpha=0.0, threshold=0.0),
      L("relu", "relu_legacy_leaky", max_value=None, alpha=0.125,
        threshold=0.0),
      L("LeakyReLU", "leaky_zero_slope", alpha=0.0),
  ]


def qcfg():
  def kb(tag, *extra):
    d = {"kernel_quantizer": "K_" + tag, "bias_quantizer": "B_" + tag}
    for e in extra:
      d[e] = e.upper() + "_" + tag
    return d
  return {
      "d1": kb("d1_name"),
      "QDense": kb("QDense_class"),
      "QConv2D": kb("QConv2D", "activation_quantizer"),
      "QConv1D": kb("QConv1D"),
      "QConv2DTranspose": kb("QConv2DTranspose"),
      "QDepthwiseConv2D": {"depthwise_quantizer": "DW_q",
                           "bias_quantizer": "B_dw",
                           "activation_quantizer": "ACT_dw"},
      "QSeparableConv2D": {"depthwise_quantizer": "DW_sep",
                           "pointwise_quantizer": "PW_sep",
                           "bias_quantizer": "B_sep"},
      "QSimpleRNN": kb("rnn", "recurrent_quantizer", "state_quantizer"),
      "QLSTM": kb("lstm", "recurrent_quantizer", "state_quantizer",
                  "recurrent_activation_quantizer"),
      "QGRU": kb("gru", "recurrent_quantizer"),
      "QSeparableConv1D": kb("sep1d"),
      "QActivation": {"relu": "ACT_relu", "leakyrelu": "ACT_leaky"},
      "QBatchNormalization": {"gamma_quantizer": "G_bn",
                              "beta_quantizer": "BE_bn"},
      "QAveragePooling2D": {"average_quantizer": "AVG_ap",
                            "activation_quantizer": "ACT_ap"},
      "QGlobalAveragePooling2D": {"average_quantizer": "AVG_gap",
                                  "activation_quantizer": "ACT_gap"},
      # a name entry that is present but empty opts the layer out although a
      # class entry exists (name entries take precedence)
      "d_unselected": None,
      "d_optout": {},
      "act_optout": {},
  }


def run_mq(repo, layers, qconfig, activation_bits=4, fold=None,
           transfer=False, src_layers=None, q_layers=None, **mq_kwargs):
  um = repo.module(UM)
  if "model_quantize" not in um.functions:
    raise AnalysisError("anchor-missing function utils.model_quantize")
  jm = {"class_name": "Functional", "config": {"name": "m",
                                               "layers": layers}}
  calls = []
  model = Mock("model", {
      "to_json": lambda pe, a, k: Mock("json", {"obj": jm}),
      "layers": src_layers or [],
      "set_weights": lambda pe, a, k: calls.append("model.set_weights"),
  })
  captured = {}

  def qmfj(pe, a, k):
    captured["jm"] = a[0].attrs["obj"] if isinstance(a[0], Mock) else a[0]
    captured["custom_objects"] = a[1] if len(a) > 1 else k.get(
        "custom_objects")
    return Mock("qmodel", {"layers": q_layers or []})

  def ctf(pe, a, k):
    return (model, list(fold or []))
  # the library's own loader runs (it registers the library classes in the
  # dictionary it is given); only Keras' model_from_json is a stand-in
  pe = PE(repo, module_overrides={UM: {"model_from_json": qmfj,
                                       "convert_to_folded_model": ctf}})
  pe.opaque_ext = True
  f = pe.lookup_global("model_quantize", um)
  custom = {"user": "object"}
  kwargs = {"custom_objects": custom, "transfer_weights": transfer,
            "enable_bn_folding": bool(fold)}
  kwargs.update(mq_kwargs)
  pe.call(f, [model, qconfig, activation_bits], kwargs)
  return captured.get("jm"), custom, calls


def norm(layer):
  """JSON-equivalent normal form: a null registered_name is the same as an
  absent one."""
  d = dict(layer)
  if d.get("registered_name", None) is None:
    d.pop("registered_name", None)
  return d


def by_name(jm):
  return {l["config"]["name"]: l for l in jm["config"]["layers"]}


def q_class(repo, name):
  for c in repo.classes.values():
    if c.name == name and c.module.name.startswith("qkeras.q"):
      return c
  return None


ACTIVATION_NAMES = {
    # the three fused activations with a quantized counterpart
    "relu": "quantized_relu(%d)", "tanh": "quantized_tanh(%d)",
    "sigmoid": "quantized_sigmoid(%d)",
    # everything else is a hyper-parameter that is carried over unchanged
    "linear": None, "softmax": None, "elu": None, "selu": None,
    "softplus": None, "softsign": None, "swish": None, "silu": None,
    "gelu": None, "exponential": None, "mish": None, "relu6": None,
    "leaky_relu": None, "hard_sigmoid": None, "hard_silu": None,
    "hard_swish": None, "hard_tanh": None, "log_sigmoid": None,
    "log_softmax": None, "sparse_sigmoid": None, "tanh_shrink": None,
    "celu": None, "glu": None, "squareplus": None, "threshold": None,
}


def rule_activation_names(rep, repo):
  """R8: utils.quantize_activation (the helper behind every arm when the
  entry has no activation_quantizer) interpreted for every Keras activation
  name (as the JSON config holds it): relu / tanh / sigmoid
  become their quantized counterpart at the requested width, every other
  activation - including those whose name contains or ends with one of the
  three - stays exactly as it was."""
  um = repo.module(UM)
  fn = um.functions.get("quantize_activation")
  if fn is None:
    raise AnalysisError("anchor-missing function utils.quantize_activation")
  unit = "%s::quantize_activation" % um.relpath
  rep.unit(unit)
  loc = um.loc(fn)
  for name, want in sorted(ACTIVATION_NAMES.items()):
    for form in ("string",):    # a JSON model config only holds names
      if form == "string":
        given = name
      else:
        given = Mock("function " + name, {
            "__name__": name,
            "__class__": Mock("class", {"__name__": "function"})})
      cfgd = {"name": "layer", "activation": given, "units": 3}
      pe = PE(repo)
      pe.ext_overrides = {
          "*.FunctionType": lambda pe, a, k: None}
      cfg = "activation=%s (%s)" % (name, form)
      try:
        pe.call(pe.lookup_global("quantize_activation", um), [cfgd, 5], {})
      except PyRaise as e:
        rep.fail("R8", unit, "quantize_activation-raises", "%s: %s" %
                 (cfg, e), loc=loc, instance=cfg)
        continue
      got = cfgd.get("activation")
      exp = (want % 5) if want else given
      rep.check(got == exp if want else got is given, "R8", unit,
                "fused-activation-rewritten" if not want else
                "fused-activation-not-quantized",
                "%s becomes %r, expected %r" % (cfg, got, exp), loc=loc,
                instance=cfg, observed=str(got)[:60])
      rep.check({k: v for k, v in cfgd.items() if k != "activation"} ==
                {"name": "layer", "units": 3}, "R8", unit,
                "other-keys-touched", "%s: %r" % (cfg, cfgd), loc=loc,
                instance=cfg)
  # absent / None activation
  for cfgd in ({"name": "l"}, {"name": "l", "activation": None}):
    before = dict(cfgd)
    pe = PE(repo)
    try:
      pe.call(pe.lookup_global("quantize_activation", um), [cfgd, 5], {})
      rep.check(cfgd == before, "R8", unit, "absent-activation-rewritten",
                "%r becomes %r" % (before, cfgd), loc=loc)
    except PyRaise as e:
      rep.fail("R8", unit, "quantize_activation-raises", "%r: %s" %
               (before, e), loc=loc)


def rule_batchnorm_selection(rep, repo, unit, loc):
  """A batch normalisation is converted when the dictionary NAMES it - by
  layer name or through the class entry - also when the entry is the empty
  dictionary the documentation shows (`"QBatchNormalization": {}`: default
  quantizers); the layer-name entry has precedence; an unnamed layer is left
  alone."""
  bns = [L("BatchNormalization", "bn_a", axis=-1),
         L("BatchNormalization", "bn_b", axis=-1)]
  qkeys = ("gamma_quantizer", "beta_quantizer", "mean_quantizer",
           "variance_quantizer")
  cases = [
      ("empty class entry", {"QBatchNormalization": {}},
       {"bn_a": {}, "bn_b": {}}),
      ("empty name entry", {"bn_b": {}}, {"bn_b": {}}),
      ("empty name entry beside a class entry",
       {"bn_a": {}, "QBatchNormalization": {"gamma_quantizer": "G"}},
       {"bn_a": {}, "bn_b": {"gamma_quantizer": "G"}}),
      ("name entry only", {"bn_a": {"beta_quantizer": "B"}},
       {"bn_a": {"beta_quantizer": "B"}}),
      ("no entry", {"QDense": {"kernel_quantizer": "K"}}, {}),
  ]
  for label, qd, want in cases:
    try:
      jm, _, _ = run_mq(repo, _copy.deepcopy(bns), _copy.deepcopy(qd))
    except PyRaise as e:
      rep.fail("R6", unit, "raises:BatchNormalization:%s" % e.exc_name,
               "model_quantize raises %s on batch-normalisation layers with "
               "%s" % (e, label), loc=loc, instance=label)
      continue
    got = by_name(jm)
    for lyr in bns:
      name = lyr["config"]["name"]
      g = got.get(name)
      inst = "%s/%s" % (label, name)
      if name in want:
        exp = {k: want[name].get(k) for k in qkeys}
        have = {k: g["config"].get(k, "<absent>") for k in qkeys} \
            if g is not None else None
        rep.check(g is not None and g["class_name"] ==
                  "QBatchNormalization" and have == exp, "R7", unit,
                  "batchnorm-named-but-not-converted",
                  "dictionary %r (%s): layer %s becomes %s with %r, expected "
                  "QBatchNormalization with %r" % (
                      qd, label, name, g and g["class_name"], have, exp),
                  loc=loc, instance=inst,
                  observed="%s %r" % (g and g["class_name"], have))
      else:
        rep.check(g is not None and norm(g) == norm(lyr), "R4", unit,
                  "batchnorm-not-named-but-changed",
                  "dictionary %r (%s): layer %s is not named but becomes "
                  "%r" % (qd, label, name, g), loc=loc, instance=inst)


def rule_full_dictionary(rep, repo, unit, loc):
  """Every class entry carries every optional key as well (an activation
  quantizer, the batch-norm moving-statistics quantizers) and every layer has
  a twin served by the same entry: what a layer becomes must not depend on
  the twin converted before it, the dictionary must come back unchanged, and
  a configured activation quantizer is the activation of the converted
  layer."""
  cfg = qcfg()
  for key, ent in cfg.items():
    if not isinstance(ent, dict) or not ent or key in ("QActivation",
                                                        "d_optout",
                                                        "act_optout"):
      continue
    ent.setdefault("activation_quantizer", "ACT_" + key)
    if key == "QBatchNormalization":
      ent.setdefault("mean_quantizer", "MEAN_bn")
      ent.setdefault("variance_quantizer", "VAR_bn")
  src = []
  for lyr in base_layers():
    if lyr["class_name"] == "InputLayer":
      continue
    twin = _copy.deepcopy(lyr)
    twin["name"] = twin["config"]["name"] = lyr["config"]["name"] + "_twin"
    src += [lyr, twin]
  alone = {}
  for lyr in src:
    name = lyr["config"]["name"]
    qc = _copy.deepcopy(cfg)
    try:
      jm, _, _ = run_mq(repo, [_copy.deepcopy(lyr)], qc)
    except PyRaise as e:
      rep.fail("R6", unit, "raises:%s:%s" % (lyr["class_name"], e.exc_name),
               "model_quantize raises %s on a %s layer with a dictionary "
               "whose entries carry every optional key" % (
                   e, lyr["class_name"]), loc=loc)
      continue
    alone[name] = by_name(jm)[name]
    rep.check(qc == cfg, "R5", unit, "quantizer_config-modified",
              "the caller's quantizer dictionary (entries with every "
              "optional key) was modified while converting a %s layer: %r" %
              (lyr["class_name"], _diff(cfg, qc)), loc=loc,
              instance="full dictionary/" + lyr["class_name"])
    # a configured activation quantizer is what the converted layer applies
    got = alone[name]
    ent = cfg.get(name, cfg.get(got["class_name"]))
    if got["class_name"] != lyr["class_name"] and isinstance(ent, dict) and \
        got["class_name"] not in ("QActivation", "QBatchNormalization") and \
        "activation_quantizer" in ent:
      rep.check(got["config"].get("activation") ==
                ent["activation_quantizer"], "R7", unit,
                "configured-activation-quantizer-not-applied:" +
                got["class_name"],
                "layer %s: the entry configures activation_quantizer=%r but "
                "the converted layer has activation=%r" % (
                    name, ent["activation_quantizer"],
                    got["config"].get("activation")), loc=loc,
                instance="full dictionary/" + name,
                observed=repr(got["config"].get("activation")))
  for order, lbl in ((list(src), "model order"),
                     (list(reversed(src)), "reversed order")):
    qc = _copy.deepcopy(cfg)
    try:
      jm_all, _, _ = run_mq(repo, _copy.deepcopy(order), qc)
    except PyRaise:
      continue
    rep.check(qc == cfg, "R5", unit, "quantizer_config-modified",
              "the caller's quantizer dictionary was modified while "
              "converting the model with twin layers: %r" % (_diff(cfg, qc),),
              loc=loc, instance="full dictionary/whole model/" + lbl)
    together = by_name(jm_all)
    for name, one in sorted(alone.items()):
      got = together.get(name)
      rep.check(got is not None and norm(got) == norm(one), "R1", unit,
                "conversion-depends-on-other-layers:" + one["class_name"],
                "layer %s (dictionary entries with every optional key) is "
                "converted differently inside the whole model (%s) than "
                "alone: %r" % (name, lbl, _diff(one, got)
                               if got is not None else "missing"), loc=loc,
                instance="full dictionary/%s/%s" % (name, lbl))


def rule_plain_activation_names(rep, repo, unit, loc):
  """A configured activation_quantizer that is a plain activation NAME
  ("relu", "tanh", "sigmoid" - the way to keep a float activation on a
  layer that is converted) is what the converted layer carries, exactly as
  a configured quantizer string is: the default conversion of activations
  applies only where nothing is configured.  Every arm that reads the key,
  with an entry by class and by layer name."""
  n = 0
  for plain in ("relu", "tanh", "sigmoid"):
    cfg = qcfg()
    for key, ent in cfg.items():
      if not isinstance(ent, dict) or not ent or key in (
          "QActivation", "d_optout", "act_optout", "QBatchNormalization"):
        continue
      ent["activation_quantizer"] = plain
    for lyr in base_layers():
      if lyr["class_name"] == "InputLayer":
        continue
      name = lyr["config"]["name"]
      try:
        jm, _, _ = run_mq(repo, [_copy.deepcopy(lyr)], _copy.deepcopy(cfg))
      except PyRaise:
        continue       # decided by R6
      got = by_name(jm)[name]
      ent = cfg.get(name, cfg.get(got["class_name"]))
      if got["class_name"] == lyr["class_name"] or not isinstance(
          ent, dict) or "activation_quantizer" not in ent or \
          got["class_name"] in ("QActivation", "QBatchNormalization"):
        continue
      n += 1
      rep.check(got["config"].get("activation") == plain, "R7", unit,
                "configured-plain-activation-rewritten:" +
                got["class_name"],
                "layer %s: the entry configures activation_quantizer=%r "
                "(a plain activation name) but the converted %s has "
                "activation=%r" % (name, plain, got["class_name"],
                                   got["config"].get("activation")),
                loc=loc, instance="%s/activation_quantizer=%s" % (name,
                                                                  plain),
                observed=repr(got["config"].get("activation")))
  return n


# what the stock Keras layer the class replaces declares as its output shape
def _stock_output_shape(name, shape, units):
  if name == "QDense":
    return tuple(shape[:-1]) + (units,)
  return tuple(shape)          # activations, batch normalisation


def rule_output_shapes(rep, repo, rule="R10"):
  """The converted model has the output shapes of the source model: every
  quantized layer class that overrides compute_output_shape (under Keras 3
  the override IS the layer's symbolic output shape) is built by its own
  constructor and asked for input shapes of rank 2, 3 and 4, with an
  unknown and with a fixed batch size; the answer has to be the output
  shape of the stock layer it replaces (Dense: the last axis becomes
  `units`, every other axis is kept; activation / batch normalisation: the
  input shape)."""
  from .c13 import layer_pe, exported_classes
  from ..pe import ClassRef
  n = 0
  for name, ci in sorted(exported_classes(repo).items()):
    if "compute_output_shape" not in ci.methods:
      continue
    fn = ci.methods["compute_output_shape"]
    unit = "%s::%s.compute_output_shape" % (ci.module.relpath, name)
    rep.unit(unit)
    loc = ci.module.loc(fn)
    if name not in ("QDense", "QActivation", "QAdaptiveActivation",
                    "QBatchNormalization"):
      rep.fail(rule, unit, "output-shape-override-without-reference",
               "%s overrides compute_output_shape and the checker has no "
               "stock-layer reference for it" % name, loc=loc)
      continue
    params = [p for p, _ in ci.init_params()[0]]
    kw = {}
    if "units" in params:
      kw["units"] = 7
    if "activation" in params and name != "QDense":
      kw["activation"] = "quantized_relu(4)"
    if name == "QAdaptiveActivation":
      kw.update(activation="quantized_relu", total_bits=4)
    pe = layer_pe(repo, ci, name)
    try:
      layer = pe.call(ClassRef(ci), [], dict(kw))
    except (PyRaise, Unsupported) as e:
      rep.extra.setdefault("output_shape_not_interpretable", {})[name] = \
          str(e)[:100]
      continue
    for shape in ((None, 5), (None, 8, 5), (None, 4, 4, 5), (3, 5),
                  (3, 8, 5)):
      want = _stock_output_shape(name, shape, 7)
      try:
        got = pe.call(pe.getattr(layer, "compute_output_shape"),
                      [tuple(shape)], {})
        got = tuple(got) if isinstance(got, (list, tuple)) else got
      except (PyRaise, Unsupported) as e:
        got = "raises %s" % e
      n += 1
      rep.check(got == want, rule, unit, "output-shape",
                "%s.compute_output_shape(%s) = %s; the stock layer it "
                "replaces gives %s" % (name, shape, got, want), loc=loc,
                instance="%s%s" % (name, shape))
  return n


def rule_layers_own_their_quantizers(rep, repo, rule="R11"):
  """Two converted layers of one class never share a quantizer object: each
  exported quantized layer class is built twice in ONE interpreter (own
  constructors) from different quantizer strings - the way model_quantize
  builds a model - and (a) no quantizer object is held by both layers, (b)
  the first layer's quantizers still have the bit widths they were
  configured with after the second layer has been built."""
  from .c13 import layer_pe, exported_classes
  from ..pe import ClassRef
  n = 0
  skipped = {}
  for name, ci in sorted(exported_classes(repo).items()):
    params = [p for p, _ in ci.init_params()[0]]
    qparams = [p for p in params if p.endswith("_quantizer")]
    if name == "QBatchNormalization":
      qparams = [p for p in qparams if p != "inverse_quantizer"]
    adaptive = name == "QAdaptiveActivation"
    if not qparams and not adaptive and name != "QActivation":
      continue
    unit = "%s::%s.__init__" % (ci.module.relpath, name)

    def kwargs(bits):
      kw = {p: "quantized_bits(%d,0,1)" % bits for p in qparams}
      if adaptive:
        kw.update(activation="quantized_relu", total_bits=bits)
      elif name == "QActivation":
        kw["activation"] = "quantized_relu(%d)" % bits
      for p_, v_ in (("units", 4), ("filters", 8), ("kernel_size", 3),
                     ("pool_size", 2)):
        if p_ in params:
          kw[p_] = v_
      return kw

    def quantizer_objects(layer):
      out = {}
      holders = [layer]
      if isinstance(layer.attrs.get("cell"), Obj):
        holders.append(layer.attrs["cell"])
      for h in holders:
        for k, v in h.attrs.items():
          if isinstance(v, Obj) and "bits" in v.attrs and k != "cell":
            out[k] = v
      return out
    pe = layer_pe(repo, ci, name)
    try:
      a = pe.call(ClassRef(ci), [], kwargs(3))
      qa = quantizer_objects(a)
      bits_a = {k: v.attrs.get("bits") for k, v in qa.items()}
      b = pe.call(ClassRef(ci), [], kwargs(6))
      qb = quantizer_objects(b)
    except (PyRaise, Unsupported) as e:
      skipped[name] = str(e)[:100]
      continue
    if not qa:
      continue
    rep.unit(unit)
    n += 1
    shared = sorted(k for k, v in qa.items()
                    if any(v is w for w in qb.values()))
    changed = sorted("%s: bits %s -> %s" % (k, bits_a[k], v.attrs.get(
        "bits")) for k, v in qa.items() if v.attrs.get("bits") != bits_a[k])
    rep.check(not shared and not changed, rule, unit,
              "layers-share-a-quantizer-object",
              "two %s layers built from different quantizer strings: "
              "quantizer object(s) held by both: %s; quantizers of the "
              "first layer changed by building the second: %s" % (
                  name, shared or "none", changed or "none"),
              loc=ci.loc(), instance=name)
  rep.extra["own_quantizer_layers_not_interpretable"] = skipped
  return n


def rule_constraints_follow_their_quantizer(rep, repo, rule="R12"):
  """The range constraint a converted layer puts on a weight comes from the
  quantizer of THAT weight: each exported layer class is built by its own
  constructor (the repository's constraint helper interpreted) with a
  different format per weight role, and with one role quantized only; the
  Clip of a role holds that role's quantizer and its bound, a role without
  quantizer keeps the constraint it was given (none)."""
  from .c13 import layer_pe, exported_classes
  from ..pe import ClassRef
  n = 0
  skipped = {}
  for name, ci in sorted(exported_classes(repo).items()):
    params = [p for p, _ in ci.init_params()[0]]
    roles = [p[:-10] for p in params if p.endswith("_quantizer") and
             p[:-10] + "_constraint" in params]
    if len(roles) < 2:
      continue
    unit = "%s::%s.__init__" % (ci.module.relpath, name)
    geometry = {p_: v_ for p_, v_ in (
        ("units", 4), ("filters", 8), ("kernel_size", 3), ("pool_size", 2))
                if p_ in params}
    scenarios = [("one format per role", {
        r + "_quantizer": "quantized_bits(%d,%d,1)" % (4 + 2 * i, i)
        for i, r in enumerate(roles)})]
    for r in roles:
      scenarios.append(("only %s quantized" % r,
                        {r + "_quantizer": "quantized_bits(6,2,1)"}))
    for label, qkw in scenarios:
      pe = layer_pe(repo, ci, name, own_constraints=True)
      try:
        layer = pe.call(ClassRef(ci), [], dict(geometry, **qkw))
      except (PyRaise, Unsupported) as e:
        skipped["%s %s" % (name, label)] = str(e)[:100]
        continue
      holder = layer
      if not any(isinstance(layer.attrs.get(r + "_constraint"), Obj)
                 for r in roles) and isinstance(layer.attrs.get("cell"),
                                                Obj):
        holder = layer.attrs["cell"]
      bad = []
      seen = 0
      for r in roles:
        c = holder.attrs.get(r + "_constraint")
        q = holder.attrs.get(r + "_quantizer_internal")
        if r + "_quantizer_internal" not in holder.attrs:
          continue
        if q is None:
          if c is not None:
            bad.append("%s has no quantizer but is constrained by %s" % (
                r, "Clip(%s, %s)" % (c.attrs.get("min_value"), c.attrs.get(
                    "max_value")) if isinstance(c, Obj) else c))
          seen += 1
          continue
        if not isinstance(c, Obj) or not isinstance(q, Obj):
          continue
        seen += 1
        cq = c.attrs.get("quantizer")
        if cq is not q:
          bad.append("the constraint of %s holds %s, the quantizer of %s "
                     "is %s" % (
                         r, "%s(bits=%s,integer=%s)" % (
                             cq.cls.name, cq.attrs.get("bits"),
                             cq.attrs.get("integer")) if isinstance(
                                 cq, Obj) else cq, r,
                         "%s(bits=%s,integer=%s)" % (
                             q.cls.name, q.attrs.get("bits"),
                             q.attrs.get("integer"))))
      if not seen:
        continue
      rep.unit(unit)
      n += 1
      cfg = "%s, %s" % (name, label)
      rep.check(not bad, rule, unit, "constraint-from-another-role",
                "%s: %s" % (cfg, "; ".join(bad)), loc=ci.loc(),
                instance=cfg)
  rep.extra["constraint_layers_not_interpretable"] = skipped
  return n


def rule_geometry_from_json(rep, repo, rule="R13"):
  """model_quantize rebuilds every layer from JSON text, where the tuples of
  a layer config arrive as LISTS: a quantized layer class built by its own
  constructor from list-valued geometry options hands its Keras parent the
  geometry it hands it for the tuple spelling."""
  from .c13 import layer_pe, exported_classes
  from ..pe import ClassRef
  n = 0
  skipped = {}

  def norm(v):
    if isinstance(v, (list, tuple)):
      return tuple(norm(e) for e in v)
    return v
  for name, ci in sorted(exported_classes(repo).items()):
    params = [p for p, _ in ci.init_params()[0]]
    rank = 1 if "1D" in name else 2
    geo = {}
    for p_, v_ in (("kernel_size", 3), ("strides", 1), ("dilation_rate", 2),
                   ("pool_size", 2)):
      if p_ in params:
        geo[p_] = (v_,) * rank
    if not geo:
      continue
    fixed = {p_: v_ for p_, v_ in (("units", 4), ("filters", 8))
             if p_ in params}
    unit = "%s::%s.__init__" % (ci.module.relpath, name)
    got = {}
    try:
      for spelling, conv in (("tuples", tuple), ("lists", list)):
        pe = layer_pe(repo, ci, name)
        layer = pe.call(ClassRef(ci), [], dict(
            fixed, **{k: conv(v) for k, v in geo.items()}))
        base = layer.attrs.get("__base_config__", {})
        got[spelling] = {k: norm(base.get(k, layer.attrs.get(k)))
                         for k in geo}
    except (PyRaise, Unsupported) as e:
      skipped[name] = str(e)[:100]
      continue
    rep.unit(unit)
    n += 1
    diff = sorted("%s: %r from tuples, %r from lists" % (
        k, got["tuples"][k], got["lists"][k]) for k in geo
                  if got["tuples"][k] != got["lists"][k])
    rep.check(not diff, rule, unit, "geometry-lost-through-json",
              "%s built from list-valued options (as a config read back from "
              "JSON has them) hands its parent another geometry: %s" % (
                  name, "; ".join(diff)), loc=ci.loc(), instance=name)
  rep.extra["json_geometry_not_interpretable"] = skipped
  return n


def run(rep, repo, tier):
  um = repo.module(UM)
  unit = "%s::model_quantize" % um.relpath
  rep.unit(unit)
  fn = um.functions.get("model_quantize")
  if fn is None:
    raise AnalysisError("anchor-missing function utils.model_quantize")
  loc = um.loc(fn)
  rep.trusted.append("Keras to_json / model_from_json (stubbed): topology, "
                     "shapes and hyper-parameters of the rebuilt model are "
                     "whatever the JSON says")
  # ---- every selected layer converts (one layer at a time, so that a
  # raising arm does not hide the others)
  src = base_layers()
  cfg = qcfg()
  converted = {}
  for lyr in src:
    name = lyr["config"]["name"]
    one = [_copy.deepcopy(lyr)]
    qc = _copy.deepcopy(cfg)
    qc_before = _copy.deepcopy(qc)
    try:
      jm, custom, calls = run_mq(repo, one, qc)
    except PyRaise as e:
      rep.fail("R6", unit, "raises:%s:%s" % (lyr["class_name"], e.exc_name),
               "model_quantize raises %s on a model with a %s layer that the "
               "dictionary selects" % (e, lyr["class_name"]), loc=loc)
      continue
    rep.ok("R6")
    converted[name] = by_name(jm)[name]
    rep.check(qc == qc_before, "R5", unit, "quantizer_config-modified",
              "the caller's quantizer dictionary was modified while "
              "converting a %s layer" % lyr["class_name"], loc=loc)
    rep.check(custom == {"user": "object"} and not calls, "R5", unit,
              "custom_objects-or-model-modified",
              "custom_objects / the source model were modified", loc=loc)
    rep.check(norm(one[0]) == norm(lyr), "R5", unit, "source-json-modified",
              "the dictionary returned by model.to_json() was modified in "
              "place (no deep copy)", loc=loc)
  rep.extra["layers_converted"] = {n: l["class_name"]
                                   for n, l in converted.items()}
  rep.sample({"converted": rep.extra["layers_converted"]})

  # conversion of a layer must not depend on the layers before it: the whole
  # model at once (in both orders) gives every layer what it gets alone
  for order, lbl in ((list(src), "model order"),
                     (list(reversed(src)), "reversed order")):
    try:
      jm_all, _, _ = run_mq(repo, _copy.deepcopy(order), _copy.deepcopy(cfg))
    except PyRaise as e:
      # a raising arm is reported by R6 above
      continue
    together = by_name(jm_all)
    for name, alone in sorted(converted.items()):
      got = together.get(name)
      rep.check(got is not None and norm(got) == norm(alone), "R1", unit,
                "conversion-depends-on-other-layers:" + alone["class_name"],
                "layer %s is converted differently inside the whole model "
                "(%s) than alone: %r" % (
                    name, lbl, _diff(alone, got) if got is not None
                    else "missing"), loc=loc, instance="%s/%s" % (name, lbl))

  # the same for the Activation arm with sparse dictionaries (per-name
  # entries only / only the backup class entry), both preferences: what an
  # Activation layer becomes must not depend on the Activation layers that
  # were converted before it
  acts = [L("Activation", "act_a", activation="relu"),
          L("Activation", "act_b", activation="relu"),
          L("Activation", "act_c", activation="tanh"),
          L("Activation", "act_d", activation="relu")]
  for prefer in (False, True):
    for dname, qd in (
        ("per-name entry only", {"act_b": "quantized_relu(3)"}),
        ("backup class entry and a per-name entry", {
            # a QAdaptiveActivation entry must carry the total bits
            ("QActivation" if prefer else "QAdaptiveActivation"): {
                "relu": "quantized_relu(6)"},
            "act_d": "quantized_relu(3)"})):
      alone_a = {}
      try:
        for lyr in acts:
          jm1, _, _ = run_mq(repo, [_copy.deepcopy(lyr)],
                             _copy.deepcopy(qd),
                             prefer_qadaptiveactivation=prefer)
          alone_a[lyr["config"]["name"]] = by_name(jm1)[
              lyr["config"]["name"]]
        for order, lbl in ((list(acts), "model order"),
                           (list(reversed(acts)), "reversed order")):
          jm_all, _, _ = run_mq(repo, _copy.deepcopy(order),
                                _copy.deepcopy(qd),
                                prefer_qadaptiveactivation=prefer)
          tog = by_name(jm_all)
          for name, alone in sorted(alone_a.items()):
            got = tog.get(name)
            inst = "%s/%s/%s/prefer_qadaptiveactivation=%s" % (
                name, lbl, dname, prefer)
            rep.check(got is not None and norm(got) == norm(alone), "R1",
                      unit, "conversion-depends-on-other-layers:Activation",
                      "layer %s (%s, %s, prefer_qadaptiveactivation=%s) "
                      "becomes %s %r inside the model but %s %r alone" % (
                          name, lbl, dname, prefer,
                          got and got["class_name"],
                          got and got["config"].get("activation"),
                          alone["class_name"],
                          alone["config"].get("activation")), loc=loc,
                      instance=inst)
      except PyRaise as e:
        rep.fail("R6", unit, "raises:Activation:%s" % e.exc_name,
                 "model_quantize raises %s on Activation layers with %s" %
                 (e, dname), loc=loc)

  rule_full_dictionary(rep, repo, unit, loc)
  rule_batchnorm_selection(rep, repo, unit, loc)
  if rule_plain_activation_names(rep, repo, unit, loc) < 20:
    raise AnalysisError("instance-count plain activation names")

  def expect(name, cls, **keys):
    l = converted.get(name)
    if l is None:
      return
    rep.check(l["class_name"] == cls, "R7", unit,
              "class:%s->%s" % (name, l["class_name"]),
              "layer %s became %s, expected %s" % (name, l["class_name"],
                                                   cls), loc=loc)
    for k, v in keys.items():
      got = l["config"].get(k, "<absent>")
      rule = "R3" if (k == "bias_quantizer" and v is None) else "R7"
      rep.check(got == v, rule, unit, "config:%s.%s" % (name, k),
                "layer %s has %s=%r, expected %r" % (name, k, got, v),
                loc=loc, instance="%s.%s" % (name, k), observed=repr(got))
  # R2 precedence (d1 has a name entry, d2 only the class entry)
  l = converted.get("d1")
  if l is not None:
    rep.check(l["config"].get("kernel_quantizer") == "K_d1_name", "R2", unit,
              "precedence", "the layer-name entry must win over the class "
              "entry: kernel_quantizer=%r" %
              l["config"].get("kernel_quantizer"), loc=loc)
  expect("d1", "QDense", kernel_quantizer="K_d1_name",
         bias_quantizer="B_d1_name", activation="quantized_relu(4)")
  for n_, c_ in (("d_unselected", "Dense"), ("d_optout", "Dense"),
                 ("act_optout", "Activation")):
    l = converted.get(n_)
    if l is not None:
      rep.check(l["class_name"] == c_, "R2", unit, "empty-name-entry-ignored",
                "layer %s has an empty entry under its own name (opt-out) "
                "but was converted to %s through the class entry" %
                (n_, l["class_name"]), loc=loc)
  expect("d2", "QDense", kernel_quantizer="K_QDense_class",
         bias_quantizer=None, activation="linear")
  expect("c1", "QConv2D", kernel_quantizer="K_QConv2D",
         bias_quantizer="B_QConv2D",
         activation="ACTIVATION_QUANTIZER_QConv2D")
  expect("c1d", "QConv1D", kernel_quantizer="K_QConv1D",
         activation="quantized_sigmoid(4)")
  expect("ct", "QConv2DTranspose", kernel_quantizer="K_QConv2DTranspose",
         activation=None)
  expect("dw", "QDepthwiseConv2D", depthwise_quantizer="DW_q",
         bias_quantizer="B_dw", activation="ACT_dw")
  expect("sep", "QSeparableConv2D", depthwise_quantizer="DW_sep",
         pointwise_quantizer="PW_sep", bias_quantizer="B_sep")
  expect("rnn", "QSimpleRNN", kernel_quantizer="K_rnn",
         recurrent_quantizer="RECURRENT_QUANTIZER_rnn",
         bias_quantizer="B_rnn", state_quantizer="STATE_QUANTIZER_rnn",
         activation="quantized_tanh(4)")
  expect("lstm", "QLSTM", kernel_quantizer="K_lstm",
         recurrent_quantizer="RECURRENT_QUANTIZER_lstm",
         recurrent_activation="RECURRENT_ACTIVATION_QUANTIZER_lstm")
  expect("gru", "QGRU", kernel_quantizer="K_gru",
         recurrent_quantizer="RECURRENT_QUANTIZER_gru")
  expect("act", "QActivation", activation="ACT_relu")
  expect("act_softmax", "Activation", activation="softmax")
  expect("bn", "QBatchNormalization", gamma_quantizer="G_bn",
         beta_quantizer="BE_bn")
  for nm in ("ap", "ap2"):
    expect(nm, "QAveragePooling2D", average_quantizer="AVG_ap",
           activation="ACT_ap")
  for nm in ("gap", "gap2"):
    expect(nm, "QGlobalAveragePooling2D", average_quantizer="AVG_gap",
           activation="ACT_gap")
  expect("relu6", "QActivation", activation="ACT_relu")
  expect("leaky", "QActivation", activation="ACT_leaky")
  expect("relu_leaky", "QActivation", activation="ACT_leaky")
  expect("relu_legacy", "QActivation", activation="ACT_relu")
  expect("relu_legacy_leaky", "QActivation", activation="ACT_leaky")
  expect("leaky_zero_slope", "QActivation", activation="ACT_relu")
  # a dictionary-form activation map that names only "relu" leaves leaky
  # layers as they were (and the other way round)
  for only, lyr0, stays in (
      ("relu", L("ReLU", "r_leaky", max_value=None, negative_slope=0.25,
                 threshold=0.0), True),
      ("relu", L("LeakyReLU", "l_leaky", alpha=0.25), True),
      ("leakyrelu", L("ReLU", "r_plain", max_value=6.0, negative_slope=0.0,
                      threshold=0.0), True),
      ("leakyrelu", L("ReLU", "r_leaky2", max_value=None,
                      negative_slope=0.25, threshold=0.0), False)):
    try:
      jm2, _, _ = run_mq(repo, [_copy.deepcopy(lyr0)],
                         {"QActivation": {only: "ACT_" + only}})
    except PyRaise as e:
      rep.fail("R6", unit, "raises:activation-map-only-" + only,
               "model_quantize raises %s" % e, loc=loc)
      continue
    got = by_name(jm2)[lyr0["config"]["name"]]
    if stays:
      rep.check(norm(got) == norm(lyr0), "R4", unit,
                "activation-map-miss-converted:%s:%s" % (
                    only, lyr0["config"]["name"]),
                "an activation map that only names %r changed the %s layer "
                "%s: %r" % (only, lyr0["class_name"],
                            lyr0["config"]["name"], _diff(lyr0, got)),
                loc=loc)
    else:
      rep.check(got["class_name"] == "QActivation" and
                got["config"].get("activation") == "ACT_" + only, "R7", unit,
                "activation-map-hit-not-converted:" + only,
                "layer %s should carry the %r entry: %s" %
                (lyr0["config"]["name"], only, got), loc=loc)
  expect("sep1d", "QSeparableConv1D")
  # R1 added keys are constructor parameters of the target class
  srcs = {l["config"]["name"]: l for l in src}
  for name, l in sorted(converted.items()):
    if l["class_name"] == srcs[name]["class_name"]:
      continue
    qc_ = q_class(repo, l["class_name"])
    if qc_ is None:
      rep.fail("R1", unit, "target-class-missing:" + l["class_name"],
               "layer %s is turned into %s, which is not a class of the "
               "package" % (name, l["class_name"]), loc=loc)
      continue
    params = {p for p, _ in qc_.init_params()[0]}
    added = sorted(k for k in l["config"] if k not in srcs[name]["config"])
    bad = [k for k in added if k not in params]
    rep.check(not bad, "R1", unit,
              "key-not-accepted:%s:%s" % (l["class_name"], ",".join(bad)),
              "converting a %s layer writes %s into its config, which are "
              "not named parameters of %s.__init__ (deserialisation rejects "
              "them)" % (srcs[name]["class_name"], bad, l["class_name"]),
              loc=loc)
  # ---- R4 unselected layers untouched (whole model at once; arms that raise
  # are left out so that the rest can be observed)
  safe = [l for l in base_layers() if l["config"]["name"] in converted or
          l["class_name"] in ("InputLayer", "Flatten", "MyLayer")]
  sparse_cfg = {"d1": {"kernel_quantizer": "K", "bias_quantizer": "B"}}
  before = _copy.deepcopy(safe)
  try:
    jm, _, _ = run_mq(repo, safe, dict(sparse_cfg))
    after = by_name(jm)
    for lb in before:
      n = lb["config"]["name"]
      if n == "d1":
        continue
      rep.check(norm(after[n]) == norm(lb), "R4", unit,
                "unselected-layer-changed:" + lb["class_name"],
                "layer %s (%s) is not selected by the dictionary but changed "
                "from %r to %r" % (n, lb["class_name"], _diff(lb, after[n]),
                                   _diff(after[n], lb)), loc=loc)
  except PyRaise as e:
    rep.fail("R4", unit, "raises-on-unselected-layers",
             "model_quantize raises %s although only d1 is selected" % e,
             loc=loc)
  # folding arms with nothing configured for the layer
  for cls, lname in (("Conv2D", "cf"), ("DepthwiseConv2D", "dwf")):
    lyr = L(cls, lname, use_bias=False, activation="relu", filters=4)
    one = [_copy.deepcopy(lyr)]
    try:
      jm, _, _ = run_mq(repo, one, {"other": {}}, fold=[lname])
      rep.check(norm(by_name(jm)[lname]) == norm(lyr), "R4", unit,
                "unselected-folded-layer-changed:" + cls,
                "with enable_bn_folding a %s layer that has no quantizer "
                "configured is changed: %r" %
                (cls, _diff(lyr, by_name(jm)[lname])), loc=loc)
    except PyRaise as e:
      rep.fail("R4", unit, "raises-on-unselected-folded:" + cls,
               "raises %s" % e, loc=loc)
  # ---- R8 weight transfer
  wcalls = []

  def mk(i, ws=("w",), ntrain=None):
    """ws: names of the layer's variables; ntrain: how many are trainable
    (default all).  Layers 3/13 are frozen, 4/14 hold statistics only."""
    names = ["%s%d" % (w, i % 10) for w in ws]
    nt = len(names) if ntrain is None else ntrain
    return Mock("layer%d" % i, {
        "name": "layer%d" % i, "trainable": nt > 0 or not names,
        "weights": list(names), "trainable_weights": names[:nt],
        "non_trainable_weights": names[nt:],
        "get_weights": lambda pe, a, k, names=names: list(names),
        "set_weights": lambda pe, a, k, i=i: wcalls.append((i, list(a[0])))})
  s_layers = [mk(0), mk(1, ()), mk(2), mk(3, ("k", "b"), 0),
              mk(4, ("mean", "var"), 0)]
  q_layers = [mk(10), mk(11, ()), mk(12), mk(13, ("k", "b"), 0),
              mk(14, ("mean", "var"), 0)]
  try:
    run_mq(repo, [L("Dense", "d1", use_bias=True, activation=None)],
           {"d1": {"kernel_quantizer": "K"}}, transfer=True,
           src_layers=s_layers, q_layers=q_layers)
    want = [(10, ["w0"]), (12, ["w2"]), (13, ["k3", "b3"]),
            (14, ["mean4", "var4"])]
    rep.check(wcalls == want, "R8", unit,
              "weight-transfer",
              "with transfer_weights the set_weights calls are %s; expected "
              "the weights of every source layer that has any (trainable, "
              "frozen or statistics-only) copied to the layer at the same "
              "position of the new model: %s" % (wcalls, want), loc=loc)
  except PyRaise as e:
    rep.fail("R8", unit, "weight-transfer-raises", "raises %s" % e, loc=loc)
  rule_activation_names(rep, repo)
  rule_output_shapes(rep, repo)
  rep.require_instances("R10", 20)
  rule_layers_own_their_quantizers(rep, repo)
  rep.require_instances("R11", 12)
  if rule_geometry_from_json(rep, repo) < 8:
    raise AnalysisError("instance-count list-valued geometry: %r" %
                        rep.extra.get("json_geometry_not_interpretable"))
  rule_constraints_follow_their_quantizer(rep, repo)
  rep.require_instances("R12", 30)
  rep.require_instances("R8", 50)
  rep.require_instances("R1", 10)
  rep.require_instances("R4", 10)
  rep.require_instances("R5", 30)
  rep.require_instances("R6", 15)
  rep.require_instances("R7", 30)


def _diff(a, b):
  """Entries of a that differ from b (one level into config)."""
  out = {}
  for k in a:
    if k == "config":
      for k2 in a[k]:
        if b.get("config", {}).get(k2, "<absent>") != a[k][k2]:
          out["config." + k2] = a[k][k2]
    elif b.get(k, "<absent>") != a[k]:
      out[k] = a[k]
  return out
