"""C03 - power-of-two quantizers emit signed powers of two with in-range
exponents.

R1 the forward value set is a signed power-of-two set whose exponent
   interval lies inside the interval documented for (bits, max_value), and
   2**e <= max_value for a power-of-two max_value.
R2 sign: positive inputs give +2**e, negative inputs -2**e (signed variant)
   resp. the smallest code / a negative power of two (ReLU variant); zero
   maps to the smallest magnitude.
R3 the rounding primitive on the log2 path matches log2_rounding.
R4 monotone on each sign (polarity analysis).
R5 min()/max() enclose the output set.
"""
from fractions import Fraction as F
import itertools

from ..loader import AnalysisError
from ..pe import ConfigRejected
from .. import quant, pwa, oracle
from ..qir import Fwd, Eval, Env, value_set
from ..nf import NF, show, log2_exact
from ..vset import VS
from .. import vset as V
from .c01 import eval_reporter

TECHNIQUE = ("Value-set abstract interpretation with a signed power-of-two "
             "domain (sign set x integer exponent interval) on the partially "
             "evaluated IR; region-wise sign and polarity analysis.")


def exp_interval(cls, bits, max_value):
  """Documented exponent interval: exponent field of bits-1 (signed po2: one
  bit is the sign of x) or bits (relu) bits; two's complement when the
  exponent needs a sign (max_value None or > 1), otherwise the same count of
  non-positive exponents; capped by log2(max_value)."""
  n = bits - 1 if cls == "quantized_po2" else bits
  need = 1 if (max_value is None or max_value > 1) else 0
  eb = n - need
  lo, hi = -(2 ** eb), 2 ** eb - 1
  if max_value is not None:
    k = log2_exact(F(max_value))
    if k is not None:
      hi = min(hi, k)
  return lo, hi


def lattice(tier):
  bits_r = range(2, 9)
  mvs = [None] + [F(2) ** k for k in (range(-3, 7) if tier == "thorough"
                                      else (-3, -1, 0, 1, 3, 6))]
  # a max_value that is not a power of two only limits the exponent range
  # (no documented cap is checked for it); the outputs stay powers of two
  mvs += [F(3), F(6), F(3, 4)] if tier == "thorough" else [F(3)]
  for bits, mv, rnd in itertools.product(bits_r, mvs, ("rnd", "floor")):
    yield "quantized_po2", dict(bits=bits, max_value=mv, log2_rounding=rnd)
  # the non-straight-through form (use_ste=False) has its own return arm
  for bits, mv in itertools.product((2, 4, 8), (None, F(1), F(8))):
    yield "quantized_po2", dict(bits=bits, max_value=mv, use_ste=False,
                                log2_rounding="rnd")
    yield "quantized_relu_po2", dict(bits=bits, max_value=mv, use_ste=False,
                                log2_rounding="rnd")
    yield "quantized_relu_po2", dict(bits=bits, max_value=mv, use_ste=False,
                                     negative_slope=F(1, 4),
                                     log2_rounding="rnd")
  slopes = (F(0), F(1, 2), F(1, 8)) if tier == "thorough" else (F(0),
                                                                F(1, 4))
  for bits, mv, slope, rnd in itertools.product(bits_r, mvs, slopes,
                                                ("rnd", "floor")):
    yield "quantized_relu_po2", dict(bits=bits, max_value=mv,
                                     negative_slope=slope, log2_rounding=rnd)


def po2_subset(vs, signs, lo, hi):
  want = VS.po2(signs, VS.grid(1, 0, lo, hi))
  return vs.subset_of(want), want


def run(rep, repo, tier):
  mod = repo.module(quant.QMOD)
  rep.trusted.append("semantics table of TF/Keras primitives; log2 of "
                     "non-powers of two bounded outward")
  rep.assumptions.append("log2-nearest at sqrt(2)*2^k +- ulps and the "
                         "epsilon floor numerics are float effects, not "
                         "decided; stochastic mode is C08")
  for c in ("quantized_po2", "quantized_relu_po2"):
    if c not in mod.classes:
      raise AnalysisError("anchor-missing class %s" % c)
  n = 0
  skipped = 0
  for cls, kw in lattice(tier):
    cfg = "%s(%s)" % (cls, oracle.show_kwargs(kw))
    unit = "%s::%s.__call__" % (mod.relpath, cls)
    try:
      b = quant.build(repo, cls, kw)
    except ConfigRejected:
      continue
    elo, ehi = exp_interval(cls, kw["bits"], kw["max_value"])
    if ehi < elo:
      # max_value lies below the smallest representable magnitude: no
      # exponent satisfies both documented constraints; outside the lattice
      skipped += 1
      continue
    n += 1
    rep.unit(unit)
    loc = b.pe.loc_of(b.term)
    f = b.fwd("infer")
    slope = F(kw.get("negative_slope", 0))
    signs = [1, -1] if (cls == "quantized_po2" or slope != 0) else [1]
    got = value_set(f)
    ok, want = po2_subset(got, signs, elo, ehi)
    facts = {"config": cfg, "forward": show(f, 500), "got": repr(got),
             "want": repr(want)}
    kind = "not-power-of-two" if got.kind != "po2" else "exponent-range"
    rep.check(ok, "R1", unit, "po2:" + kind,
              "output value set %r is not inside %r" % (got, want), loc=loc,
              instance=cfg, facts=facts)
    if n % 61 == 1:
      rep.sample({"config": cfg, "value_set": repr(got),
                  "documented_exponents": [elo, ehi]})
    # R2 sign by region
    regs = {"x>0": Env(x=VS.real(F(0), None), xsign=1),
            "x<0": Env(x=VS.real(None, F(0)), xsign=-1),
            "x=0": Env(x=VS.const(0), xsign=0)}
    vals = {k: Eval(e).nf(f) for k, e in regs.items()}
    smallest = F(2) ** elo
    if cls == "quantized_po2":
      okp = po2_subset(vals["x>0"], [1], elo, ehi)[0]
      okn = po2_subset(vals["x<0"], [-1], elo, ehi)[0]
      ok0 = vals["x=0"].const_value() == smallest
    else:
      okp = po2_subset(vals["x>0"], [1], elo, ehi)[0]
      if slope == 0:
        okn = vals["x<0"].const_value() == smallest
      else:
        okn = po2_subset(vals["x<0"], [-1], elo, ehi)[0]
      ok0 = vals["x=0"].const_value() == smallest
    rep.check(okp and okn and ok0, "R2", unit, "sign-or-zero-mapping",
              "by region: x>0 -> %r, x<0 -> %r, x=0 -> %r (expected +2^e / "
              "%s / %s)" % (vals["x>0"], vals["x<0"], vals["x=0"],
                            "-2^e" if (cls == "quantized_po2" or slope != 0)
                            else "smallest code", smallest), loc=loc,
              instance=cfg, facts=facts)
    # R3 rounding primitive on the log2 path
    kinds = set()
    for a in f.atoms():
      if a[0] == "app" and a[1] in ("round", "floor", "ceil") and any(
          x[0] == "app" and x[1] in ("log2", "log") for x in a[3][0].atoms()):
        kinds.add(a[1])
    want_kind = {"rnd": "round", "floor": "floor"}[kw["log2_rounding"]]
    rep.check(kinds == {want_kind}, "R3", unit,
              "log2-rounding:%s->%s" % (kw["log2_rounding"],
                                         "+".join(sorted(kinds)) or "none"),
              "log2_rounding=%r reaches the rounding primitive(s) %s on "
              "log2|x|, expected %s" % (kw["log2_rounding"], sorted(kinds),
                                        want_kind), loc=loc, instance=cfg,
              facts=facts)
    # ... and what is rounded is log2 of the magnitude itself: away from
    # the epsilon floor the argument of the logarithm has no additive
    # constant (log2(|x| + c) moves every breakpoint by c, which is a whole
    # exponent for small magnitudes)
    shifted = []
    for a in f.atoms():
      if a[0] == "app" and a[1] in ("round", "floor", "ceil"):
        for L in a[3][0].atoms():
          if L[0] == "app" and L[1] in ("log2", "log") and isinstance(
              L[3][0], NF):
            for lo_, hi_, xs_ in ((F(1), None, 1), (None, F(-1), -1)):
              ev1 = Eval(Env(x=VS.real(lo_, hi_), xsign=xs_))
              try:
                u1 = pwa.fold_region(L[3][0], ev1)
              except Exception:   # pylint: disable=broad-except
                continue
              c0 = u1.terms.get((), F(0))
              if c0 != 0 and not u1.is_const():
                shifted.append("%s on %s" % (show(u1, 80), "x>=1" if xs_ == 1
                                             else "x<=-1"))
    rep.check(not shifted, "R3", unit, "log2-of-shifted-magnitude",
              "the rounded logarithm is taken of %s: an additive constant "
              "inside the logarithm shifts the exponent breakpoints" %
              "; ".join(sorted(set(shifted))[:3]), loc=loc, instance=cfg,
              facts=facts)
    # R4 monotone on each sign
    pols = {}
    for k in ("x>0", "x<0"):
      ev = Eval(regs[k])
      fr = pwa.fold_region(f, ev)
      pols[k] = pwa.polarity(fr, ev)
    rep.check(all(p in ("+", "0") for p in pols.values()), "R4", unit,
              "not-monotone",
              "polarity of the forward value: %s (non-decreasing required "
              "on each sign)" % pols, loc=loc, instance=cfg, facts=facts)
    # R5 reporters
    try:
      mn = eval_reporter(repo, cls, kw, "min")
      mx = eval_reporter(repo, cls, kw, "max")
    except ConfigRejected as e:
      rep.fail("R5", "%s::%s.min/max" % (mod.relpath, cls), "raises",
               "min()/max() raise: %s" % e, instance=cfg)
      continue
    lo, hi = got.bounds()
    munit = "%s::%s.min/max" % (mod.relpath, cls)
    rep.check(hi is not None and hi <= mx, "R5", munit,
              "max()-does-not-enclose",
              "max()=%s but outputs reach %s" % (mx, hi), instance=cfg,
              observed="max()=%s, outputs reach %s" % (mx, hi), facts=facts)
    rep.check(lo is not None and mn <= lo, "R5", munit,
              "min()-does-not-enclose",
              "min()=%s but outputs reach %s" % (mn, lo), instance=cfg,
              observed="min()=%s, outputs reach %s" % (mn, lo), facts=facts)
  rep.extra["configuration_points"] = n
  rep.extra["skipped_max_value_below_smallest_code"] = skipped
  # R6: if a po2 quantizer has (or gains) the adjustment hook that layers
  # call on their weight quantizers, the adjusted object must equal the
  # quantizer constructed with the adjusted options (rule shared with C05)
  from .c05 import rule_installed

  def po2_configs(cls, tier_):
    for bits, mv in itertools.product((2, 3, 4, 6), (None, F(1), F(4))):
      kw = dict(bits=bits, max_value=mv)
      yield kw
      if cls == "quantized_relu_po2":
        yield dict(kw, negative_slope=F(1, 4))
  rep.extra["installed_po2_configurations"] = rule_installed(
      rep, repo, ("quantized_po2", "quantized_relu_po2"), "R6", tier,
      po2_configs)
  # R7: an option exposed through a property setter is honoured when it is
  # assigned on a live object (rule shared with C09; today no po2 option has
  # a setter, so the instance count is 0 on the unchanged tree)
  from . import c09
  nset = 0
  for cls in ("quantized_po2", "quantized_relu_po2"):
    for base in ({}, {"bits": 4}, {"bits": 3, "log2_rounding": "floor"}):
      nset += c09.rule_setters(rep, repo, repo.module(quant.QMOD), cls,
                               base, c09.ALTS[cls][1], rule="R7")
  rep.extra["property_setter_assignments_checked"] = nset
  # R8: a po2 quantizer does not depend on the po2 quantizers built before
  # it in the same process (rule shared with C09 R10)
  nh = c09.rule_construction_history(
      rep, repo, repo.module(quant.QMOD),
      ("quantized_po2", "quantized_relu_po2"), "R8")
  if nh < 20:
    raise AnalysisError("instance-count only %d construction histories" % nh)
  rep.require_instances("R1", 150)
  rep.require_instances("R2", 150)
  rep.require_instances("R3", 150)
  rep.require_instances("R4", 150)
  rep.require_instances("R5", 300)
