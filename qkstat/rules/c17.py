"""C17 - qtools accumulator and adder types.

R1 adder_impl_table is 6x6, indexed by the same modes, and symmetric; the
   adder output type is symmetric in its operands (semantic commutativity).
R2 a power-of-two operand is converted to fixed point before it is added:
   the output of every arm with a po2 operand equals the fixed-point adder
   applied to the converted operand (checked through R5's requirements on
   the po2 exponent range).
R3 accumulator growth: integer bits grow by at least ceil(log2(N)), N = the
   product of all kernel dimensions but the last plus one when a bias is
   accumulated; fractional bits and sign are those of the multiplier.
R4 widening never narrows: every output width is monotone non-decreasing in
   every operand width (polarity analysis).
R5 sufficiency: adder int >= max(i1, i2) + 1, frac >= max(f1, f2), sign =
   s1 | s2 (all widths; po2 operands through their exponent range); the Add /
   Maximum merges likewise on every path.
"""
import itertools
from fractions import Fraction as F

from ..loader import AnalysisError
from ..pe import (PE, Tensor, Obj, PyRaise, ClassRef, explore, Func, Mock,
                  Unsupported)
from ..qir import Fwd, simplify_app, mk_app, Eval, Env
from ..nf import NF, show
from ..vset import VS
from .. import typearith as ta, pwa

TECHNIQUE = ("Partial evaluation of adder / accumulator / merge type rules "
             "with symbolic widths (all paths for the merges); table "
             "symmetry; max-affine inequality proofs with witness search; "
             "polarity analysis for monotonicity.")

AF = "qkeras.qtools.quantized_operators.adder_factory"
AI = "qkeras.qtools.quantized_operators.adder_impl"
CI = "qkeras.qtools.quantized_operators.accumulator_impl"
CF = "qkeras.qtools.quantized_operators.accumulator_factory"
MG = "qkeras.qtools.quantized_operators.merge_factory"
MF = "qkeras.qtools.quantized_operators.multiplier_factory"

DOM_QUICK = {"b1": range(1, 11), "b2": range(1, 11), "i1": range(-3, 7),
             "i2": range(-3, 7), "f1": range(0, 8), "f2": range(0, 8),
             "bw": range(1, 9), "bx": range(1, 9),
             # integer bits may be negative (quantized_bits(4, -2); a
             # multiplier adjusted for auto_po2 scales below 1)
             "iw": range(-4, 5), "ix": range(-4, 5),
             "k0": (1, 2, 3, 5, 1024, 2 ** 15, 2 ** 15 + 1, 2 ** 20 - 1,
                    2 ** 20), "k1": (1, 2, 3, 7),
             "k2": (1, 2, 3, 64), "k3": (1, 2, 16)}
# thorough: witness search for non-identical forms over wider operands
DOM_THOROUGH = {"b1": range(1, 25), "b2": range(1, 25), "i1": range(-4, 13),
                "i2": range(-4, 13), "f1": range(0, 13), "f2": range(0, 13),
                "bw": range(1, 17), "bx": range(1, 17),
                "iw": range(-6, 9), "ix": range(-6, 9),
                "k0": (1, 2, 3, 5, 9, 17, 1024, 4097, 2 ** 15, 2 ** 15 + 1,
                       2 ** 16 + 1, 2 ** 17 + 3, 2 ** 20 - 1, 2 ** 20),
                "k1": (1, 2, 3, 5, 7), "k2": (1, 2, 3, 64, 513),
                "k3": (1, 2, 3, 16, 512)}
DOM = dict(DOM_QUICK)
SWAP = {("sym", "b1"): NF.sym("b2"), ("sym", "b2"): NF.sym("b1"),
        ("sym", "i1"): NF.sym("i2"), ("sym", "i2"): NF.sym("i1"),
        ("sym", "f1"): NF.sym("f2"), ("sym", "f2"): NF.sym("f1")}


def needs(q, pe, fw):
  """(integer bits, fractional bits) a fixed-point type must have to hold
  every value of operand q."""
  if q.attrs.get("is_po2"):
    mn, mx = pe.call(pe.getattr(q, "get_min_max_exp"), [], {})
    mn = fw(mn.term) if isinstance(mn, Tensor) else NF.const(F(mn))
    mx = fw(mx.term) if isinstance(mx, Tensor) else NF.const(F(mx))
    return mx, mn
  return ta.field(q, "int_bits", fw), ta.frac_bits(q, fw)


def rule_adder(rep, repo):
  af = repo.module(AF)
  if "IAdder" not in af.classes:
    raise AnalysisError("anchor-missing class adder_factory.IAdder")
  unit_t = "%s::IAdder.adder_impl_table" % af.relpath
  rep.unit(unit_t)
  loc = af.loc(af.classes["IAdder"].node)
  pe = PE(repo)
  fac = pe.call(pe.lookup_global("IAdder", af), [], {})
  tab = fac.attrs.get("adder_impl_table")
  ok = isinstance(tab, list) and len(tab) == 6 and all(
      isinstance(r, list) and len(r) == 6 and
      all(isinstance(c, ClassRef) for c in r) for r in tab)
  rep.check(ok, "R1", unit_t, "table-shape",
            "adder_impl_table is not a 6x6 table of classes", loc=loc)
  if not ok:
    return
  for i in range(6):
    for j in range(i, 6):
      rep.check(tab[i][j].cls is tab[j][i].cls, "R1", unit_t,
                "table-asymmetric[%d][%d]" % (i, j),
                "adder_impl_table[%d][%d] is %s but [%d][%d] is %s: addition "
                "is commutative" % (i, j, tab[i][j].cls.name, j, i,
                                    tab[j][i].cls.name), loc=loc)
  # semantic: output types with symbolic widths
  fw = Fwd()
  kinds = [k for k in ta.KINDS if k != "float"]
  results = {}
  for k1 in kinds:
    for k2 in kinds:
      pe2 = PE(repo)
      fac2 = pe2.call(pe2.lookup_global("IAdder", af), [], {})
      q1 = ta.make_operand(pe2, repo, k1, "1", by_fraction=True)
      q2 = ta.make_operand(pe2, repo, k2, "2", by_fraction=True)
      try:
        a = pe2.call(pe2.getattr(fac2, "make_quantizer"), [q1, q2], {})
      except PyRaise as e:
        rep.fail("R1", unit_t, "factory-raises:%s,%s" % (k1, k2),
                 "make_quantizer(%s, %s) raises %s" % (k1, k2, e), loc=loc)
        continue
      results[(k1, k2)] = (pe2, q1, q2, a)
  for (k1, k2), (pe2, q1, q2, a) in sorted(results.items()):
    cfg = "IAdder.make_quantizer(%s, %s)" % (k1, k2)
    unit = "%s::%s" % (repo.module(AI).relpath, a.cls.name)
    rep.unit(unit)
    o = a.attrs.get("output")
    bits, ib = ta.field(o, "bits", fw), ta.field(o, "int_bits", fw)
    sg = int(bool(o.attrs.get("is_signed")))
    fo = bits - sg - ib
    s1 = int(bool(q1.attrs["is_signed"]))
    s2 = int(bool(q2.attrs["is_signed"]))
    n1, f1 = needs(q1, pe2, fw)
    n2, f2 = needs(q2, pe2, fw)
    rep.check(sg == (s1 | s2), "R5", unit, "sign-rule",
              "%s: output.is_signed=%d for operand signs (%d,%d)" %
              (cfg, sg, s1, s2), instance=cfg)
    for what, have, need in (
        ("int", ib, mk_app("maximum", [n1, n2]) + 1),
        ("frac", fo, mk_app("maximum", [f1, f2]))):
      verdict, wit = ta.prove_ge(have, need, DOM)
      rep.check(verdict != "refuted", "R5", unit,
                "adder-insufficient-%s-bits" % what,
                "%s: output %s bits = %s, a sum needs %s; counterexample %s"
                % (cfg, what, show(have), show(need), ta.show_env(wit)),
                instance=cfg, facts={"verdict": verdict})
    if (k2, k1) in results:
      o2 = results[(k2, k1)][3].attrs.get("output")
      b2 = ta.field(o2, "bits", fw).subst(SWAP, simplify_app)
      i2 = ta.field(o2, "int_bits", fw).subst(SWAP, simplify_app)
      rep.check(b2 == bits and i2 == ib, "R1", unit,
                "adder-type-not-commutative",
                "%s gives bits=%s int=%s, the swapped call bits=%s int=%s" %
                (cfg, show(bits), show(ib), show(b2), show(i2)),
                instance=cfg)
    # R4 monotone in every operand width (integer / fractional bits of
    # fixed-point operands, total bits of po2 operands)
    for sym, dom in (("b1", (F(1), None)), ("b2", (F(1), None)),
                     ("i1", (F(0), None)), ("i2", (F(0), None)),
                     ("f1", (F(0), None)), ("f2", (F(0), None))):
      for fname, nf in (("int_bits", ib), ("frac_bits", fo)):
        if not nf.depends_on(("sym", sym)):
          continue
        sub = nf.subst({("sym", sym): NF.x()}, simplify_app)
        ev = Eval(Env(x=VS.real(dom[0], dom[1]),
                      syms={s: VS.real(F(0), None)
                            for s in ("b1", "b2", "i1", "i2", "f1", "f2")}))
        p = pwa.polarity(sub, ev)
        rep.check(p in ("+", "0"), "R4", unit, "narrows-when-widened",
                  "%s: output %s = %s is not monotone non-decreasing in %s "
                  "(polarity %s)" % (cfg, fname, show(nf), sym, p),
                  instance=cfg)
    if len(rep.samples) < 6:
      rep.sample({"call": cfg, "class": a.cls.name, "bits": show(bits),
                  "int_bits": show(ib)})
  rep.extra["adder_operand_pairs"] = len(results)


def rule_accumulator(rep, repo):
  ci = repo.module(CI)
  cf = repo.module(CF)
  mf = repo.module(MF)
  fw = Fwd()
  for shape_rank in (2, 4):
    for use_bias in (True, False):
      for kw, kx in (("fixed_s", "fixed_s"), ("fixed_u", "fixed_s"),
                     ("ternary", "fixed_u"), ("po2_s", "po2_s"),
                     ("po2_s", "fixed_s"), ("ternary", "po2_s"),
                     ("binary", "po2_s"), ("binary01", "po2_u"),
                     ("po2_s", "ternary"), ("po2_u", "binary01")):
        pe = PE(repo)
        fac = pe.call(pe.lookup_global("MultiplierFactory", mf), [], {})
        w = ta.make_operand(pe, repo, kw, "w")
        x = ta.make_operand(pe, repo, kx, "x")
        m = pe.call(pe.getattr(fac, "make_multiplier"), [w, x], {})
        afac = pe.call(pe.lookup_global("AccumulatorFactory", cf), [], {})
        shape = [Tensor(("sym", "k%d" % d), ()) for d in range(shape_rank)]
        cfg = "make_accumulator(rank-%d kernel, %s x %s, use_bias=%s)" % (
            shape_rank, kw, kx, use_bias)
        try:
          acc = pe.call(pe.getattr(afac, "make_accumulator"),
                        [shape, m], {"use_bias": use_bias})
        except PyRaise as e:
          rep.fail("R3", "%s::make_accumulator" % cf.relpath,
                   "factory-raises", "%s raises %s" % (cfg, e), instance=cfg)
          continue
        except Unsupported as e:
          # the sizing branches on the kernel dimensions: no closed form;
          # the concrete kernel shapes below (rule_accumulator_shapes)
          # decide it
          rep.extra.setdefault("accumulator_closed_form_unavailable",
                               {})[cfg] = str(e)[:120]
          continue
        unit = "%s::%s" % (ci.relpath, acc.cls.name)
        rep.unit(unit)
        o = acc.attrs.get("output")
        mo = m.attrs.get("output")
        bits, ib = ta.field(o, "bits", fw), ta.field(o, "int_bits", fw)
        sg = int(bool(o.attrs.get("is_signed")))
        n = NF.const(1)
        for d in range(shape_rank - 1):
          n = n * NF.sym("k%d" % d)
        if use_bias:
          n = n + 1
        growth = mk_app("ceil", [mk_app("log2", [n])])
        if mo.attrs.get("is_po2"):
          mn, mx = pe.call(pe.getattr(mo, "get_min_max_exp"), [], {})
          mi = fw(mx.term) if isinstance(mx, Tensor) else NF.const(F(mx))
          mfrac = fw(mn.term) if isinstance(mn, Tensor) else NF.const(F(mn))
        else:
          mi = ta.field(mo, "int_bits", fw)
          mfrac = ta.frac_bits(mo, fw)
        msg = int(bool(mo.attrs.get("is_signed")))
        fo = bits - sg - ib
        rep.check(sg == msg, "R3", unit, "sign-rule",
                  "%s: accumulator sign %d, multiplier sign %d" %
                  (cfg, sg, msg), instance=cfg)
        for what, have, need in (("int", ib, mi + growth),
                                 ("frac", fo, mfrac)):
          verdict, wit = ta.prove_ge(have, need, DOM)
          rep.check(verdict != "refuted", "R3", unit,
                    "accumulator-insufficient-%s-bits" % what,
                    "%s: accumulator %s bits = %s; summing N = %s products "
                    "needs %s; counterexample %s" %
                    (cfg, what, show(have), show(n), show(need),
                     ta.show_env(wit)), instance=cfg,
                    facts={"verdict": verdict})
        # R4 monotone in the multiplier widths and the kernel dims
        for sym in ("bw", "bx", "iw", "ix", "k0", "k1", "k2"):
          for fname, nf in (("bits", bits), ("int_bits", ib)):
            if not nf.depends_on(("sym", sym)):
              continue
            sub = nf.subst({("sym", sym): NF.x()}, simplify_app)
            ev = Eval(Env(x=VS.real(F(1), None),
                          syms={s: VS.real(F(1), None)
                                for s in ("bw", "bx", "iw", "ix", "k0", "k1",
                                          "k2", "k3")}))
            p = pwa.polarity(sub, ev)
            rep.check(p in ("+", "0"), "R4", unit, "narrows-when-widened",
                      "%s: output %s = %s is not monotone non-decreasing in "
                      "%s (polarity %s)" % (cfg, fname, show(nf), sym, p),
                      instance=cfg)
        if len(rep.samples) < 10:
          rep.sample({"call": cfg, "bits": show(bits), "int_bits": show(ib)})


def _deficit_profile(records):
  """(points short, worst deficit, points) of `have >= need` over a fixed
  small grid of operand widths, for path records (literals, have, needs):
  a fingerprint of the computed function that does not depend on how the
  code branches."""
  names = set()
  for lits, have, needs_ in records:
    for nf_ in [have] + list(needs_) + [L for L, _ in lits]:
      names |= {a[1] for a in nf_.atoms() if a[0] == "sym"}
  names = sorted(names)
  grid = {"b": (2, 3, 5), "i": (0, 1, 3), "f": (0, 1, 3)}
  doms = [grid.get(n[0], (1, 2, 3)) for n in names]
  short, worst, pts = 0, F(0), 0
  for vals in itertools.product(*doms):
    env = dict(zip(names, vals))
    for lits, have, needs_ in records:
      try:
        if lits and not ta.holds(lits, env):
          continue
        h = ta.nf_eval(have, env)
        d = max(ta.nf_eval(n_, env) - h for n_ in needs_)
      except (KeyError, ZeroDivisionError):
        continue
      pts += 1
      if d > 0:
        short += 1
        worst = max(worst, d)
      break
  return short, worst, pts


def rule_merge(rep, repo):
  mg = repo.module(MG)
  fw = Fwd()
  for cname, grow in (("Add", 1), ("Maximum", 0)):
    if cname not in mg.classes:
      raise AnalysisError("anchor-missing class merge_factory.%s" % cname)
    unit = "%s::%s" % (mg.relpath, cname)
    rep.unit(unit)
    for k1, k2 in (("fixed_s", "fixed_s"), ("fixed_s", "fixed_u"),
                   ("fixed_u", "fixed_u"), ("po2_s", "fixed_s"),
                   ("fixed_s", "po2_s"), ("po2_u", "fixed_u"),
                   ("fixed_s", "po2_u")):
      cfg = "%s([%s, %s])" % (cname, k1, k2)

      def run(fork, k1=k1, k2=k2, cname=cname):
        pe = PE(repo)
        pe.fork = fork
        q1 = ta.make_operand(pe, repo, k1, "1", by_fraction=True)
        q2 = ta.make_operand(pe, repo, k2, "2", by_fraction=True)
        for q_, k_ in ((q1, k1), (q2, k2)):
          if k_.startswith("fixed"):
            q_.attrs["name"] = "quantized_bits"
        m = pe.call(pe.lookup_global(cname, mg), [[(q1, None), (q2, None)]],
                    {})
        return pe, q1, q2, m
      paths = explore(run)
      npaths = 0
      records = {"int": [], "frac": []}
      for path, res in paths:
        if isinstance(res, Exception):
          rep.fail("R5", unit, "merge-raises", "%s raises %s on a path" %
                   (cfg, res), instance=cfg)
          continue
        pe, q1, q2, m = res
        lits = ta.literals(path, fw)
        o = m.attrs.get("output")
        bits, ib = ta.field(o, "bits", fw), ta.field(o, "int_bits", fw)
        sg = int(bool(o.attrs.get("is_signed")))
        fo = bits - sg - ib
        s1 = int(bool(q1.attrs["is_signed"]))
        s2 = int(bool(q2.attrs["is_signed"]))
        npaths += 1
        rep.check(sg == (s1 | s2), "R5", unit, "merge-sign-rule",
                  "%s: output sign %d for operand signs (%d,%d)" %
                  (cfg, sg, s1, s2), instance=cfg)
        ni1, nf1 = needs(q1, pe, fw)
        ni2, nf2 = needs(q2, pe, fw)
        for what, have, n1, n2 in (("int", ib, ni1, ni2),
                                   ("frac", fo, nf1, nf2)):
          extra = grow if what == "int" else 0
          records[what].append((lits, have, [n1 + extra, n2 + extra]))
      for what in ("int", "frac"):
        first = None
        for lits, have, needs_ in records[what]:
          for need in needs_:
            verdict, wit = ta.prove_ge(have, need, DOM, lits)
            if verdict == "refuted" and first is None:
              first = (lits, have, need, wit)
        # what is wrong, independent of how the code branches: on a small
        # fixed grid of operand widths, how many points are short of bits
        # and by how much at most
        short, worst, pts = _deficit_profile(records[what])
        rep.check(first is None, "R5", unit,
                  "merge-insufficient-%s-bits" % what,
                  "%s: the output has %s bits = %s where an operand needs "
                  "%s; counterexample %s (on the grid of operand widths %d "
                  "of %d points are short, by at most %s bits)" %
                  ((cfg, what, show(first[1]), show(first[2]),
                    ta.show_env(first[3]), short, pts, worst)
                   if first else (cfg, what, "", "", "", 0, pts, 0)),
                  instance=cfg, observed="%d of %d grid points short of %s "
                  "bits, by at most %s" % (short, pts, what, worst))
      rep.extra.setdefault("merge_paths", {})[cfg] = npaths
  # the graph keeps ONE edge per pair of nodes: a node that feeds an Add
  # twice (Add()([x, x]), or two branches collapsed onto one producer)
  # reaches the factory as a one-entry list, and the type must hold x + x
  unit = "%s::MergeFactory.make_quantizer" % mg.relpath
  for k1 in ("fixed_s", "fixed_u"):
    cfg = "MergeFactory.make_quantizer([%s], 'Add') (one edge, used twice)" \
        % k1

    def run1(fork, k1=k1):
      pe = PE(repo)
      pe.fork = fork
      q1 = ta.make_operand(pe, repo, k1, "1", by_fraction=True)
      q1.attrs["name"] = "quantized_bits"
      fac = pe.call(pe.lookup_global("MergeFactory", mg), [], {})
      m = pe.call(pe.getattr(fac, "make_quantizer"),
                  [[(q1, Mock("edge", {}))], "Add"], {})
      return pe, q1, m
    recs = {"int": [], "frac": []}
    for path, res in explore(run1):
      if isinstance(res, Exception):
        rep.fail("R5", unit, "merge-raises", "%s raises %s on a path" %
                 (cfg, res), instance=cfg)
        continue
      pe, q1, m = res
      lits = ta.literals(path, fw)
      o = m.attrs.get("output")
      bits, ib = ta.field(o, "bits", fw), ta.field(o, "int_bits", fw)
      sg = int(bool(o.attrs.get("is_signed")))
      ni1, nf1 = needs(q1, pe, fw)
      recs["int"].append((lits, ib, [ni1 + 1]))
      recs["frac"].append((lits, bits - sg - ib, [nf1]))
    for what in ("int", "frac"):
      first = None
      for lits, have, needs_ in recs[what]:
        for need in needs_:
          verdict, wit = ta.prove_ge(have, need, DOM, lits)
          if verdict == "refuted" and first is None:
            first = (lits, have, need, wit)
      short, worst, pts = _deficit_profile(recs[what])
      rep.check(first is None and bool(recs[what]), "R5", unit,
                "merge-insufficient-%s-bits" % what,
                "%s: the output has %s bits = %s where x + x needs %s; "
                "counterexample %s" % (
                    (cfg, what, show(first[1]), show(first[2]),
                     ta.show_env(first[3])) if first else
                    (cfg, what, "", "", "")), instance=cfg,
                observed="%d of %d grid points short of %s bits, by at "
                "most %s" % (short, pts, what, worst))


def rule_siblings(rep, repo):
  """R6: operand classes derived from a KINDS class (StochasticBinary,
  StochasticTernary, Bernoulli, QuantizedTanh, QuantizedUlaw) describe the
  same value sets, so the adder factory must give them the same adder and
  output type as the class they derive from, in both operand positions."""
  af = repo.module(AF)
  fw = Fwd()
  kinds = [k for k in ta.KINDS if k != "float"]
  for cname, kind in ta.sibling_operands(repo):
    ref_q = ta.make_operand(PE(repo), repo, kind, "1")
    sib_q = ta.make_sibling(PE(repo), repo, cname, kind, "1")
    if sib_q.attrs.get("mode") != ref_q.attrs.get("mode"):
      alt = [k for k in ta.KINDS if ta.KINDS[k][2] == sib_q.attrs.get("mode")
             and ta.KINDS[k][1] is None]
      if len(alt) != 1:
        continue
      kind = alt[0]
    for kp in kinds:
      for pos in (0, 1):
        outs = []
        for use_sib in (False, True):
          pe3 = PE(repo)
          fac3 = pe3.call(pe3.lookup_global("IAdder", af), [], {})
          tag = "1" if pos == 0 else "2"
          a = ta.make_sibling(pe3, repo, cname, kind, tag) if use_sib else \
              ta.make_operand(pe3, repo, kind, tag)
          b = ta.make_operand(pe3, repo, kp, "2" if pos == 0 else "1")
          args = [a, b] if pos == 0 else [b, a]
          try:
            r = pe3.call(pe3.getattr(fac3, "make_quantizer"), args, {})
            o3 = r.attrs.get("output")
            outs.append((r.cls.name, o3.attrs.get("mode"),
                         ta.field(o3, "bits", fw),
                         ta.field(o3, "int_bits", fw),
                         bool(o3.attrs.get("is_signed"))))
          except PyRaise as e:
            outs.append(("raises %s" % e.exc_name,))
        cfg = "IAdder.make_quantizer(%s at position %d, other=%s)" % (
            cname, pos, kp)
        unit = "%s::%s" % (repo.module(AI).relpath,
                           outs[0][0] if not outs[0][0].startswith("raises")
                           else "IAdder")
        sh = lambda o: tuple(show(v) if isinstance(v, NF) else v for v in o)
        rep.check(outs[0] == outs[1], "R6", unit,
                  "sibling-operand-class-treated-differently",
                  "%s gives %s, the same call with the %s class it derives "
                  "from gives %s" % (cfg, sh(outs[1]), kind, sh(outs[0])),
                  instance=cfg)


def rule_factories_keep_their_hands_off(rep, repo):
  """R8: the adder / accumulator / merge factories derive a NEW type: the
  operand types handed in keep their fields, the result is none of the
  operand objects, and a second request on the same factory leaves the
  first result alone (the data-type map hands the same operand objects to
  several factories and keeps every result)."""
  af = repo.module(AF)
  cf = repo.module(CF)
  mf = repo.module(MF)
  mg = repo.module(MG)
  fields = ("mode", "bits", "int_bits", "is_signed", "max_val_po2", "name")

  def snap(q):
    return {f_: q.attrs.get(f_) for f_ in fields}

  def operand(pe, kind, tag, bits, ib):
    q = ta.make_operand(pe, repo, kind, tag)
    if kind.startswith("fixed"):
      q.attrs["bits"], q.attrs["int_bits"] = bits, ib
    elif kind.startswith("po2"):
      q.attrs["bits"] = q.attrs["int_bits"] = bits
    return q
  n = 0
  unit = "%s::IAdder.make_quantizer" % af.relpath
  rep.unit(unit)
  loc = af.loc(af.classes["IAdder"].node)
  for k1, k2 in (("fixed_s", "fixed_s"), ("fixed_s", "fixed_u"),
                 ("po2_s", "fixed_s"), ("fixed_u", "po2_u"),
                 ("po2_s", "po2_s"), ("ternary", "fixed_s"),
                 ("binary01", "po2_s")):
    pe = PE(repo)
    cfg = "IAdder.make_quantizer(%s, %s) twice" % (k1, k2)
    try:
      fac = pe.call(pe.lookup_global("IAdder", af), [], {})
      a1, a2 = operand(pe, k1, "1", 6, 2), operand(pe, k2, "2", 5, 1)
      s1, s2 = snap(a1), snap(a2)
      r1 = pe.call(pe.getattr(fac, "make_quantizer"), [a1, a2], {})
      o1 = r1.attrs.get("output")
      before = snap(o1)
      b1, b2 = operand(pe, k1, "1", 3, 0), operand(pe, k2, "2", 2, 0)
      r2 = pe.call(pe.getattr(fac, "make_quantizer"), [b1, b2], {})
    except PyRaise as e:
      rep.fail("R8", unit, "factory-raises", "%s raises %s" % (cfg, e),
               loc=loc, instance=cfg)
      continue
    n += 1
    rep.check(snap(a1) == s1 and snap(a2) == s2, "R8", unit,
              "operand-modified",
              "%s: the operand types became %r / %r (were %r / %r)" % (
                  cfg, snap(a1), snap(a2), s1, s2), loc=loc, instance=cfg)
    rep.check(all(o1 is not q for q in (a1, a2, b1, b2)) and
              o1 is not r2.attrs.get("output") and snap(o1) == before, "R8",
              unit, "result-shared-or-changed",
              "%s: the first result is %r after the second request (was "
              "%r)%s" % (cfg, snap(o1), before, "; it is one of the operand "
                         "objects" if any(o1 is q for q in (a1, a2, b1, b2))
                         else ""), loc=loc, instance=cfg)
  # ... and every request is answered from its operands alone: a request
  # made after another one (on a NEW factory object; operands that agree in
  # kind and widths, or differ only in the value cap of a power-of-two
  # operand) gets the type a fresh interpreter derives for it
  def po2_capped(pe, tag, cap):
    q = operand(pe, "po2_s", tag, 4, 4)
    q.attrs["max_val_po2"] = cap
    return q
  seqs = [
      ("same kinds, other widths",
       lambda pe: (operand(pe, "fixed_s", "1", 6, 2),
                   operand(pe, "fixed_s", "2", 5, 1)),
       lambda pe: (operand(pe, "fixed_s", "1", 3, 0),
                   operand(pe, "fixed_s", "2", 2, 0))),
      ("po2 operand capped at 1, then uncapped",
       lambda pe: (operand(pe, "fixed_s", "1", 10, 1), po2_capped(pe, "2",
                                                                  1)),
       lambda pe: (operand(pe, "fixed_s", "1", 10, 1), po2_capped(pe, "2",
                                                                  -1))),
      ("po2 operand uncapped, then capped at 2",
       lambda pe: (operand(pe, "fixed_s", "1", 10, 1), po2_capped(pe, "2",
                                                                  -1)),
       lambda pe: (operand(pe, "fixed_s", "1", 10, 1), po2_capped(pe, "2",
                                                                  2))),
  ]
  for label, first, second in seqs:
    cfg = "IAdder.make_quantizer twice: %s" % label
    try:
      pe = PE(repo)
      f1 = pe.call(pe.lookup_global("IAdder", af), [], {})
      pe.call(pe.getattr(f1, "make_quantizer"), list(first(pe)), {})
      f2 = pe.call(pe.lookup_global("IAdder", af), [], {})
      r2 = pe.call(pe.getattr(f2, "make_quantizer"), list(second(pe)), {})
      pf = PE(repo)
      ff = pf.call(pf.lookup_global("IAdder", af), [], {})
      rf = pf.call(pf.getattr(ff, "make_quantizer"), list(second(pf)), {})
    except PyRaise as e:
      rep.fail("R8", unit, "factory-raises", "%s raises %s" % (cfg, e),
               loc=loc, instance=cfg)
      continue
    n += 1
    got, want = snap(r2.attrs.get("output")), snap(rf.attrs.get("output"))
    rep.check(got == want and r2.cls is rf.cls, "R8", unit,
              "result-depends-on-earlier-request",
              "%s: the second request gives %s %r, the same request alone "
              "%s %r" % (cfg, r2.cls.name, got, rf.cls.name, want), loc=loc,
              instance=cfg)
  unit = "%s::AccumulatorFactory.make_accumulator" % cf.relpath
  rep.unit(unit)
  loc = cf.loc(cf.classes["AccumulatorFactory"].node)
  for kw, kx in (("fixed_s", "fixed_s"), ("po2_s", "fixed_s"),
                 ("po2_s", "po2_s"), ("ternary", "fixed_u")):
    pe = PE(repo)
    cfg = "make_accumulator(..., %s x %s) twice" % (kw, kx)
    try:
      mfac = pe.call(pe.lookup_global("MultiplierFactory", mf), [], {})
      m = pe.call(pe.getattr(mfac, "make_multiplier"), [
          operand(pe, kw, "w", 5, 1), operand(pe, kx, "x", 6, 2)], {})
      ms = snap(m.attrs["output"])
      afac = pe.call(pe.lookup_global("AccumulatorFactory", cf), [], {})
      acc1 = pe.call(pe.getattr(afac, "make_accumulator"),
                     [[3, 3, 8, 4], m], {"use_bias": False})
      o1 = acc1.attrs.get("output")
      before = snap(o1)
      acc2 = pe.call(pe.getattr(afac, "make_accumulator"),
                     [[1, 1, 2, 4], m], {"use_bias": True})
    except PyRaise as e:
      rep.fail("R8", unit, "factory-raises", "%s raises %s" % (cfg, e),
               loc=loc, instance=cfg)
      continue
    n += 1
    rep.check(snap(m.attrs["output"]) == ms, "R8", unit, "operand-modified",
              "%s: the multiplier's output type became %r (was %r)" % (
                  cfg, snap(m.attrs["output"]), ms), loc=loc, instance=cfg)
    rep.check(o1 is not m.attrs["output"] and o1 is not acc2.attrs.get(
        "output") and snap(o1) == before, "R8", unit,
              "result-shared-or-changed",
              "%s: the first accumulator type is %r after the second "
              "request (was %r)" % (cfg, snap(o1), before), loc=loc,
              instance=cfg)
  unit = "%s::MergeFactory.make_quantizer" % mg.relpath
  rep.unit(unit)
  loc = mg.loc(mg.classes["MergeFactory"].node)
  for layer_type in ("Add", "Maximum", "Concatenate", "Average"):
    pe = PE(repo)
    cfg = "MergeFactory.make_quantizer(..., %r) twice" % layer_type
    try:
      fac = pe.call(pe.lookup_global("MergeFactory", mg), [], {})
      ops = [operand(pe, "fixed_s", "1", 6, 2), operand(pe, "fixed_s", "2",
                                                        4, 3)]
      snaps = [snap(q) for q in ops]
      edges = [(q, Mock("edge", {})) for q in ops]
      r1 = pe.call(pe.getattr(fac, "make_quantizer"), [edges, layer_type],
                   {})
      o1 = r1.attrs.get("output")
      before = snap(o1)
      ops2 = [operand(pe, "fixed_s", "1", 3, 0), operand(pe, "fixed_s", "2",
                                                         2, 1)]
      r2 = pe.call(pe.getattr(fac, "make_quantizer"),
                   [[(q, Mock("edge", {})) for q in ops2], layer_type], {})
    except PyRaise as e:
      rep.fail("R8", unit, "factory-raises", "%s raises %s" % (cfg, e),
               loc=loc, instance=cfg)
      continue
    n += 1
    rep.check([snap(q) for q in ops] == snaps, "R8", unit,
              "operand-modified", "%s: operand types became %r (were %r)" % (
                  cfg, [snap(q) for q in ops], snaps), loc=loc, instance=cfg)
    rep.check(all(o1 is not q for q in ops + ops2) and
              o1 is not r2.attrs.get("output") and snap(o1) == before, "R8",
              unit, "result-shared-or-changed",
              "%s: the first result is %r after the second request (was "
              "%r)" % (cfg, snap(o1), before), loc=loc, instance=cfg)
  if n < 12:
    raise AnalysisError("instance-count only %d factory sequences" % n)


def rule_accumulator_shapes(rep, repo):
  """R3 on concrete kernel shapes (the closed form above treats the kernel
  dimensions as symbols and cannot follow code that branches on them): dense
  (n, m) and convolution (k_h, k_w, c_in, c_out) kernels incl. every
  dimension equal to 1, the (k_h, k_w, 1, 1) convention the depthwise /
  pooling callers use, with and without bias.  Every output sums N = product
  of all but the last dimension (+1 with a bias): the accumulator has at
  least ceil(log2 N) integer bits more than a product and keeps its
  fractional bits."""
  ci = repo.module(CI)
  cf = repo.module(CF)
  mf = repo.module(MF)
  unit = "%s::FixedPointAccumulator" % ci.relpath
  rep.unit(unit)
  shapes = [(5, 1), (1, 7), (16, 8), (3, 3, 16, 1), (1, 1, 64, 1),
            (3, 3, 1, 1), (3, 3, 1, 8), (1, 1, 1, 1), (3, 3, 16, 2),
            (5, 1, 4, 1), (1, 5, 4, 3), (7, 7, 3, 64), (3, 16, 1), (3, 1, 1),
            (1, 16, 4)]
  n = 0
  for kw, kx in (("fixed_s", "fixed_s"), ("fixed_u", "fixed_ub"),
                 ("po2_s", "po2_u"), ("ternary", "fixed_s")):
    for shape in shapes:
      for use_bias in (False, True):
        pe = PE(repo)

        def sized(kind, tag):
          q = ta.make_operand(pe, repo, kind, tag)
          if kind.startswith("fixed"):
            q.attrs["bits"], q.attrs["int_bits"] = 6, 2
          elif kind.startswith("po2"):
            q.attrs["bits"] = q.attrs["int_bits"] = 3
          return q
        cfg = "make_accumulator(kernel %s, %s x %s, use_bias=%s)" % (
            shape, kw, kx, use_bias)
        try:
          fac = pe.call(pe.lookup_global("MultiplierFactory", mf), [], {})
          m = pe.call(pe.getattr(fac, "make_multiplier"),
                      [sized(kw, "w"), sized(kx, "x")], {})
          afac = pe.call(pe.lookup_global("AccumulatorFactory", cf), [], {})
          acc = pe.call(pe.getattr(afac, "make_accumulator"),
                        [list(shape), m], {"use_bias": use_bias})
        except PyRaise as e:
          rep.fail("R3", unit, "factory-raises", "%s raises %s" % (cfg, e),
                   instance=cfg)
          continue
        o, mo = acc.attrs.get("output"), m.attrs.get("output")
        terms = 1
        for d in shape[:-1]:
          terms *= d
        terms += int(use_bias)
        need = (terms - 1).bit_length()          # ceil(log2 terms)
        if mo.attrs.get("is_po2"):
          mn, mx = pe.call(pe.getattr(mo, "get_min_max_exp"), [], {})
          m_int, m_frac = F(mx), F(mn)
        else:
          m_int = F(mo.attrs["int_bits"])
          m_frac = F(mo.attrs["bits"]) - int(bool(mo.attrs.get(
              "is_signed"))) - m_int
        a_int = o.attrs.get("int_bits")
        a_frac = None if a_int is None else F(o.attrs["bits"]) - int(bool(
            o.attrs.get("is_signed"))) - F(a_int)
        n += 1
        rep.check(a_int is not None and F(a_int) >= m_int + need and
                  a_frac >= m_frac, "R3", unit,
                  "accumulator-too-small-for-kernel-shape",
                  "%s: every output sums %d terms; the accumulator has %s "
                  "integer / %s fractional bits, a product %s / %s: needs "
                  "%d more integer bits" % (cfg, terms, a_int, a_frac,
                                            m_int, m_frac, need),
                  instance=cfg, observed="int %s frac %s" % (a_int, a_frac))
  if n < 100:
    raise AnalysisError("instance-count only %d concrete accumulators" % n)


def rule_float_sums(rep, repo):
  """R9: floating-point operands.  A sum with a floating-point operand is a
  floating-point type at least as wide as every floating-point operand (an
  fp16 result cannot hold an fp32 addend), whichever position it is in; an
  accumulator of floating-point products and the bias add that follows keep
  that width."""
  af = repo.module(AF)
  cf = repo.module(CF)
  mf = repo.module(MF)
  qi = repo.module(ta.QI)
  unit = "%s::FloatingPointAdder" % repo.module(AI).relpath
  rep.unit(unit)
  loc = af.loc(af.classes["IAdder"].node)

  def operand(pe, spec, tag):
    kind, bits = spec
    if kind == "float":
      return pe.call(pe.lookup_global("FloatingPoint", qi), [],
                     {"bits": bits})
    q = ta.make_operand(pe, repo, kind, tag)
    if kind.startswith("fixed"):
      q.attrs["bits"], q.attrs["int_bits"] = 12, 3
    elif kind.startswith("po2"):
      q.attrs["bits"] = q.attrs["int_bits"] = 5
    return q
  cases = [((("float", b1), ("float", b2)), max(b1, b2), True)
           for b1 in (16, 32, 64) for b2 in (16, 32, 64)]
  for other in ("fixed_s", "fixed_u", "po2_s", "ternary", "binary",
                "binary01"):
    for fb in (16, 32):
      cases.append(((("float", fb), (other, None)), fb, False))
      cases.append((((other, None), ("float", fb)), fb, False))
  n = 0
  for (s1, s2), want, exact in cases:
    pe = PE(repo)
    cfg = "IAdder.make_quantizer(%s%s, %s%s)" % (s1[0], s1[1] or "", s2[0],
                                                 s2[1] or "")
    try:
      fac = pe.call(pe.lookup_global("IAdder", af), [], {})
      a = pe.call(pe.getattr(fac, "make_quantizer"),
                  [operand(pe, s1, "1"), operand(pe, s2, "2")], {})
    except PyRaise as e:
      rep.fail("R9", unit, "factory-raises", "%s raises %s" % (cfg, e),
               loc=loc, instance=cfg)
      continue
    n += 1
    o = a.attrs.get("output")
    isf = bool(o.attrs.get("is_floating_point"))
    bits = o.attrs.get("bits")
    ok = isf and isinstance(bits, (int, F)) and (
        bits == want if exact else bits >= want)
    rep.check(ok, "R9", unit, "float-sum-width",
              "%s: the sum type is %s with %r bits, expected floating point "
              "with %s%d bits" % (cfg, "floating point" if isf else
                                  "not floating point", bits,
                                  "" if exact else ">= ", want), loc=loc,
              instance=cfg, observed="%s/%r" % (isf, bits))
  # accumulator of floating-point products, then the bias add
  aunit = "%s::FloatingPointAccumulator" % repo.module(
      "qkeras.qtools.quantized_operators.accumulator_impl").relpath
  rep.unit(aunit)
  for wb, xb, bias in ((32, 16, ("float", 16)), (16, 32, ("float", 64)),
                       (16, 16, ("fixed_s", None)), (32, 32, ("float", 32))):
    pe = PE(repo)
    cfg = "fp%d x fp%d products accumulated, bias %s%s" % (
        wb, xb, bias[0], bias[1] or "")
    try:
      mfac = pe.call(pe.lookup_global("MultiplierFactory", mf), [], {})
      m = pe.call(pe.getattr(mfac, "make_multiplier"), [
          operand(pe, ("float", wb), "w"), operand(pe, ("float", xb), "x")],
                  {})
      afac = pe.call(pe.lookup_global("AccumulatorFactory", cf), [], {})
      acc = pe.call(pe.getattr(afac, "make_accumulator"), [[3, 3, 4, 8], m],
                    {"use_bias": True})
      fac = pe.call(pe.lookup_global("IAdder", af), [], {})
      badd = pe.call(pe.getattr(fac, "make_quantizer"), [
          acc.attrs["output"], operand(pe, bias, "b")], {})
    except PyRaise as e:
      rep.fail("R9", aunit, "factory-raises", "%s raises %s" % (cfg, e),
               loc=loc, instance=cfg)
      continue
    n += 1
    ao, bo = acc.attrs["output"], badd.attrs["output"]
    need = max(wb, xb)
    need_b = max(need, bias[1] or 0)
    rep.check(bool(ao.attrs.get("is_floating_point")) and
              ao.attrs.get("bits") == need and
              bool(bo.attrs.get("is_floating_point")) and
              isinstance(bo.attrs.get("bits"), (int, F)) and
              bo.attrs.get("bits") >= need_b, "R9", aunit,
              "float-accumulator-width",
              "%s: accumulator %r bits (floating point: %r), after the "
              "bias add %r bits; expected %d and >= %d" % (
                  cfg, ao.attrs.get("bits"),
                  ao.attrs.get("is_floating_point"), bo.attrs.get("bits"),
                  need, need_b), loc=loc, instance=cfg,
              observed="%r/%r" % (ao.attrs.get("bits"), bo.attrs.get("bits")))
  # merge layers with floating-point inputs: the merged type is floating
  # point and as wide as the widest floating-point input, in every order
  mg = repo.module(MG)
  munit = "%s::MergeFactory.make_quantizer" % mg.relpath
  rep.unit(munit)
  for layer_type in ("Add", "Maximum", "Minimum", "Average", "Concatenate",
                     "Multiply"):
    for specs in ([("float", 16), ("float", 32)],
                  [("float", 32), ("float", 16)],
                  [("float", 16), ("fixed_s", None), ("float", 32)],
                  [("float", 32), ("float", 32)]):
      pe = PE(repo)
      cfg = "MergeFactory.make_quantizer(%s, %r)" % (
          [k + str(b or "") for k, b in specs], layer_type)
      try:
        fac = pe.call(pe.lookup_global("MergeFactory", mg), [], {})
        edges = [(operand(pe, sp, str(i)), Mock("edge", {}))
                 for i, sp in enumerate(specs)]
        r = pe.call(pe.getattr(fac, "make_quantizer"), [edges, layer_type],
                    {})
      except PyRaise as e:
        rep.fail("R9", munit, "factory-raises", "%s raises %s" % (cfg, e),
                 loc=loc, instance=cfg)
        continue
      n += 1
      o = r.attrs.get("output")
      isf = isinstance(o, Obj) and bool(o.attrs.get("is_floating_point"))
      bits = o.attrs.get("bits") if isinstance(o, Obj) else None
      rep.check(isf and bits == 32, "R9", munit, "float-merge-width",
                "%s: the merged type is %s with %r bits, expected floating "
                "point with 32 bits" % (cfg, "floating point" if isf else
                                        "not floating point", bits),
                loc=loc, instance=cfg, observed="%s/%r" % (isf, bits))
  if n < 30:
    raise AnalysisError("instance-count only %d float sums" % n)


def rule_recorded_values(rep, repo):
  """R10: bookkeeping is not type.  In inference mode the data-type map
  records on a po2 weight / bias type how many distinct values the tensor
  holds (`update_inference_values`); the number says nothing about where
  those values lie, so every sum built on the operand afterwards - bias add,
  merge, accumulator of its products - has the type it has without the
  record."""
  af = repo.module(AF)
  cf = repo.module(CF)
  mf = repo.module(MF)
  mg = repo.module(MG)
  unit = "%s::po2_to_qbits" % repo.module(
      "qkeras.qtools.quantized_operators.accumulator_impl").relpath
  rep.unit(unit)
  loc = af.loc(af.classes["IAdder"].node)
  fields = ("mode", "bits", "int_bits", "is_signed", "is_floating_point",
            "max_val_po2")

  def snap(q):
    return {f_: q.attrs.get(f_) for f_ in fields} if isinstance(
        q, Obj) else q

  def sized(pe, kind, tag, bits, ib=None):
    q = ta.make_operand(pe, repo, kind, tag)
    if kind.startswith("fixed"):
      q.attrs["bits"], q.attrs["int_bits"] = bits, ib
    else:
      q.attrs["bits"] = q.attrs["int_bits"] = bits
    return q
  n = 0
  for kind in ("po2_s", "po2_u"):
    for nvals in (1, 2, 3):
      vals = [F(1, 256), F(64), F(1, 2)][:nvals]
      weights = Mock("weights", {"flatten": lambda pe_, a, k, vals=vals:
                                 list(vals) * 2})

      def build(pe, record):
        p = sized(pe, kind, "p", 5)
        if record:
          pe.call(pe.getattr(p, "update_inference_values"), [weights], {})
        out = {}
        fac = pe.call(pe.lookup_global("IAdder", af), [], {})
        acc = sized(pe, "fixed_s", "a", 9, 2)
        out["bias add"] = snap(pe.call(pe.getattr(fac, "make_quantizer"),
                                       [acc, p], {}).attrs.get("output"))
        out["bias add, swapped"] = snap(pe.call(
            pe.getattr(fac, "make_quantizer"), [p, acc], {}).attrs.get(
                "output"))
        out["po2 + po2"] = snap(pe.call(
            pe.getattr(fac, "make_quantizer"),
            [p, sized(pe, "po2_s", "q", 4)], {}).attrs.get("output"))
        mfac = pe.call(pe.lookup_global("MergeFactory", mg), [], {})
        out["merge Add"] = snap(pe.call(
            pe.getattr(mfac, "make_quantizer"),
            [[(p, Mock("edge", {})), (acc, Mock("edge", {}))], "Add"],
            {}).attrs.get("output"))
        mul = pe.call(pe.getattr(pe.call(pe.lookup_global(
            "MultiplierFactory", mf), [], {}), "make_multiplier"),
                      [p, sized(pe, "po2_u", "x", 3)], {})
        afac = pe.call(pe.lookup_global("AccumulatorFactory", cf), [], {})
        out["accumulator of its products"] = snap(pe.call(
            pe.getattr(afac, "make_accumulator"), [[3, 4], mul],
            {"use_bias": False}).attrs.get("output"))
        return out
      cfg = "%s operand (5 bits) holding %d distinct values" % (kind, nvals)
      try:
        plain = build(PE(repo), False)
        recorded = build(PE(repo), True)
      except PyRaise as e:
        rep.fail("R10", unit, "raises", "%s: raises %s" % (cfg, e), loc=loc,
                 instance=cfg)
        continue
      for what in sorted(plain):
        n += 1
        rep.check(plain[what] == recorded[what], "R10", unit,
                  "type-depends-on-recorded-values:" + what,
                  "%s: %s is %r once update_inference_values() recorded the "
                  "count, %r without the record" % (
                      cfg, what, recorded[what], plain[what]), loc=loc,
                  instance="%s/%s" % (cfg, what))
  if n < 20:
    raise AnalysisError("instance-count only %d sums on recorded operands"
                        % n)


def run(rep, repo, tier):
  DOM.clear()
  DOM.update(DOM_THOROUGH if tier == "thorough" else DOM_QUICK)
  rep.trusted.append("two's-complement ranges of the qtools types; po2 "
                     "exponent range from the repository's get_min_max_exp")
  rep.assumptions.append("sufficiency for N up to 2^20 is proved "
                         "symbolically when the forms are identical, "
                         "otherwise searched on a witness grid (verdict "
                         "'bounded' in the facts)")
  rule_adder(rep, repo)
  rule_accumulator(rep, repo)
  rule_accumulator_shapes(rep, repo)
  rule_merge(rep, repo)
  rule_siblings(rep, repo)
  rule_factories_keep_their_hands_off(rep, repo)
  rep.require_instances("R8", 24)
  rule_float_sums(rep, repo)
  rep.require_instances("R9", 30)
  rule_recorded_values(rep, repo)
  rep.require_instances("R10", 20)
  rep.require_instances("R6", 40)
  # R7: get_min_max_exp (trusted by the po2 adders / accumulators) against
  # the qkeras po2 quantizers' own exponent sets (rule shared with C18)
  from .c18 import rule_po2_exponents
  rule_po2_exponents(rep, repo, tier, rule="R7")
  rep.require_instances("R7", 200)
  rep.require_instances("R1", 40)
  rep.require_instances("R3", 40)
  rep.require_instances("R4", 40)
  rep.require_instances("R5", 100)
